#!/bin/bash
# process every /tmp/wtout/Cxx/patchN.diff not yet listed in /tmp/wtout/results.txt
touch /tmp/wtout/results.txt
for d in /tmp/wtout/C*; do
  id=$(basename $d)
  for n in 1 2; do
    p=$d/patch$n.diff; dm=$d/demo$n.py
    [ -s "$p" ] && [ -f "$dm" ] || continue
    grep -q "^$id patch$n " /tmp/wtout/results.txt && continue
    c=$(/verif/tools/seed_confirm.sh $p $dm 2>&1 | tail -1)
    e=$(/verif/tools/seed_eval.py $p 2>&1 | head -1)
    echo "$id patch$n | $c | $e" >> /tmp/wtout/results.txt
    echo "$id patch$n | $c | $e"
  done
done
