#!/venv/bin/python
"""Mutation experiment used to evaluate the checks (not a check itself; it runs repository code in scratch copies).

usage: mutrun.py <dir>      <dir>/mutants.json from mutgen.py; appends one JSON line per mutant to <dir>/results.jsonl
For every mutant: copy /repo/emd to a scratch directory, apply the mutation, run the pinned test-suite.  Survivors:
run the demonstration programs of the seeded changes of every relevant property (each demo is an independent,
executable test of that property written by a sub-agent) and evaluate all 20 quick checks on the in-memory variant.
Interesting outcomes: a demo of property P fails and check P is silent (a miss); every demo passes and a check
alarms (false alarm, or a check that sees more than the demos)."""
import concurrent.futures as cf
import glob
import json
import os
import shutil
import subprocess
import sys
import time

VERIF = os.path.dirname(os.path.dirname(os.path.abspath(__file__)))
sys.path.insert(0, VERIF)
sys.dont_write_bytecode = True
PROPS = ['C%02d' % i for i in range(1, 21)]
PY = '/venv/bin/python'


_TIMES = None


def demos_for(props, workdir=None):
    """Demonstration programs used as property oracles: per property the (at most) five fastest ones that take less
    than 8 s on the clean tree (<dir>/demotimes.json, written by a timing pass), all of them when no timing exists."""
    global _TIMES
    if _TIMES is None:
        f = os.path.join(workdir or '', 'demotimes.json')
        _TIMES = json.load(open(f)) if workdir and os.path.exists(f) else {}
    out = []
    for p in props:
        ds = sorted(glob.glob(os.path.join(VERIF, 'seeded', p + '-*')))
        if _TIMES:
            ds = [d for d in ds if _TIMES.get(os.path.basename(d), [0, 0])[0] < 8.0]
            ds = sorted(ds, key=lambda d: _TIMES.get(os.path.basename(d), [0, 0])[0])[:5]
        for d in sorted(ds):
            out.append((os.path.basename(d), os.path.join(d, 'demo.py')))
    return out


def run_one(args):
    m, workroot = args
    from emdverif import selfval
    t0 = time.time()
    w = os.path.join(workroot, m['id'])
    shutil.rmtree(w, ignore_errors=True)
    os.makedirs(w)
    shutil.copytree('/repo/emd', os.path.join(w, 'emd'), ignore=shutil.ignore_patterns('__pycache__'))
    for extra in ('setup.py', 'setup.cfg', 'requirements.txt', 'README.md'):
        if os.path.exists(os.path.join('/repo', extra)):
            shutil.copy(os.path.join('/repo', extra), w)
    path = os.path.join(w, m['file'])
    src = open(path).read()
    assert src[m['start']:m['end']] == m['old'], m['id']
    new = src[:m['start']] + m['new'] + src[m['end']:]
    open(path, 'w').write(new)
    res = {'id': m['id'], 'func': m['func'], 'op': m['op'], 'line': m['line'], 'old': m['old'][:80], 'new': m['new'][:80],
           'props': m['props']}
    env = dict(os.environ, PYTHONPATH=w, PYTHONDONTWRITEBYTECODE='1')
    try:
        r = subprocess.run([PY, '-m', 'pytest', '-q', '-x', '-p', 'no:cacheprovider', '--timeout=120', 'emd/tests'],
                           cwd=w, env=env, capture_output=True, text=True, timeout=600)
        tail = (r.stdout.strip().split('\n') or [''])[-1]
        res['tests'] = 'pass' if (r.returncode == 0 and ' passed' in tail and 'failed' not in tail) else 'fail'
    except subprocess.TimeoutExpired:
        res['tests'] = 'timeout'
    if res['tests'] == 'pass':
        props = [p for p in m['props'] if p != 'C19' or m['file'] == 'emd/support.py'] or m['props']
        failed, passed = [], []
        for name, demo in demos_for(props, os.path.dirname(workroot)):
            try:
                r = subprocess.run([PY, demo], cwd=w, env=env, capture_output=True, text=True, timeout=120)
                (passed if r.returncode == 0 else failed).append(name)
            except subprocess.TimeoutExpired:
                failed.append(name + '(timeout)')
        res['demos_failed'] = failed
        res['demos_passed'] = len(passed)
        # checks on the in-memory variant
        ov = {m['file']: new}
        det, err = [], []
        rules = set()
        for p in PROPS:
            rc, out = selfval._run_variant(p, ov)
            if rc == 1:
                det.append(p)
                for l in out.split('\n'):
                    if l.startswith('  emd/'):
                        rules |= {x for x in l.split() if x[:1] == 'C' and '.R' in x}
                    if ' L1 ' in l:
                        rules.add('L1')
            elif rc != 0:
                err.append(p)
        res['check_detect'] = det
        res['check_error'] = err
        res['rules'] = sorted(rules)
    shutil.rmtree(w, ignore_errors=True)
    res['wall'] = round(time.time() - t0, 1)
    return res


def main():
    d = sys.argv[1]
    jobs = int(sys.argv[2]) if len(sys.argv) > 2 else 14
    muts = json.load(open(os.path.join(d, 'mutants.json')))
    done = set()
    resfile = os.path.join(d, 'results.jsonl')
    if os.path.exists(resfile):
        for l in open(resfile):
            done.add(json.loads(l)['id'])
    todo = [m for m in muts if m['id'] not in done]
    only = os.environ.get('MUT_ONLY')
    if only:
        todo = [m for m in todo if m['file'].endswith(only)]
    work = os.path.join(d, 'work')
    os.makedirs(work, exist_ok=True)
    print('todo', len(todo), flush=True)
    n = 0
    with cf.ProcessPoolExecutor(max_workers=jobs) as ex, open(resfile, 'a') as out:
        for res in ex.map(run_one, [(m, work) for m in todo], chunksize=1):
            out.write(json.dumps(res) + '\n')
            out.flush()
            n += 1
            if n % 50 == 0:
                print(n, 'done', flush=True)


if __name__ == '__main__':
    main()
