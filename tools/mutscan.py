#!/venv/bin/python
"""Checks-only scan of the stored mutants: for every mutant run the quick checks of the properties anchored in the
mutated function on the in-memory variant (no tests, no demos, no repository code).  Writes <dir>/scan.json:
id -> {prop: rc}.  usage: mutscan.py <dir> [-j N] [file-suffix]"""
import json
import os
import sys
import concurrent.futures as cf

VERIF = os.path.dirname(os.path.dirname(os.path.abspath(__file__)))
sys.path.insert(0, VERIF)
sys.dont_write_bytecode = True


def one(a):
    m, prop = a
    from emdverif import selfval
    src = open(os.path.join('/repo', m['file'])).read()
    if src[m['start']:m['end']] != m['old']:
        return m['id'], prop, None
    new = src[:m['start']] + m['new'] + src[m['end']:]
    try:
        compile(new, m['file'], 'exec')
    except SyntaxError:
        return m['id'], prop, 'syntax'
    rc, out = selfval._run_variant(prop, {m['file']: new})
    return m['id'], prop, rc


def main():
    d = sys.argv[1]
    jobs = 4
    suffix = None
    args = sys.argv[2:]
    while args:
        a = args.pop(0)
        if a == '-j':
            jobs = int(args.pop(0))
        else:
            suffix = a
    muts = json.load(open(os.path.join(d, 'mutants.json')))
    outf = os.path.join(d, 'scan.json')
    res = json.load(open(outf)) if os.path.exists(outf) else {}
    todo = []
    for m in muts:
        if suffix and not m['file'].endswith(suffix):
            continue
        for p in m['props']:
            if p == 'C19' and m['file'] != 'emd/support.py' and len(m['props']) > 1:
                continue
            todo.append((m, p))
    print('jobs', len(todo), flush=True)
    n = 0
    with cf.ProcessPoolExecutor(max_workers=jobs) as ex:
        for mid, p, rc in ex.map(one, todo, chunksize=4):
            res.setdefault(mid, {})[p] = rc
            n += 1
            if n % 500 == 0:
                json.dump(res, open(outf, 'w'))
                print(n, flush=True)
    json.dump(res, open(outf, 'w'))
    print('done', n)


if __name__ == '__main__':
    main()
