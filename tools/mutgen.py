#!/venv/bin/python
"""Systematic single-site mutants of the analysed functions of /repo (for evaluating the checks, not a check itself).

usage: mutgen.py <outdir>     writes <outdir>/mutants.json : [{id, file, func, props, op, line, old, new, start, end}]
Each mutant replaces one source segment (by character offsets) of one file.  Operators: comparison / arithmetic /
boolean operator swaps, integer constants +-1, dropped keyword arguments, swapped positional arguments, numpy
reduction / rounding / search swaps, dropped `.copy()`, negated conditions, deleted simple statements.
The functions mutated are those the evidence files list as analysed for some property other than C19 alone, plus
the ensure_* routines."""
import ast
import glob
import json
import os
import sys

VERIF = os.path.dirname(os.path.dirname(os.path.abspath(__file__)))
REPO = os.environ.get('EMD_VERIF_REPO', '/repo')

CMP = {ast.Lt: ['<=', '>'], ast.LtE: ['<', '>='], ast.Gt: ['>=', '<'], ast.GtE: ['>', '<='], ast.Eq: ['!='],
       ast.NotEq: ['=='], ast.Is: ['is not'], ast.IsNot: ['is']}
CMPTXT = {ast.Lt: '<', ast.LtE: '<=', ast.Gt: '>', ast.GtE: '>=', ast.Eq: '==', ast.NotEq: '!=', ast.Is: 'is',
          ast.IsNot: 'is not', ast.In: 'in', ast.NotIn: 'not in'}
BIN = {ast.Add: ['-'], ast.Sub: ['+'], ast.Mult: ['/'], ast.Div: ['*'], ast.FloorDiv: ['/'], ast.Mod: ['//']}
BINTXT = {ast.Add: '+', ast.Sub: '-', ast.Mult: '*', ast.Div: '/', ast.FloorDiv: '//', ast.Mod: '%', ast.Pow: '**'}
FSWAP = {'min': 'max', 'max': 'min', 'sum': 'mean', 'mean': 'sum', 'any': 'all', 'all': 'any', 'argmin': 'argmax',
         'argmax': 'argmin', 'ceil': 'floor', 'floor': 'ceil', 'cumsum': 'cumprod', 'nansum': 'nanmean',
         'hstack': 'vstack', 'zeros': 'ones', 'zeros_like': 'ones_like', 'where': 'nonzero_',
         'greater': 'greater_equal', 'less': 'less_equal', 'abs': 'real', 'std': 'var', 'diff': 'gradient'}


def functions_in_scope():
    fs = {}
    for f in sorted(glob.glob(os.path.join(VERIF, 'evidence', 'C*.json'))):
        d = json.load(open(f))
        for q in d['coverage']['functions_analysed']:
            fs.setdefault(q, set()).add(d['property_id'])
    out = {}
    for q, ps in fs.items():
        if ps == {'C19'} and not q.startswith('emd.support.ensure'):
            continue
        out[q] = sorted(ps)
    return out


def offsets(src):
    lines = src.split('\n')
    starts = [0]
    for l in lines:
        starts.append(starts[-1] + len(l) + 1)
    return starts


def main():
    outdir = sys.argv[1]
    os.makedirs(outdir, exist_ok=True)
    scope = functions_in_scope()
    muts = []
    for path in sorted(glob.glob(os.path.join(REPO, 'emd', '*.py'))):
        rel = os.path.relpath(path, REPO)
        modname = 'emd.' + os.path.basename(path)[:-3]
        src = open(path).read()
        tree = ast.parse(src)
        st = offsets(src)

        def pos(node):
            return st[node.lineno - 1] + node.col_offset, st[node.end_lineno - 1] + node.end_col_offset

        def visit_func(fn, qual):
            props = scope.get(qual)
            for ch in fn.body:
                if isinstance(ch, (ast.FunctionDef,)):
                    visit_func(ch, qual + '.' + ch.name)
            if props is None:
                return
            doc = ast.get_docstring(fn)
            for node in ast.walk(fn):
                if node is not fn and isinstance(node, (ast.FunctionDef, ast.ClassDef)):
                    continue

                def add(op, a, b, new, n=node):
                    muts.append({'file': rel, 'func': qual, 'props': props, 'op': op, 'line': n.lineno,
                                 'old': src[a:b], 'new': new, 'start': a, 'end': b})
                if isinstance(node, ast.Compare) and len(node.ops) == 1 and type(node.ops[0]) in CMP:
                    a = pos(node.left)[1]
                    b = pos(node.comparators[0])[0]
                    seg = src[a:b]
                    txt = CMPTXT[type(node.ops[0])]
                    if txt in seg:
                        for alt in CMP[type(node.ops[0])]:
                            add('cmp %s->%s' % (txt, alt), a, b, seg.replace(txt, alt, 1))
                elif isinstance(node, ast.BinOp) and type(node.op) in BIN:
                    a = pos(node.left)[1]
                    b = pos(node.right)[0]
                    seg = src[a:b]
                    txt = BINTXT[type(node.op)]
                    if seg.count(txt) == 1 and not isinstance(node.left, ast.Constant) or isinstance(node.left, ast.Constant) and seg.count(txt) == 1:
                        if isinstance(node.left, ast.Constant) and isinstance(node.left.value, str):
                            continue
                        for alt in BIN[type(node.op)]:
                            add('bin %s->%s' % (txt, alt), a, b, seg.replace(txt, alt, 1))
                elif isinstance(node, ast.BoolOp):
                    a = pos(node.values[0])[1]
                    b = pos(node.values[1])[0]
                    seg = src[a:b]
                    txt = 'and' if isinstance(node.op, ast.And) else 'or'
                    if seg.count(txt) == 1:
                        add('bool %s' % txt, a, b, seg.replace(txt, 'or' if txt == 'and' else 'and', 1))
                elif isinstance(node, ast.UnaryOp) and isinstance(node.op, ast.Not):
                    a, b = pos(node)
                    oa, ob = pos(node.operand)
                    add('drop not', a, b, src[oa:ob])
                elif isinstance(node, ast.UnaryOp) and isinstance(node.op, ast.USub) and not isinstance(node.operand, ast.Constant):
                    a, b = pos(node)
                    oa, ob = pos(node.operand)
                    add('drop minus', a, b, src[oa:ob])
                elif isinstance(node, ast.Constant) and isinstance(node.value, int) and not isinstance(node.value, bool) \
                        and abs(node.value) <= 12:
                    a, b = pos(node)
                    if doc is not None and src[a:b] != repr(node.value):
                        continue
                    for d in (1, -1):
                        add('const %d->%d' % (node.value, node.value + d), a, b, repr(node.value + d))
                elif isinstance(node, ast.Constant) and isinstance(node.value, bool):
                    a, b = pos(node)
                    add('bool const', a, b, repr(not node.value))
                elif isinstance(node, ast.Call):
                    # dropped keyword
                    for kw in node.keywords:
                        if kw.arg is None:
                            continue
                        ka = st[kw.value.lineno - 1] + kw.value.col_offset
                        # segment "name=value" incl. preceding comma
                        a0 = src.rfind(kw.arg, pos(node.func)[1], ka)
                        if a0 < 0:
                            continue
                        b0 = pos(kw.value)[1]
                        c = src.rfind(',', pos(node.func)[1], a0)
                        if c >= 0 and src[c + 1:a0].strip() == '':
                            add('drop kw %s' % kw.arg, c, b0, '')
                        elif src[b0:b0 + 1] == ',' or src[b0:].lstrip().startswith(','):
                            e = src.index(',', b0) + 1
                            add('drop kw %s' % kw.arg, a0, e, '')
                    # swapped first two positional arguments
                    if len(node.args) >= 2 and not any(isinstance(x, ast.Starred) for x in node.args[:2]):
                        (a1, b1), (a2, b2) = pos(node.args[0]), pos(node.args[1])
                        if src[a1:b1] != src[a2:b2]:
                            add('swap args', a1, b2, src[a2:b2] + src[b1:a2] + src[a1:b1])
                    # function swaps
                    if isinstance(node.func, ast.Attribute) and node.func.attr in FSWAP:
                        fa, fb = pos(node.func)
                        name = node.func.attr
                        alt = FSWAP[name]
                        if alt.endswith('_'):
                            continue
                        add('func %s->%s' % (name, alt), fb - len(name), fb, alt)
                    if isinstance(node.func, ast.Attribute) and node.func.attr == 'copy' and not node.args:
                        a, b = pos(node)
                        oa, ob = pos(node.func.value)
                        add('drop copy', a, b, src[oa:ob])
                    if isinstance(node.func, ast.Attribute) and node.func.attr == 'digitize' and len(node.args) == 2:
                        a, b = pos(node)
                        (a1, b1), (a2, b2) = pos(node.args[0]), pos(node.args[1])
                        add('digitize->searchsorted', a, b, 'np.searchsorted(%s, %s)' % (src[a2:b2], src[a1:b1]))
                elif isinstance(node, ast.If):
                    a, b = pos(node.test)
                    add('negate if', a, b, 'not (%s)' % src[a:b])
                elif isinstance(node, ast.While) and not isinstance(node.test, ast.Constant):
                    pass
                elif isinstance(node, ast.Subscript) and isinstance(node.slice, ast.Slice):
                    for part, nm in ((node.slice.lower, 'lower'), (node.slice.upper, 'upper')):
                        if part is not None and not isinstance(part, ast.Constant):
                            a, b = pos(part)
                            add('slice %s+1' % nm, a, b, '%s + 1' % src[a:b])
                            add('slice %s-1' % nm, a, b, '%s - 1' % src[a:b])
            # statement deletion (simple one-line statements that are not the last of their block)
            for node in ast.walk(fn):
                for fld in ('body', 'orelse'):
                    blk = getattr(node, fld, None)
                    if not isinstance(blk, list) or len(blk) < 2:
                        continue
                    for stmt in blk:
                        if isinstance(stmt, (ast.Assign, ast.AugAssign, ast.Expr)) and stmt.lineno == stmt.end_lineno:
                            if isinstance(stmt, ast.Expr) and isinstance(stmt.value, ast.Constant):
                                continue
                            if isinstance(stmt, ast.Expr) and isinstance(stmt.value, ast.Call) and \
                                    'logger' in ast.unparse(stmt.value.func):
                                continue
                            a, b = pos(stmt)
                            muts.append({'file': rel, 'func': qual, 'props': props, 'op': 'delete stmt', 'line': stmt.lineno,
                                         'old': src[a:b], 'new': 'pass', 'start': a, 'end': b})

        for node in tree.body:
            if isinstance(node, ast.FunctionDef):
                visit_func(node, modname + '.' + node.name)
            elif isinstance(node, ast.ClassDef):
                for ch in node.body:
                    if isinstance(ch, ast.FunctionDef):
                        visit_func(ch, modname + '.' + node.name + '.' + ch.name)
    # de-duplicate and number
    seen = set()
    out = []
    for m in muts:
        k = (m['file'], m['start'], m['end'], m['new'])
        if k in seen or m['old'] == m['new']:
            continue
        seen.add(k)
        m['id'] = 'M%05d' % len(out)
        out.append(m)
    json.dump(out, open(os.path.join(outdir, 'mutants.json'), 'w'), indent=0)
    import collections
    print('mutants: %d' % len(out))
    print(collections.Counter(m['op'].split()[0] for m in out))
    print(collections.Counter(m['file'] for m in out))


if __name__ == '__main__':
    main()
