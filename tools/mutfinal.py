#!/venv/bin/python
"""Final tally of the mutation experiment: results.jsonl (tests, demos) joined with scan.json (current checks).
usage: mutfinal.py <dir> [-v]"""
import collections
import json
import sys
d = sys.argv[1]
verbose = '-v' in sys.argv
muts = {m['id']: m for m in json.load(open(d + '/mutants.json'))}
scan = json.load(open(d + '/scan.json'))
rows = [json.loads(l) for l in open(d + '/results.jsonl')]
n = len(rows)
surv = [r for r in rows if r['tests'] == 'pass']
stat = collections.Counter()
miss, fa = [], []
for r in surv:
    sc = scan.get(r['id'], {})
    det = {p for p, v in sc.items() if v == 1}
    err = {p for p, v in sc.items() if v not in (0, 1)}
    failed = {x.split('-')[0] for x in r.get('demos_failed', [])}
    if failed:
        stat['demo_fails'] += 1
        if det & failed:
            stat['demo_fails_own_check_reports'] += 1
        elif det:
            stat['demo_fails_other_check_reports'] += 1
        elif err:
            stat['demo_fails_analysis_error_only'] += 1
            miss.append((r, 'ERR'))
        else:
            stat['demo_fails_silent'] += 1
            miss.append((r, 'silent'))
    else:
        stat['demos_pass'] += 1
        if det:
            stat['demos_pass_check_reports'] += 1
            fa.append((r, sorted(det)))
        elif err:
            stat['demos_pass_analysis_error_only'] += 1
killed = n - len(surv)
print('mutants %d; killed by the pinned tests %d; survivors %d' % (n, killed, len(surv)))
for k in ('demo_fails', 'demo_fails_own_check_reports', 'demo_fails_other_check_reports', 'demo_fails_analysis_error_only',
          'demo_fails_silent', 'demos_pass', 'demos_pass_check_reports', 'demos_pass_analysis_error_only'):
    print('  %-36s %d' % (k, stat[k]))
# over all mutants: reported by a check of the mutated function's properties
rep = sum(1 for mid, sc in scan.items() if any(v == 1 for v in sc.values()))
errs = sum(1 for mid, sc in scan.items() if not any(v == 1 for v in sc.values()) and any(v not in (0, 1) for v in sc.values()))
print('all mutants: reported as violation by a check of an anchored property %d, analysis error only %d, silent %d'
      % (rep, errs, len(scan) - rep - errs))
if verbose:
    print('-- demo fails, no violation reported')
    for r, why in miss:
        m = muts[r['id']]
        print(r['id'], why, m['func'].split('.', 2)[-1], 'L%d' % m['line'], m['op'], repr(m['old'][:36]), '->', repr(m['new'][:36]),
              ','.join(r['demos_failed'])[:60])
