#!/bin/bash
# usage: seed_confirm.sh <patch.diff> <demo.py>
# Confirms in a throw-away worktree: patch applies, the pinned test-suite still passes with it, the demo fails with
# it and passes without it.  Prints one line CONFIRMED/REJECTED with the reason.  Removes the worktree afterwards.
patch=$(readlink -f "$1"); demo=$(readlink -f "$2")
wt=$(mktemp -d /tmp/seedconfirm.XXXXXX)
rmdir "$wt"
git -C /repo worktree add -q --detach "$wt" HEAD || { echo "REJECTED cannot create worktree"; exit 2; }
cleanup() { git -C /repo worktree remove --force "$wt" >/dev/null 2>&1; rm -rf "$wt" "$wt.out" "$wt.out2" "$wt.err"; }
trap cleanup EXIT
cd "$wt"
PYTHONPATH="$wt" timeout 900 /venv/bin/python "$demo" >$wt.out 2>&1; rc_clean=$?
if ! git apply "$patch" 2>$wt.err; then echo "REJECTED patch does not apply: $(head -2 $wt.err)"; exit 1; fi
/venv/bin/python -m compileall -q emd >/dev/null 2>&1 || { echo "REJECTED does not compile"; exit 1; }
tests=$(timeout 1800 /venv/bin/python -m pytest -q -p no:cacheprovider --timeout=900 emd/tests 2>&1 | tail -1)
PYTHONPATH="$wt" timeout 900 /venv/bin/python "$demo" >$wt.out2 2>&1; rc_patched=$?
npass=$(echo "$tests" | grep -o '[0-9]* passed' | grep -o '[0-9]*')
nfail=$(echo "$tests" | grep -o '[0-9]* failed' | grep -o '[0-9]*')
if [ "$rc_clean" != "0" ]; then echo "REJECTED demo fails on the clean tree (rc=$rc_clean): $(tail -1 $wt.out)"; exit 1; fi
if [ -n "$nfail" ] || [ "${npass:-0}" -lt 38 ]; then echo "REJECTED test suite with patch: $tests"; exit 1; fi
if [ "$rc_patched" = "0" ]; then echo "REJECTED demo passes with the patch"; exit 1; fi
echo "CONFIRMED tests='$tests' demo_clean=$rc_clean demo_patched=$rc_patched"
exit 0
