#!/venv/bin/python
"""List mutants of the checks-only scan that no check of the mutated function's properties reports.
usage: mutscan_view.py <dir> [func-substring ...]"""
import json
import sys
d = sys.argv[1]
sel = sys.argv[2:]
muts = {m['id']: m for m in json.load(open(d + '/mutants.json'))}
scan = json.load(open(d + '/scan.json'))
res = {}
try:
    for l in open(d + '/results.jsonl'):
        r = json.loads(l)
        res[r['id']] = r
except OSError:
    pass
n = k = 0
for mid in sorted(scan):
    m = muts[mid]
    if sel and not any(s in m['func'] for s in sel):
        continue
    n += 1
    rcs = scan[mid]
    if any(v == 1 for v in rcs.values()):
        continue
    k += 1
    r = res.get(mid, {})
    t = r.get('tests', '?')
    tag = 'tests:%s' % t + (' demos-failed:%s' % ','.join(r.get('demos_failed', [])) if t == 'pass' else '')
    err = [p for p, v in rcs.items() if v not in (0, 1)]
    print(mid, m['func'].split('.', 2)[-1], 'L%d' % m['line'], m['op'], repr(m['old'][:38]), '->', repr(m['new'][:38]),
          ('ERR ' + ','.join(err)) if err else '', tag)
print('mutants %d, unreported %d' % (n, k))
