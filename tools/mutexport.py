#!/venv/bin/python
"""Freeze the mutation experiment into selftest/mutation_corpus.json (run after tools/mutscan.py).
For every mutant: file, offsets, old/new text, a context window (to relocate it after unrelated edits), the properties
whose check reports it today ('detect') and, for the hand-triaged behaviour-preserving ones, the properties that must
stay silent ('equivalent')."""
import json
import os
import sys

VERIF = os.path.dirname(os.path.dirname(os.path.abspath(__file__)))
d = sys.argv[1]
EQUIVALENT = '''M00022 M00031 M00044 M00060 M00066 M00073 M00080 M00093 M00132 M00158 M00326 M00330 M00331 M00337 M00344 M00350
M00351 M00352 M00362 M00365 M00464 M00581 M00718 M00725 M00726 M00763 M00808 M00813 M00898 M00904 M01090 M01102 M01373 M01375
M01415 M01418 M01702 M01723 M01725 M02112 M02148 M02142 M02154 M02178 M02184 M02241 M02476 M02484 M02487 M02519 M02605'''.split()
muts = {m['id']: m for m in json.load(open(os.path.join(d, 'mutants.json')))}
scan = json.load(open(os.path.join(d, 'scan.json')))
out = []
srcs = {}
for mid, m in sorted(muts.items()):
    sc = scan.get(mid, {})
    det = sorted(p for p, v in sc.items() if v == 1)
    eq = sorted(p for p, v in sc.items() if v == 0) if mid in EQUIVALENT else []
    if mid in EQUIVALENT and det:
        print('WARNING: %s is listed as equivalent but reported by %s' % (mid, det))
        continue
    if not det and not eq:
        continue
    src = srcs.setdefault(m['file'], open(os.path.join('/repo', m['file'])).read())
    a = max(0, m['start'] - 60)
    b = min(len(src), m['end'] + 60)
    ctx = src[a:b]
    rec = {'id': mid, 'file': m['file'], 'func': m['func'], 'op': m['op'], 'line': m['line'], 'start': m['start'], 'end': m['end'],
           'old': m['old'], 'new': m['new']}
    if src.count(ctx) == 1:
        rec['context'] = ctx
        rec['context_offset'] = m['start'] - a
    if det:
        rec['detect'] = det
    if eq:
        rec['equivalent'] = eq
    out.append(rec)
json.dump({'note': 'single-site mutants of /repo (HEAD at the time of the experiment); see DESIGN.md 9.4', 'mutants': out},
          open(os.path.join(VERIF, 'selftest', 'mutation_corpus.json'), 'w'), indent=0)
print('exported %d mutants (%d detect, %d equivalent)' % (len(out), sum(1 for r in out if 'detect' in r), sum(1 for r in out if 'equivalent' in r)))
