#!/venv/bin/python
"""Evaluate every behaviour-preserving refactoring under /verif/benign (written by independent sub-agents, each with a
differential test showing identical behaviour) against all quick checks on an IN-MEMORY variant of the current /repo
tree.  Every check must stay silent (exit 0) on every one of them."""
import concurrent.futures as cf
import glob
import os
import sys

VERIF = os.path.dirname(os.path.dirname(os.path.abspath(__file__)))
sys.path.insert(0, VERIF)
sys.dont_write_bytecode = True
from emdverif import selfval  # noqa: E402

PROPS = ['C%02d' % i for i in range(1, 21)]


def one(args):
    f, prop = args
    ov = selfval.patch_overrides(f)
    if not ov:
        return f, prop, 3, 'patch does not apply'
    rc, out = selfval._run_variant(prop, ov)
    return f, prop, rc, out


def main():
    files = sorted(glob.glob(os.path.join(VERIF, 'benign', '*.diff')))
    only = sys.argv[1:]
    if only:
        files = [f for f in files if os.path.basename(f)[:-5] in only]
    res = {}
    with cf.ProcessPoolExecutor(max_workers=16) as ex:
        for f, p, rc, out in ex.map(one, [(f, p) for f in files for p in PROPS], chunksize=4):
            res.setdefault(f, {})[p] = (rc, out)
    nbad = 0
    for f in files:
        bad = sorted((p, rc) for p, (rc, o) in res[f].items() if rc != 0)
        if bad:
            nbad += 1
        print('%-8s %s' % (os.path.basename(f)[:-5], ' '.join('%s=%d' % b for b in bad) or 'silent'))
        for p, rc in bad:
            for line in res[f][p][1].split('\n'):
                if line.startswith(('VIOLATION', 'ANALYSIS-ERROR', '  emd/')):
                    print('      ' + line[:260])
    print('refactorings=%d silent=%d alarming=%d' % (len(files), len(files) - nbad, nbad))
    return 1 if nbad else 0


if __name__ == '__main__':
    sys.exit(main())
