#!/venv/bin/python
"""usage: import_wave.py <outdir> <first index>   copy the CONFIRMED patches of a seeding wave into /verif/seeded as
Cxx-<k>, k = first index, first index + 1, ... in patch order."""
import json
import os
import shutil
import sys

VERIF = os.path.dirname(os.path.dirname(os.path.abspath(__file__)))
outdir, first = sys.argv[1], int(sys.argv[2])
res = json.load(open(os.path.join(outdir, 'results.json')))
for key in sorted(res):
    pid, pn = key.split('/')
    n = int(pn.replace('patch', ''))
    r = res[key]
    if not r.get('confirm', '').startswith('CONFIRMED'):
        print('skip', key, r.get('confirm', '')[:80])
        continue
    d = os.path.join(VERIF, 'seeded', '%s-%d' % (pid, first + n - 1))
    os.makedirs(d, exist_ok=True)
    shutil.copy(os.path.join(outdir, pid, 'patch%d.diff' % n), os.path.join(d, 'patch.diff'))
    shutil.copy(os.path.join(outdir, pid, 'demo%d.py' % n), os.path.join(d, 'demo.py'))
    notes = os.path.join(outdir, pid, 'notes.md')
    if os.path.exists(notes):
        shutil.copy(notes, os.path.join(d, 'notes_from_author.md'))
    for extra in ('harness.py', 'check.py', 'common.py'):
        if os.path.exists(os.path.join(outdir, pid, extra)):
            shutil.copy(os.path.join(outdir, pid, extra), os.path.join(d, extra))
    meta = {'property': pid, 'seed': os.path.basename(d),
            'origin': 'independent sub-agent (wave %s) given only the property text and a scratch worktree' % (
                sys.argv[3] if len(sys.argv) > 3 else '?'),
            'confirmed': r['confirm'],
            'what_was_run': ['tools/seed_confirm.sh (scratch worktree: demo passes clean, patch applies, pytest emd/tests '
                             'all pass with the patch, demo fails with the patch)',
                             'tools/wave_batch.py (in-memory variant of /repo; ./check C01..C20 --tier quick)'],
            'first_evaluation': json.load(open(os.path.join(outdir, 'first_eval.json'))).get(key, {})
            if os.path.exists(os.path.join(outdir, 'first_eval.json')) else {},
            'current_evaluation': {'detected_by': r.get('detected_by'), 'analysis_error': r.get('analysis_error'),
                                   'rules': r.get('rules')}}
    json.dump(meta, open(os.path.join(d, 'meta.json'), 'w'), indent=1)
    print('imported', key, '->', os.path.basename(d))
