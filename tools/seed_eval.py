#!/venv/bin/python
"""usage: seed_eval.py <patch.diff> [Cxx ...]
Applies the patch to /repo (git apply), runs the quick checks (all 20, or the listed ones), prints the exit code of
each and the VIOLATION / ANALYSIS-ERROR lines, and undoes the patch (git checkout -- .) whatever happens."""
import json
import os
import subprocess
import sys

VERIF = os.path.dirname(os.path.dirname(os.path.abspath(__file__)))


def main():
    patch = os.path.abspath(sys.argv[1])
    props = sys.argv[2:] or ['C%02d' % i for i in range(1, 21)]
    st = subprocess.run(['git', '-C', '/repo', 'status', '--porcelain', '--untracked-files=no'], capture_output=True, text=True)
    if st.stdout.strip():
        print('refusing: /repo has local modifications')
        return 2
    r = subprocess.run(['git', '-C', '/repo', 'apply', patch], capture_output=True, text=True)
    if r.returncode != 0:
        print('patch does not apply:', r.stderr[:300])
        return 2
    result = {}
    try:
        env = dict(os.environ, EMD_VERIF_EVIDENCE='/tmp/seed_eval_evidence')
        procs = {p: subprocess.Popen([os.path.join(VERIF, 'check'), p, '--tier', 'quick'], stdout=subprocess.PIPE,
                                     stderr=subprocess.STDOUT, text=True, cwd=VERIF, env=env) for p in props}
        for p, pr in procs.items():
            out, _ = pr.communicate()
            result[p] = (pr.returncode, out)
    finally:
        subprocess.run(['git', '-C', '/repo', 'checkout', '--', '.'])
    det = [p for p, (rc, out) in result.items() if rc == 1]
    err = [p for p, (rc, out) in result.items() if rc == 2]
    print('DETECTED-BY: %s   ANALYSIS-ERROR: %s' % (' '.join(det) or '-', ' '.join(err) or '-'))
    for p in det + err:
        rc, out = result[p]
        for line in out.split('\n'):
            if line.startswith(('VIOLATION', 'ANALYSIS-ERROR', '  emd/')):
                print('   ', line[:260])
    json.dump({p: rc for p, (rc, out) in result.items()}, open('/tmp/seed_eval_last.json', 'w'))
    return 0


if __name__ == '__main__':
    sys.exit(main())
