#!/venv/bin/python
"""Regenerate the tables of DESIGN.md section 9.4 between the <!-- BEGIN/END TABLE name --> markers."""
import os
import re
import subprocess
import sys

VERIF = os.path.dirname(os.path.dirname(os.path.abspath(__file__)))
out = subprocess.run(['/venv/bin/python', os.path.join(VERIF, 'tools', 'gen_tables.py')], capture_output=True, text=True).stdout
parts = out.strip().split('\n\n')
tables = {'seeds': parts[0], 'catalogue': parts[1] + '\n\n' + parts[2]}
p = os.path.join(VERIF, 'DESIGN.md')
s = open(p).read()
for name, body in tables.items():
    s, n = re.subn(r'<!-- BEGIN TABLE %s -->.*?<!-- END TABLE %s -->' % (name, name),
                   lambda m: '<!-- BEGIN TABLE %s -->\n%s\n<!-- END TABLE %s -->' % (name, body, name), s, flags=re.S)
    assert n == 1, name
open(p, 'w').write(s)
print('tables filled')
