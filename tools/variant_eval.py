#!/venv/bin/python
"""usage: variant_eval.py <patch.diff> [Cxx ...]
Evaluates a patch on an IN-MEMORY variant of the current tree (nothing is written to /repo): prints the exit code of
every quick check and the alarm lines.  Used for behaviour-preserving refactorings (every check must stay at 0)."""
import concurrent.futures as cf
import os
import sys

VERIF = os.path.dirname(os.path.dirname(os.path.abspath(__file__)))
sys.path.insert(0, VERIF)
sys.dont_write_bytecode = True
from emdverif import selfval  # noqa: E402


def one(args):
    prop, ov = args
    return (prop,) + selfval._run_variant(prop, ov)


def main():
    full = '--full' in sys.argv
    if full:
        sys.argv.remove('--full')
    patch = sys.argv[1]
    props = sys.argv[2:] or ['C%02d' % i for i in range(1, 21)]
    ov = selfval.patch_overrides(patch)
    if not ov:
        print('patch does not apply')
        return 2
    with cf.ProcessPoolExecutor(max_workers=16) as ex:
        res = list(ex.map(one, [(p, ov) for p in props]))
    bad = [(p, rc, out) for p, rc, out in res if rc != 0]
    print('%s: files=%s alarms=%s' % (os.path.basename(patch), sorted(ov), ' '.join('%s=%d' % (p, rc) for p, rc, _ in bad) or '-'))
    for p, rc, out in bad:
        for line in out.split('\n'):
            if full:
                print('   ', line[:400])
            elif line.startswith(('VIOLATION', 'ANALYSIS-ERROR', '  emd/')):
                print('   ', line[:300])
    return 1 if bad else 0


if __name__ == '__main__':
    sys.exit(main())
