#!/venv/bin/python
"""Regenerate /verif/MANIFEST.json from the table below (kept next to the rules)."""
import json
import os
import sys

HERE = os.path.dirname(os.path.dirname(os.path.abspath(__file__)))
sys.path.insert(0, HERE)

TRUST = ("Trusted base: CPython's ast module; the primitive tables of the checker (what numpy / scipy / "
         "multiprocessing / logging calls do to linear forms, index classes, shapes, aliasing) written from their "
         "documentation; nothing from the repository is imported or executed. ")

CLAIMS = {
    'C01': dict(
        text="static analysis: C01.R1 (residual loop invariant on linear forms), C01.R2 (cleared flag => output is the "
             "input, on every path of the single-IMF extraction under the three stop rules), C01.R3 (only licensed "
             "loop exits), C01.R4 (None-chain down to 'fewer than two extrema') decide the additive-decomposition "
             "identity and the non-oscillatory-residual clause structurally; not decided: floating-point rounding.",
        note=TRUST + "Assumes elementwise numpy arithmetic is real algebra up to rounding and that shape-only "
             "operations are identities of that algebra (C19 judges shapes).",
        technique="path-sensitive abstract interpretation of the AST (loop peeling + widened head) with polynomial "
                  "normal forms; structural guard extraction",
        ref='DESIGN.md section 3 / C01'),
}


def _claim(pid, decided, notdecided, technique, extra_note=''):
    CLAIMS[pid] = dict(
        text="static analysis: " + decided + " Not decided (runtime-quantified): " + notdecided,
        note=TRUST + extra_note,
        technique=technique,
        ref='DESIGN.md section 3 / ' + pid)


_claim('C03',
       "C03.R1 residual invariant for the layer loops of sift, mask_sift, complete_ensemble_sift; C03.R2 the cap reaches "
       "the extraction only in length positions; C03.R3 affine counter relation of every cap guard simulated for cap=1..8 "
       "(columns <= cap, guard reachable, guard stops the loop); C03.R4 member column indexing bounded by the smallest "
       "member; C03.R5 second-layer loop range and ** of a dict; C03.R6 canonicalisation of the signal.",
       "finiteness of outputs for finite inputs.",
       "path-sensitive abstract interpretation + polynomial normal forms + affine counter model")
_claim('C04',
       "C04.R1 iterate algebra (returned IMF = iterate - (U+L)/2, update = iterate - step*(U+L)/2, envelopes of the "
       "current iterate with identical options); C04.R2 stop dispatch table with argument binding; C04.R3 stop "
       "predicates in boolean normal form vs. documented criteria; C04.R4 counter +1 per iteration, limit guard with "
       "raise before every increment, only licensed loop exits; C04.R5 cleared flag => unmodified input; C04.R6 energy "
       "stop predicate and operands.",
       "convergence speed; progress of the re-padding loop of get_padded_extrema (trusted np.pad).",
       "path-sensitive abstract interpretation (loop peeling + widening) + polynomial / boolean normal forms")
_claim('C06',
       "C06.R1 every option carrier is bound from caller to callee at every call / partial / pool dispatch on every "
       "evaluated path, down to the stage it configures (positional starmap tuples included); C06.R2 carriers are only "
       "replaced by the defaulting idiom with signature-equal literals; C06.R3 configuration keys are formals and do "
       "not collide at ** sites.",
       "how much an option changes the numbers.",
       "resolved call graph + argument binding (keyword, positional, **, functools.partial, starmap tuples) on evaluated paths")
_claim('C08',
       "C08.R1 no draw from the inherited process-global RNG is reachable in a pool worker under the arguments bound at "
       "its dispatch site, and bound noise is a per-member column of a parent-side matrix; C08.R2 member algebra "
       "(single / flip with the same draw and identical options) and per-IMF mean over members; C08.R3 zero noise level "
       "folds every member to sift(X, same options).",
       "statistical independence of the realisations beyond 'distinct draws'.",
       "effect analysis of worker cones under dispatch-site bindings + linear forms (RNG draws are fresh atoms)",
       "Assumes Pool.starmap binds tuples positionally and returns results in submission order.")
_claim('C12',
       "C12.R1 the boundary list is decoded to [0] ++ wraps ++ [N] on every feasible path (affine forms over N, wrap "
       "positions in [1, N-1] strictly increasing), consumed as half-open slices B[j]:B[j+1], every slice non-empty; "
       "C12.R2 wraps unfiltered, strict threshold; C12.R3 per-column label counter; C12.R4 wrap-free early exit.",
       "nothing numerical is involved; the behaviour of np.where/np.diff/np.r_ is trusted.",
       "path-sensitive abstract interpretation + affine index ranges")
_claim('C13',
       "C13.R1 each criterion of is_good in boolean/comparison normal form vs. the documented one; C13.R2 a segment is "
       "labelled only under all(is_good(that slice, caller's phase_edge)) after the mask veto on the same slice, "
       "return_good=False substitutes an all-true vector; C13.R3 the container forwards its tolerance to the stored "
       "criteria function.",
       "that the slice looked at is the whole wrap-to-wrap segment is C12.R1.",
       "boolean normal forms + path conditions of the labelling store + argument binding")
_claim('C18',
       "C18.R1 the default configuration is reconstructed symbolically from get_config and compared with variant "
       "formals, stage formals, explicit keywords at ** sites and fallback literals; C18.R2 accessor arity tables of "
       "get/set/del agree with nesting depth; C18.R3 abstract YAML document shape of each writer vs. its reader; "
       "C18.R4 export does not mutate the live store (alias/mutation analysis).",
       "behaviour of the callable returned by get_func beyond keyword binding.",
       "symbolic reconstruction of the config term + sibling comparison + document-shape substitution + mutation analysis")
_claim('C20',
       "C20.R1 typestate of the console level in the verbosity wrapper over all normal and exceptional outcomes; "
       "C20.R2 None-safety of the saved level; C20.R3 logging is write-only in numeric modules (pure arguments, no "
       "state reads); C20.R4 decorators are transparent; C20.R5 accessors touch only 'console' handlers of logger 'emd'.",
       "nothing; logging calls themselves are assumed not to raise.",
       "typestate walk with exception outcomes and condition correlation; nullness summary; effect/purity scan")

NOT_YET = "rules for this property are not built yet in this round; its check is fail-closed (exit 2), so it is not claimed"


def main():
    props = [json.loads(l) for l in open(os.path.join(HERE, 'properties.jsonl'))]
    checks = []
    na = []
    for p in props:
        pid = p['id']
        c = CLAIMS.get(pid)
        if c is None:
            na.append({'property_id': pid, 'reason': NA.get(pid, NOT_YET)})
            continue
        checks.append({
            'property_id': pid,
            'quick_cmd': './check %s --tier quick' % pid,
            'thorough_cmd': './check %s --tier thorough' % pid,
            'evidence_file': '/verif/evidence/%s.json' % pid,
            'replay_cmd_template': './check %s --replay {path}' % pid,
            'engine': 'emdverif',
            'level_claimed': {'category': 'other', 'text': c['text'], 'design_ref': c['ref']},
            'level_note': c['note'],
            'technique': c['technique'],
        })
    m = {
        'version': 1,
        'setup_cmd': './check --selfcheck',
        'hooks': {
            'guard': 'EMD_MIRROR_VERIF',
            'enable': 'none needed: nothing is executed, the checker parses /repo/emd/*.py from the working tree',
            'baseline_off_cmd': 'cd /repo && /venv/bin/python -m pytest -ra -q -p no:cacheprovider --timeout=900 '
                                '--continue-on-collection-errors',
            'source_commits': [],
            'add_only': True,
        },
        'engines': [{
            'name': 'emdverif',
            'path': '/verif/emdverif',
            'serves_properties': [c['property_id'] for c in checks],
            'kind_free_text': 'repository-specific static analyser (stdlib ast): resolver + argument binding, '
                              'path-sensitive abstract evaluator with polynomial normal forms, dataflow domains, '
                              'table/normal-form comparison; run with /venv/bin/python, never imports emd',
        }],
        'checks': checks,
        'not_applicable': na,
        'notes': 'Exit codes: 0 all obligations PASS/KNOWN; 1 VIOLATION; 2 ANALYSIS-ERROR (undecided, vanished anchor, '
                 'instance count below floor, positive fixture silent). Known findings: /verif/known_findings.json.',
    }
    with open(os.path.join(HERE, 'MANIFEST.json'), 'w') as f:
        json.dump(m, f, indent=1)
        f.write('\n')
    print('checks=%d not_applicable=%d' % (len(checks), len(na)))


NA = {}

if __name__ == '__main__':
    main()
