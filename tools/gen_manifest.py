#!/venv/bin/python
"""Regenerate /verif/MANIFEST.json from the table below (kept next to the rules)."""
import json
import os
import sys

HERE = os.path.dirname(os.path.dirname(os.path.abspath(__file__)))
sys.path.insert(0, HERE)

TRUST = ("Trusted base: CPython's ast module; the primitive tables of the checker (what numpy / scipy / "
         "multiprocessing / logging calls do to linear forms, index classes, shapes, aliasing) written from their "
         "documentation; nothing from the repository is imported or executed. ")

CLAIMS = {
    'C01': dict(
        text="static analysis: C01.R1 (residual loop invariant on linear forms), C01.R2 (cleared flag => output is the "
             "input, on every path of the single-IMF extraction under the three stop rules), C01.R3 (only licensed "
             "loop exits), C01.R4 (None-chain down to 'fewer than two extrema') decide the additive-decomposition "
             "identity and the non-oscillatory-residual clause structurally; not decided: floating-point rounding.",
        note=TRUST + "Assumes elementwise numpy arithmetic is real algebra up to rounding and that shape-only "
             "operations are identities of that algebra (C19 judges shapes).",
        technique="path-sensitive abstract interpretation of the AST (loop peeling + widened head) with polynomial "
                  "normal forms; structural guard extraction",
        ref='DESIGN.md section 3 / C01'),
}

NOT_YET = "rules for this property are not built yet in this round; its check is fail-closed (exit 2), so it is not claimed"


def main():
    props = [json.loads(l) for l in open(os.path.join(HERE, 'properties.jsonl'))]
    checks = []
    na = []
    for p in props:
        pid = p['id']
        c = CLAIMS.get(pid)
        if c is None:
            na.append({'property_id': pid, 'reason': NA.get(pid, NOT_YET)})
            continue
        checks.append({
            'property_id': pid,
            'quick_cmd': './check %s --tier quick' % pid,
            'thorough_cmd': './check %s --tier thorough' % pid,
            'evidence_file': '/verif/evidence/%s.json' % pid,
            'replay_cmd_template': './check %s --replay {path}' % pid,
            'engine': 'emdverif',
            'level_claimed': {'category': 'other', 'text': c['text'], 'design_ref': c['ref']},
            'level_note': c['note'],
            'technique': c['technique'],
        })
    m = {
        'version': 1,
        'setup_cmd': './check --selfcheck',
        'hooks': {
            'guard': 'EMD_MIRROR_VERIF',
            'enable': 'none needed: nothing is executed, the checker parses /repo/emd/*.py from the working tree',
            'baseline_off_cmd': 'cd /repo && /venv/bin/python -m pytest -ra -q -p no:cacheprovider --timeout=900 '
                                '--continue-on-collection-errors',
            'source_commits': [],
            'add_only': True,
        },
        'engines': [{
            'name': 'emdverif',
            'path': '/verif/emdverif',
            'serves_properties': [c['property_id'] for c in checks],
            'kind_free_text': 'repository-specific static analyser (stdlib ast): resolver + argument binding, '
                              'path-sensitive abstract evaluator with polynomial normal forms, dataflow domains, '
                              'table/normal-form comparison; run with /venv/bin/python, never imports emd',
        }],
        'checks': checks,
        'not_applicable': na,
        'notes': 'Exit codes: 0 all obligations PASS/KNOWN; 1 VIOLATION; 2 ANALYSIS-ERROR (undecided, vanished anchor, '
                 'instance count below floor, positive fixture silent). Known findings: /verif/known_findings.json.',
    }
    with open(os.path.join(HERE, 'MANIFEST.json'), 'w') as f:
        json.dump(m, f, indent=1)
        f.write('\n')
    print('checks=%d not_applicable=%d' % (len(checks), len(na)))


NA = {}

if __name__ == '__main__':
    main()
