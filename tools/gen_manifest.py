#!/venv/bin/python
"""Regenerate /verif/MANIFEST.json from the table below (kept next to the rules)."""
import json
import os
import sys

HERE = os.path.dirname(os.path.dirname(os.path.abspath(__file__)))
sys.path.insert(0, HERE)

TRUST = ("Trusted base: CPython's ast module; the primitive tables of the checker (what numpy / scipy / "
         "multiprocessing / logging calls do to linear forms, index classes, shapes, aliasing) written from their "
         "documentation; nothing from the repository is imported or executed. ")

CLAIMS = {
    'C01': dict(
        text="static analysis: C01.R1 (residual loop invariant on linear forms), C01.R2 (cleared flag => output is the "
             "input, on every path of the single-IMF extraction under the three stop rules), C01.R3 (only licensed "
             "loop exits, decided on the evaluated ends of one loop iteration), C01.R4 (None-chain down to 'fewer than two extrema'), C01.R5 (an extracted component never shares its buffer with a residual updated in place) decide the additive-decomposition "
             "identity and the non-oscillatory-residual clause structurally; not decided: floating-point rounding.",
        note=TRUST + "Assumes elementwise numpy arithmetic is real algebra up to rounding and that shape-only "
             "operations are identities of that algebra (C19 judges shapes).",
        technique="path-sensitive abstract interpretation of the AST (loop peeling + widened head) with polynomial "
                  "normal forms; structural guard extraction",
        ref='DESIGN.md section 3 / C01'),
}


def _claim(pid, decided, notdecided, technique, extra_note=''):
    CLAIMS[pid] = dict(
        text="static analysis: " + decided + " Not decided (runtime-quantified): " + notdecided,
        note=TRUST + extra_note,
        technique=technique,
        ref='DESIGN.md section 3 / ' + pid)


_claim('C03',
       'C03.R12 every masked extraction is dispatched with the requested number of phases and with the amplitude the selected mode prescribes for its layer. '
       "C03.R1 residual invariant for the layer loops of sift, mask_sift, complete_ensemble_sift; C03.R2 the cap reaches "
       "the extraction only in length positions; C03.R3 affine counter relation of every cap guard simulated for cap=1..8 "
       "(columns <= cap, guard reachable, guard stops the loop); C03.R4 member column indexing bounded by the smallest "
       "member; C03.R5 second-layer loop range and ** of a dict; C03.R11 (also C01.R1 / C04.R1) running arrays bound to an input or a plain copy of one are not updated by in-place arithmetic (which would keep the caller's dtype: casting error for integers, per-layer rounding for float32); C03.R6 canonicalisation of the signal; C03.R7 a cap is never written into the caller's option dict; C03.R8 no clobbering of a stored component through aliasing.",
       "finiteness of outputs for finite inputs.",
       "path-sensitive abstract interpretation + polynomial normal forms + affine counter model")
_claim('C04',
       "C04.R8 'returned unmodified / no extrema' only for fewer than two extrema (none-chain through get_padded_extrema). "
       "C04.R1 iterate algebra (returned IMF = iterate - (U+L)/2, update = iterate - step*(U+L)/2, envelopes of the "
       "current iterate with identical options); C04.R2 stop dispatch table with argument binding; C04.R3 stop "
       "predicates in boolean normal form vs. documented criteria; C04.R4 counter +1 per iteration, limit guard with "
       "raise before every increment, only licensed loop exits; C04.R5 cleared flag => unmodified input; C04.R6 energy "
       "stop predicate and operands; option dicts are not modified between sifting iterations.",
       "convergence speed; progress of the re-padding loop of get_padded_extrema (trusted np.pad).",
       "path-sensitive abstract interpretation (loop peeling + widening) + polynomial / boolean normal forms")
_claim('C06',
       'C06.R3 also: get_func is partial(<own variant>, **current store) - never a cached callable. '
       "C06.R1 every option carrier is bound from caller to callee at every call / partial / pool dispatch on every "
       "evaluated path, down to the stage it configures (positional starmap tuples included); C06.R2 carriers are only "
       "replaced by the defaulting idiom with signature-equal literals; C06.R3 configuration keys are formals and do "
       "not collide at ** sites; C06.R4 sibling call sites of one helper forward the same options; C06.R5 every "
       "stop_method dispatches to its stop function with sd_thresh / rilling_thresh[0..2] / max_iters on the formals they configure.",
       "how much an option changes the numbers.",
       "resolved call graph + argument binding (keyword, positional, **, functools.partial, starmap tuples) on evaluated paths")
_claim('C08',
       "C08.R5 noise_mode reaches every dispatch of the noise worker (evaluated with 'flip'). "
       "C08.R1 no draw from the inherited process-global RNG is reachable in a pool worker under the arguments bound at "
       "its dispatch site, and bound noise is a per-member column of a parent-side matrix with one entry per sample along the other axis; C08.R2 member algebra "
       "(single / flip with the same draw and identical options) and per-IMF mean over members; C08.R3 zero noise level "
       "folds every member to sift(X, same options), every return path delivers the member mean; the worker does not modify its arguments; C08.R4 the noise update of the complete ensemble keeps the member axis for every ensemble size.",
       "statistical independence of the realisations beyond 'distinct draws'.",
       "effect analysis of worker cones under dispatch-site bindings + linear forms (RNG draws are fresh atoms)",
       "Assumes Pool.starmap binds tuples positionally and returns results in submission order.")
_claim('C12',
       "C12.R1 the boundary list is decoded to [0] ++ wraps ++ [N] on every feasible path (affine forms over N, wrap "
       "positions in [1, N-1] strictly increasing), consumed as half-open slices B[j]:B[j+1], every slice non-empty; "
       "C12.R2 wraps unfiltered, strict threshold, default threshold 1.5 pi in the routine and in the container; C12.R3 per-column label counter; C12.R4 wrap-free early exit; C12.R5 the good-cycle filter is the documented total predicate; C12.R6 ensure_2d contract of the phase input.",
       "nothing numerical is involved; the behaviour of np.where/np.diff/np.r_ is trusted.",
       "path-sensitive abstract interpretation + affine index ranges")
_claim('C13',
       "C13.R1 each criterion of is_good in boolean/comparison normal form vs. the documented one; C13.R2 a segment is "
       "labelled only under all(is_good(that slice, caller's phase_edge)) after the mask veto on the same slice, "
       "return_good=False substitutes an all-true vector; C13.R3 the container forwards its tolerance to the stored "
       "criteria function, shares its default with is_good and get_cycle_vector and binds no other criteria parameter away from is_good's default; C13.R4 the slice-cache boundaries the container's flag is computed over.",
       "that the slice looked at is the whole wrap-to-wrap segment is C12.R1.",
       "boolean normal forms + path conditions of the labelling store + argument binding")
_claim('C18',
       "C18.R1 the default configuration is reconstructed symbolically from get_config and compared with variant "
       "formals, stage formals, explicit keywords at ** sites and fallback literals; C18.R2 __getitem__/__setitem__/__delitem__ evaluated on the literal keys 'k0', 'k0/k1', 'k0/k1/k2' (nesting depth = number of components, the value stored is the value given) and 'k0/k1/k2/k3' (rejected), with the key transform inlined; "
       "C18.R3 abstract YAML document shape of each writer vs. its reader; "
       "(payload = own type + own store, get_func binds the own variant); C18.R4 export does not mutate the live store (alias/mutation analysis); C18.R6 YAML-safe conversion table and list-like treatment of sequence-valued options.",
       "behaviour of the callable returned by get_func beyond keyword binding.",
       "symbolic reconstruction of the config term + sibling comparison + document-shape substitution + mutation analysis")
_claim('C20',
       "C20.R5 also: get_level returns the console handler's level or None. "
       "C20.R1 typestate of the console level in the verbosity wrapper over all normal and exceptional outcomes; "
       "C20.R2 None-safety of the saved level; C20.R3 logging is write-only in numeric modules (pure arguments, no "
       "state reads); C20.R4 decorators are transparent; C20.R5 accessors touch only 'console' handlers of logger 'emd' and never configure logging.",
       "nothing; logging calls themselves are assumed not to raise.",
       "typestate walk with exception outcomes and condition correlation; nullness summary; effect/purity scan")

_claim('C02',
       "C02.R1 homogeneity degrees (signal 1, options 0) through the whole call cone of get_next_imf / sift / mask_sift "
       "(ratio modes) / get_next_imf_mask / get_mask_freqs with interprocedural summaries: every sum, comparison and "
       "branch condition combines equal degrees, results have the expected degree, the absolute sift threshold is the "
       "only accepted scale-dependent decision; C02.R2 negation conjugacy of the trough branch, identical options of the "
       "two envelopes, SD / Rilling predicates invariant under the sign flip; C02.R3 two-sided padding, symmetric exit "
       "test, symmetric strict extrema search, no direction-sensitive primitive in the cone.",
       "bit-exactness for +-2^k; exact time-reversal equality of scipy's spline solvers; the guard band near thresholds.",
       "abstract interpretation in a homogeneity-degree domain over evaluated paths; sibling comparison by substitution")
_claim('C05',
       'C05.R8 the extrema are handed back whenever there are at least two (none-chain); C05.R9 no in-place arithmetic in, and no cast of computed arrays to, the dtype of an input. '
       "C05.R1 strict order-1 extrema search unfiltered on the default path; C05.R2 trough/peak conjugacy; C05.R3 aligned "
       "two-array padding and exact exit test of the re-padding loop; C05.R4 integrality of the interpolation grid for "
       "every option value (parabolic refinement makes locations real), same grid for evaluation and mask, mask "
       "{t>=0, t<N}, length mismatch raises; C05.R5 method table; C05.R6 parabola constants over the rationals (in-place updates through aliases are modelled); C05.R7 extrema / padding options reach the extrema routine as supplied.",
       "that odd reflection yields strictly increasing knots (trusted np.pad); spline values.",
       "integrality domain with interprocedural summaries; normal-form comparison; literal evaluation over Q")
_claim('C07',
       "C07.R1 structural decoding of the masked-extraction result: mean over columns of (ordered concat of worker(X + "
       "M[:,k])[0] - M) with the same M added and removed, M = amp*cos(2 pi z t + phi_k); C07.R2 phase grid, frequency "
       "ladder, per-layer indexing, returned frequencies are the indexed array; C07.R3 ordered pool API and effect-free "
       "worker cone; C07.R4 amplitude-mode table, zero amplitude gives a zero mask; C07.R5 the mask routines run with the caller's option carriers.",
       "numerical closeness to an executable specification of the masking rule.",
       "term decoding on evaluated paths + polynomial normal forms + pool effect summaries")
_claim('C09',
       "C09.R3 also: the per-column iteration of amplitude_normalise starts from that column's own state. "
       "C09.R1 every return wraps the unwrapped phase with wrap_phase('2pi') == mod(ncycles*2pi); C09.R2 frequency is "
       "freq_from_phase of the same unwrapped phase, freq_from_phase / phase_from_freq coefficients (product 1); "
       "C09.R3 homogeneity degrees (0, 0, 1) for hilbert / nht / quad, the normalisation core of amplitude_normalise and its per-column iteration budget; "
       "C09.R4 method table total on the documented literals; C09.R6 per-method pipeline (analytic signal = hilbert(IMFs or their amplitude-normalised form, axis=0) / quadrature_transform(IMFs); phase from phase_from_complex_signal(that signal, unwrapped, the caller's smoothing); amplitude = |signal| or the per-column upper envelope stored at its own (i, j) with the 2-D input lifted to 3-D and back); C09.R7 the unwrapped phase is unwrap(angle(signal), axis=0) + pi/2 in the shape of the signal, median smoothing exactly when requested with an odd window; amplitude_normalise works on a copy and returns the input's shape.",
       "the bulk of the behavioural statement: accuracy on sinusoids for any method, the effect of the smoothing window, "
       "'%' landing exactly on 2pi.",
       "def-use on evaluated terms + polynomial normal forms + homogeneity-degree domain")
_claim('C10',
       "C10.R1 class-by-class evaluation of row index, keep filter and value of hilberthuang and of the loop of "
       "hilberthuang_1d over the digitize index classes (below / in(k) / at-last-edge / above / nan) for E = 2,3,5; "
       "C10.R2 sibling agreement of the two maps; C10.R3 energy exponent, dense = toarray(sparse); C10.R4 bin definition (edges by scale; centres interpreted on five exact rational edge vectors as the midpoints of consecutive edges); "
       "C10.R5 dimension checks present, L1 library attributes resolve; C10.R6 ensure_2d contract (shape classes, values untouched); C10.R7 no flattening in memory order (order K/A/F) and no cast of bin indices to 8/16-bit integers. Recognisably wrong constructions are reported as violations, not as analysis errors: swapped np.digitize arguments, COO coordinates taken from the wrong vector, a keep-filter that tests the time coordinate or input values, reductions over the wrong axis, impossible reshapes, a time coordinate that the small array model shows not to be the sample index, wrong reducers / exponents, mis-spaced or rejected scales, 1-D allocation and IMF loop.",
       "floating-point summation order of duplicate sparse entries.",
       "finite abstract domain of digitize index classes with elementwise transfer functions")
_claim('C11',
       "C11.R1 fold/unfold arithmetic of holospectrum evaluated over every pair of digitize classes (E1 in {2,3}, E2 in "
       "{2,4}): folded index fits the width, unfolds to [AM, carrier], the trim removes exactly the out-of-range classes; "
       "C11.R2 squash table over the same accumulation (sum / count forms of the mean with the count classified); C11.R3 exponent and dimension checks; C11.R4 ensure_2d contract; C11.R5 no memory-order flattening, no narrowing of the index arrays; L1. C11.R1 also evaluates the whole returned expression in a small row-major array model for two input shapes with opaque values: numpy's own shape errors (operands that do not broadcast, coordinate vectors of different lengths, impossible reshapes) and a result that is not [time x AM x carrier] / [AM x carrier] are violations; the time coordinate must list the sample index element by element.",
       "floating-point summation order.",
       "finite abstract domain of index-class pairs + term decoding")
_claim('C14',
       'C14.R7 the bin definition used for binning and alignment (define_hist_bins: edges by scale, centres = midpoints); C14.R8 no statistic is computed in, or cast to, the dtype of the observations. '
       "C14.R1 reducer argument is vals[where(label == i)] stored in slot i over range(max+1); C14.R2 NaN-initialised "
       "projection written through the same lookup; C14.R3 phase_align uses one index set for phase and value, the bin "
       "centres of define_hist_bins(0, 2pi, npoints), column = cycle; C14.R4 the bin loop of bin_by_phase covers every "
       "allocated row (digitize classes for nbins = 2,3,5) for default and supplied edges, weighted and unweighted; each bin is filled with the mean along the sample axis of x[digitize(ip, edges) == i], the default edges are define_hist_bins(0, 2pi, nbins), an iteration skips only an empty bin, the result is nbins x x.shape[1:]; the cycles aligned are the supplied ones or the unmasked all-cycles labelling and a cycle is skipped only when another was requested or it has no samples; the interpolant gets the requested kind and extrapolates; C14.R5 get_cycle_stat is the support routine on the object's own labels, out='samples' its projection; C14.R6 the iterator protocol phase_align relies on yields (i, samples labelled i) for i in range(max(label)+1), checked link by link (_ensure_cycle_inputs, Cycles.iterate, IterateCycles); L1.",
       "interpolation error for non-linear profiles.",
       "term decoding with inlined label lookups + digitize index classes")
_claim('C15',
       "C15.R1 comparator table by folding the parser's path conditions for 6 operators x 3 literal prefixes; C15.R2 "
       "conjunction with the metric on the left; C15.R3 get_subset_vector and get_chain_vector evaluated on every boolean selection of up to 6 (thorough 7) cycles given as literal lists, the closed result terms interpreted (-1 / running counter; one entry per selected cycle, chains are maximal runs), with the counter / gap relations of the loops as the fallback reading; C15.R4 every metric store is guarded or "
       "of cycle-level provenance; C15.R5 cache precondition (all-cycles unmasked vector, gap-free by C12.R1) and the "
       "cache's own boundaries; metric values are not modified in place; C15.R6 recomputation on every pick; C15.R7 the label route and the slice-cache route delimit the augmented cycle identically (sibling agreement by substitution); C15.R8 possibly-None extents never index the values unguarded; C15.R9 per mode x cache state the stored metric is the matching support routine on (vals, own labels or the cache known to be present, func), chain metrics are the per-chain statistic on the own vectors projected onto cycles with NaN -> -1 before an integer cast, chain_ind / chain_position number chains and members from 0; C15.R10 every attribute a method reads is bound on every constructor path before the first method call needing it; C15.R11 the tabular export is built from the metric store and drops exactly the rows not matching the conditions in force; C15.R12 on the slice-cache route and the augmented label route every cycle's slot is written once on every path with func of exactly that cycle's values, NaN exactly without extent.",
       "equality of arbitrary user functions under cache on/off; the full operation-history quantifier beyond 'each "
       "operation preserves the store invariant'.",
       "partial evaluation of path conditions on concrete strings + counter relations + C12 cover rule")
_claim('C16',
       "C16.R1 index-space typing of all 14 map_* functions (samples/cycles/subset/chains) against the level their name "
       "promises; C16.R2 the -1 sentinel is never used or passed as an index unguarded, dead None-guards are reported; "
       "C16.R3 squeeze followed by len; C16.R4 six projections NaN-initialised on the target level and written through "
       "the matching map; a filled range between two indices is not an index-set map, may-be-None results are never used as "
       "an index; C16.R5 labels of every column are 0..K-1.",
       "nothing numerical.",
       "type checking in an index-space domain over evaluated paths")
_claim('C17',
       "C17.R1 the occurrence lookup returns index sets in the row space of its argument (a sorted copy has a different "
       "index space); C17.R2 provenance of every final assignment and its range guard against the size of the set the tree was built on, x/y index lists equal by "
       "construction, K and the distance bound reach the query; C17.R1 also interprets the return term of _unique_inds on every weak ordering of up to 4 (thorough 5) values: the distinct values, each with exactly its positions; C17.R3 one claimant per candidate and neighbour column (one position among the occurrences, not an equality test on the minimum); C17.R4 a claimant is marked only if its candidate is a member of the column's candidates not matched in an earlier column, that record is extended in every column with exactly the rows marked, the assignment vector is integer typed.",
       "K=1 (scipy returns 1-D arrays); global injectivity is derived by composition of R2-R4, not by a single rule; scipy's cKDTree.query is trusted to honour k and the distance bound.",
       "index-space typing + path conditions of the assignment stores + exhaustive order-pattern interpretation of the lookup routine")
_claim('C19',
       "C19.R1 the three ensure_* routines folded on 11 representative shapes against their documented contract, every returned array is its own input through layout-only operations; "
       "C19.R2 canonicalisation precedes every other use of the signal; C19.R3 flow-sensitive interprocedural "
       "alias/mutation analysis over every public function and method of the numeric modules; C19.R4 length checks "
       "present, and the conditions of ensure_equal_dims evaluated concretely on 14 shape lists raise exactly on a mismatch, L1; C19.R5 no mutable module state; C19.R6 no public routine flattens or reshapes an array in memory order (order K/A/F), so a transposed or Fortran-ordered argument gives the same result.",
       "value equality beyond 'same canonical input'; read-only array flags.",
       "shape-class evaluation of path conditions + alias/freshness/mutation dataflow with summaries")

NOT_YET = "rules for this property are not built yet in this round; its check is fail-closed (exit 2), so it is not claimed"


def main():
    props = [json.loads(l) for l in open(os.path.join(HERE, 'properties.jsonl'))]
    checks = []
    na = []
    for p in props:
        pid = p['id']
        c = CLAIMS.get(pid)
        if c is None:
            na.append({'property_id': pid, 'reason': NA.get(pid, NOT_YET)})
            continue
        checks.append({
            'property_id': pid,
            'quick_cmd': './check %s --tier quick' % pid,
            'thorough_cmd': './check %s --tier thorough' % pid,
            'evidence_file': '/verif/evidence/%s.json' % pid,
            'replay_cmd_template': './check %s --replay {path}' % pid,
            'engine': 'emdverif',
            'level_claimed': {'category': 'other', 'text': c['text'], 'design_ref': c['ref']},
            'level_note': c['note'],
            'technique': c['technique'],
        })
    m = {
        'version': 1,
        'setup_cmd': './check --selfcheck',
        'hooks': {
            'guard': 'EMD_MIRROR_VERIF',
            'enable': 'none needed: nothing is executed, the checker parses /repo/emd/*.py from the working tree',
            'baseline_off_cmd': 'cd /repo && /venv/bin/python -m pytest -ra -q -p no:cacheprovider --timeout=900 '
                                '--continue-on-collection-errors',
            'source_commits': [],
            'add_only': True,
        },
        'engines': [{
            'name': 'emdverif',
            'path': '/verif/emdverif',
            'serves_properties': [c['property_id'] for c in checks],
            'kind_free_text': 'repository-specific static analyser (stdlib ast): resolver + argument binding, '
                              'path-sensitive abstract evaluator with polynomial normal forms, dataflow domains, '
                              'table/normal-form comparison; run with /venv/bin/python, never imports emd',
        }],
        'checks': checks,
        'not_applicable': na,
        'notes': 'Exit codes: 0 all obligations PASS/KNOWN; 1 VIOLATION; 2 ANALYSIS-ERROR (undecided, vanished anchor, '
                 'instance count below floor, positive fixture silent). Known findings: /verif/known_findings.json.',
    }
    with open(os.path.join(HERE, 'MANIFEST.json'), 'w') as f:
        json.dump(m, f, indent=1)
        f.write('\n')
    print('checks=%d not_applicable=%d' % (len(checks), len(na)))


NA = {}

if __name__ == '__main__':
    main()
