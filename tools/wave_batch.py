#!/venv/bin/python
"""usage: wave_batch.py <outdir>   e.g. /tmp/wt3out
For every <outdir>/Cxx/patchN.diff + demoN.py not yet in <outdir>/results.json: confirm it in a throw-away worktree
(tools/seed_confirm.sh: patch applies, pinned tests pass with it, demo fails with it and passes without) and evaluate
it against all 20 quick checks on an in-memory variant (nothing is written to /repo)."""
import concurrent.futures as cf
import glob
import json
import os
import subprocess
import sys

VERIF = os.path.dirname(os.path.dirname(os.path.abspath(__file__)))
sys.path.insert(0, VERIF)
sys.dont_write_bytecode = True
from emdverif import selfval  # noqa: E402

PROPS = ['C%02d' % i for i in range(1, 21)]


def confirm(job):
    key, patch, demo = job
    r = subprocess.run([os.path.join(VERIF, 'tools', 'seed_confirm.sh'), patch, demo], capture_output=True, text=True)
    return key, (r.stdout.strip().split('\n') or [''])[-1]


def evaluate(job):
    key, patch, prop = job
    ov = selfval.patch_overrides(patch)
    if not ov:
        return key, prop, 3, 'patch does not apply'
    rc, out = selfval._run_variant(prop, ov)
    return key, prop, rc, out


def main():
    outdir = sys.argv[1]
    only_eval = '--eval-only' in sys.argv
    resfile = os.path.join(outdir, 'results.json')
    results = json.load(open(resfile)) if os.path.exists(resfile) else {}
    jobs = []
    for d in sorted(glob.glob(os.path.join(outdir, 'C*'))):
        pid = os.path.basename(d)
        for n in (1, 2, 3, 4):
            p, dm = os.path.join(d, 'patch%d.diff' % n), os.path.join(d, 'demo%d.py' % n)
            if os.path.exists(p) and os.path.getsize(p) and os.path.exists(dm):
                jobs.append(('%s/patch%d' % (pid, n), p, dm))
    todo = [j for j in jobs if j[0] not in results or only_eval or '--all' in sys.argv]
    if not only_eval:
        need = [j for j in jobs if not results.get(j[0], {}).get('confirm')]
        todo = [j for j in jobs if j in need or j in todo]
        with cf.ThreadPoolExecutor(max_workers=5) as tex:
            for key, line in tex.map(confirm, need):
                results.setdefault(key, {})['confirm'] = line
                print(key, line[:120], flush=True)
                json.dump(results, open(resfile, 'w'), indent=1)
    ej = [(j[0], j[1], p) for j in todo for p in PROPS]
    per = {}
    with cf.ProcessPoolExecutor(max_workers=16) as ex:
        for key, prop, rc, out in ex.map(evaluate, ej, chunksize=4):
            per.setdefault(key, {})[prop] = (rc, out)
    for key, r in sorted(per.items()):
        det = sorted(p for p, (rc, o) in r.items() if rc == 1)
        err = sorted(p for p, (rc, o) in r.items() if rc not in (0, 1))
        rules = sorted({w for p, (rc, o) in r.items() for l in o.split('\n') if l.startswith('  emd/')
                        for w in l.split() if w[:1] == 'C' and '.R' in w} |
                       {'L1' for p, (rc, o) in r.items() for l in o.split('\n') if ' L1 ' in l})
        results.setdefault(key, {}).update({'detected_by': det, 'analysis_error': err, 'rules': rules})
        own = key.split('/')[0] in det
        print('%-12s own=%-5s det=%-16s err=%-10s %s | %s' % (key, own, ' '.join(det), ' '.join(err), ' '.join(rules),
                                                             results[key].get('confirm', '')[:40]))
    json.dump(results, open(resfile, 'w'), indent=1)


if __name__ == '__main__':
    main()
