#!/venv/bin/python
"""Detection must survive behaviour-preserving rewrites: every stored seeded change (seeded/*/patch.diff) is applied to an
in-memory copy of the tree, every mechanical rewrite (emdverif/mechvar.py) is applied ON TOP of it, and the property's own
quick check must still report a violation.  usage: seed_mech.py [-j N] [kind ...]"""
import concurrent.futures as cf
import glob
import json
import os
import sys

VERIF = os.path.dirname(os.path.dirname(os.path.abspath(__file__)))
sys.path.insert(0, VERIF)
sys.dont_write_bytecode = True
from emdverif import selfval, mechvar  # noqa: E402


def one(a):
    d, prop, kind = a
    name = os.path.basename(d)
    ov = selfval.patch_overrides(os.path.join(d, 'patch.diff'))
    if not ov:
        return name, kind, prop, 'SKIP', ''
    try:
        ov2 = mechvar.overrides(kind, sources=ov)
    except Exception as e:
        return name, kind, prop, 'SKIP', 'rewrite failed: %r' % (e,)
    rc, out = selfval._run_variant(prop, ov2)
    return name, kind, prop, {1: 'OK', 0: 'MISS', 2: 'ERR'}.get(rc, 'ERR'), out if rc != 1 else ''


def main():
    args = sys.argv[1:]
    jobs = 16
    if args[:1] == ['-j']:
        jobs = int(args[1])
        args = args[2:]
    kinds = args or mechvar.KINDS
    tasks = []
    for d in sorted(glob.glob(os.path.join(VERIF, 'seeded', 'C*'))):
        try:
            meta = json.load(open(os.path.join(d, 'meta.json')))
        except (OSError, ValueError):
            continue
        prop = meta.get('property') or os.path.basename(d).split('-')[0]
        for k in kinds:
            tasks.append((d, prop, k))
    res = {}
    with cf.ProcessPoolExecutor(max_workers=jobs) as ex:
        for name, kind, prop, status, out in ex.map(one, tasks, chunksize=2):
            res[(name, kind)] = status
            if status != 'OK':
                print('%-8s %-10s %s %s' % (name, kind, prop, status))
                for l in out.split('\n'):
                    if l.startswith(('ANALYSIS-ERROR', 'VIOLATION')):
                        print('     ', l[:260])
    n = len(res)
    print('seed x rewrite pairs=%d detected=%d missed=%d analysis-error=%d skipped=%d' % (
        n, sum(v == 'OK' for v in res.values()), sum(v == 'MISS' for v in res.values()),
        sum(v == 'ERR' for v in res.values()), sum(v == 'SKIP' for v in res.values())))


if __name__ == '__main__':
    main()
