#!/venv/bin/python
"""Evaluate every mechanical rewrite (emdverif/mechvar.py) of the current tree on all 20 quick checks: prints every
(kind, property) whose check exits non-zero or discharges a different number of obligations than on the unchanged tree.
usage: mech_eval.py [kind ...]"""
import sys, re
sys.path.insert(0, __import__('os').path.dirname(__import__('os').path.dirname(__import__('os').path.abspath(__file__)))); sys.dont_write_bytecode=True
import concurrent.futures as cf
from emdverif import selfval
from emdverif import mechvar as mech_variants
def one(a):
    kind, prop, ov = a
    rc, out = selfval._run_variant(prop, ov)
    m = re.search(r'obligations=(\d+) pass=(\d+)', out)
    lines = [l for l in out.split('\n') if l.startswith(('VIOLATION','ANALYSIS-ERROR','  emd/'))]
    return kind, prop, rc, (m.group(0) if m else ''), lines
if __name__ == '__main__':
    kinds = sys.argv[1:] or mech_variants.KINDS
    props = ['C%02d' % i for i in range(1,21)]
    jobs = []
    for k in kinds:
        ov = mech_variants.overrides(k)
        jobs += [(k, p, ov) for p in props]
    base = {}
    with cf.ProcessPoolExecutor(16) as ex:
        for kind, prop, rc, cnt, lines in ex.map(one, [('base', p, {}) for p in props]):
            base[prop] = cnt
        for kind, prop, rc, cnt, lines in ex.map(one, jobs):
            if rc != 0 or cnt != base[prop]:
                print(kind, prop, rc, cnt, 'base', base[prop])
                for l in lines[:6]: print('    ', l[:300])
    print('done')
