#!/venv/bin/python
"""Print the markdown tables of DESIGN.md section 9 (seeded changes, catalogue counts) from the files on disk."""
import glob
import json
import os
import sys

VERIF = os.path.dirname(os.path.dirname(os.path.abspath(__file__)))
sys.path.insert(0, VERIF)
from selftest.catalogue import CATALOGUE  # noqa: E402

print('| seed | property | needs to manifest | caught by (rules) |')
print('|------|----------|-------------------|-------------------|')
for d in sorted(glob.glob(os.path.join(VERIF, 'seeded', 'C*-*'))):
    m = json.load(open(os.path.join(d, 'meta.json')))
    ce = m.get('current_evaluation', {})
    print('| %s | %s | %s | %s (%s) |' % (m['seed'], m['property'], m.get('needs_to_manifest', 'see notes_from_author.md in the seed directory'),
                                         ' '.join(ce.get('detected_by', [])), ' '.join(ce.get('rules', []))))
print()
print('| property | breaking edits owned | benign edits listed |')
print('|----------|----------------------|---------------------|')
for i in range(1, 21):
    p = 'C%02d' % i
    b = sum(1 for e in CATALOGUE if e['kind'] == 'breaking' and e['props'][0] == p)
    g = sum(1 for e in CATALOGUE if e['kind'] == 'benign' and p in e['props'])
    print('| %s | %d | %d |' % (p, b, g))
print()
print('catalogue entries: %d (%d breaking, %d benign)' % (len(CATALOGUE), sum(e['kind'] == 'breaking' for e in CATALOGUE),
                                                          sum(e['kind'] == 'benign' for e in CATALOGUE)))
