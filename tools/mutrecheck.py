#!/venv/bin/python
"""usage: mutrecheck.py <dir> [-j N]   re-evaluate the 20 quick checks (in memory) for every mutant in
<dir>/results.jsonl that survived the tests, with the current rules; rewrites <dir>/results.jsonl."""
import concurrent.futures as cf
import json
import os
import sys

VERIF = os.path.dirname(os.path.dirname(os.path.abspath(__file__)))
sys.path.insert(0, VERIF)
sys.dont_write_bytecode = True
PROPS = ['C%02d' % i for i in range(1, 21)]


def one(args):
    from emdverif import selfval
    m, prop = args
    src = open('/repo/' + m['file']).read()
    new = src[:m['start']] + m['new'] + src[m['end']:]
    rc, out = selfval._run_variant(prop, {m['file']: new})
    rules = set()
    if rc == 1:
        for l in out.split('\n'):
            if l.startswith('  emd/'):
                rules |= {x for x in l.split() if (x[:1] == 'C' and '.R' in x) or x in ('L1', 'L2')}
    return m['id'], prop, rc, sorted(rules)


def main():
    d = sys.argv[1]
    jobs = int(sys.argv[sys.argv.index('-j') + 1]) if '-j' in sys.argv else 8
    only_miss = '--misses' in sys.argv
    muts = {m['id']: m for m in json.load(open(os.path.join(d, 'mutants.json')))}
    rows = [json.loads(l) for l in open(os.path.join(d, 'results.jsonl'))]
    todo = []
    for r in rows:
        if r['tests'] != 'pass':
            continue
        if only_miss:
            ps = {x.split('-')[0] for x in r.get('demos_failed', [])}
            if not ps or ps & set(r.get('check_detect', [])):
                continue
        todo.append(r)
    if only_miss:
        jobs_l = [(muts[r['id']], p) for r in todo for p in sorted({x.split('-')[0] for x in r['demos_failed']})]
    else:
        jobs_l = [(muts[r['id']], p) for r in todo for p in PROPS]
    res = {}
    with cf.ProcessPoolExecutor(max_workers=jobs) as ex:
        for mid, prop, rc, rules in ex.map(one, jobs_l, chunksize=10):
            res.setdefault(mid, {})[prop] = (rc, rules)
    # results of the re-evaluation go to a side file (the experiment may still be appending to results.jsonl)
    side = os.path.join(d, 'recheck.json')
    prev = json.load(open(side)) if os.path.exists(side) else {}
    for mid, rr in res.items():
        prev[mid] = {'check_detect': sorted(p for p, (rc, _) in rr.items() if rc == 1),
                     'check_error': sorted(p for p, (rc, _) in rr.items() if rc not in (0, 1)),
                     'rules': sorted({x for p, (rc, rs) in rr.items() for x in rs})}
    json.dump(prev, open(side, 'w'))
    print('rechecked', len(res))


if __name__ == '__main__':
    main()
