#!/venv/bin/python
"""Summarise <dir>/results.jsonl of the mutation experiment."""
import collections
import json
import sys


def RECHECKED(r, s_):
    """properties that were re-evaluated for this mutant (those of the failing demos, or all)"""
    ps = {x.split('-')[0] for x in r.get('demos_failed', [])}
    return ps if ps else set('C%02d' % i for i in range(1, 21))


def PROPS_OF(r):
    return r.get('props', [])

d = sys.argv[1]
rows = [json.loads(l) for l in open(d + '/results.jsonl')]
import os
if os.path.exists(d + '/recheck.json'):
    side = json.load(open(d + '/recheck.json'))
    for r in rows:
        if r['id'] in side:
            s_ = side[r['id']]
            if '--misses-merged' or True:
                # a partial re-evaluation (only the failing properties) is merged into the earlier verdicts
                r['check_detect'] = sorted(set(r.get('check_detect', [])) - set(PROPS_OF(r)) | set(s_['check_detect'])) \
                    if False else sorted(set(s_['check_detect']) | (set(r.get('check_detect', [])) - RECHECKED(r, s_)))
                r['rules'] = sorted(set(r.get('rules', [])) | set(s_['rules']))
c = collections.Counter(r['tests'] for r in rows)
print('mutants evaluated: %d  (tests: %s)' % (len(rows), dict(c)))
surv = [r for r in rows if r['tests'] == 'pass']
broke = [r for r in surv if r['demos_failed']]
clean = [r for r in surv if not r['demos_failed']]


def props_of_demos(r):
    return sorted({x.split('-')[0] for x in r['demos_failed']})


miss = []
for r in broke:
    ps = props_of_demos(r)
    own = [p for p in ps if p in r['check_detect']]
    if not own:
        miss.append(r)
print('survive the tests: %d; a property demo fails: %d; of those reported by the failing property\'s check: %d, '
      'by some check only: %d, by none: %d'
      % (len(surv), len(broke), len(broke) - len(miss), sum(1 for r in miss if r['check_detect']),
         sum(1 for r in miss if not r['check_detect'])))
alarm = [r for r in clean if r['check_detect'] or r['check_error']]
print('all demos pass: %d; of those a check alarms on: %d (violation) + %d (analysis error only)'
      % (len(clean), sum(1 for r in alarm if r['check_detect']), sum(1 for r in alarm if not r['check_detect'])))
if '-v' in sys.argv:
    print('\n-- demo fails, own check silent')
    for r in miss:
        print(r['id'], r['func'], r['op'], 'L%d' % r['line'], repr(r['old'][:40]), '->', repr(r['new'][:40]),
              'demos', r['demos_failed'], 'checks', r['check_detect'], r['check_error'])
if '-a' in sys.argv:
    print('\n-- demos pass, check alarms')
    for r in alarm:
        print(r['id'], r['func'], r['op'], 'L%d' % r['line'], repr(r['old'][:40]), '->', repr(r['new'][:40]),
              'checks', r['check_detect'], r['check_error'], r['rules'])
