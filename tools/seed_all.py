#!/venv/bin/python
"""Evaluate every seeded change under /verif/seeded against all quick checks (applies each patch to /repo, runs
./check C01..C20, undoes it) and records the outcome in its meta.json under 'current_evaluation'."""
import glob
import json
import os
import subprocess
import sys

VERIF = os.path.dirname(os.path.dirname(os.path.abspath(__file__)))
rows = []
for d in sorted(glob.glob(os.path.join(VERIF, 'seeded', 'C*'))):
    patch = os.path.join(d, 'patch.diff')
    r = subprocess.run([os.path.join(VERIF, 'tools', 'seed_eval.py'), patch], capture_output=True, text=True)
    res = json.load(open('/tmp/seed_eval_last.json'))
    det = sorted(p for p, rc in res.items() if rc == 1)
    err = sorted(p for p, rc in res.items() if rc == 2)
    meta = json.load(open(os.path.join(d, 'meta.json')))
    rules = sorted({l.split(' C')[-1].split(' ')[0] for l in r.stdout.split('\n') if l.startswith('      emd/')})
    rules = sorted({w for l in r.stdout.split('\n') if l.startswith('      emd/') for w in l.split() if w[:1] == 'C' and '.R' in w} |
                   {'L1' for l in r.stdout.split('\n') if ' L1 ' in l})
    meta['current_evaluation'] = {'detected_by': det, 'analysis_error': err, 'rules': rules}
    json.dump(meta, open(os.path.join(d, 'meta.json'), 'w'), indent=1)
    own = meta['property'] in det
    rows.append((os.path.basename(d), own, det, err, rules))
    print('%-6s own=%-5s detected_by=%-20s err=%-8s %s' % (os.path.basename(d), own, ' '.join(det), ' '.join(err), ' '.join(rules)))
print('seeds=%d detected=%d detected_by_own_property=%d analysis_error=%d' % (
    len(rows), sum(1 for r in rows if r[2]), sum(1 for r in rows if r[1]), sum(1 for r in rows if r[3] and not r[2])))
