#!/venv/bin/python
"""Evaluate every seeded change under /verif/seeded against all quick checks on an IN-MEMORY variant of the current
/repo tree (nothing is written to /repo) and record the outcome in its meta.json under 'current_evaluation'."""
import concurrent.futures as cf
import glob
import json
import os
import sys

VERIF = os.path.dirname(os.path.dirname(os.path.abspath(__file__)))
sys.path.insert(0, VERIF)
sys.dont_write_bytecode = True
from emdverif import selfval  # noqa: E402

PROPS = ['C%02d' % i for i in range(1, 21)]


def one(args):
    d, prop = args
    ov = selfval.patch_overrides(os.path.join(d, 'patch.diff'))
    if not ov:
        return d, prop, 3, 'patch does not apply'
    rc, out = selfval._run_variant(prop, ov)
    return d, prop, rc, out


def main():
    dirs = sorted(glob.glob(os.path.join(VERIF, 'seeded', 'C*')))
    only = sys.argv[1:]
    if only:
        dirs = [d for d in dirs if os.path.basename(d) in only]
    jobs = [(d, p) for d in dirs for p in PROPS]
    res = {}
    with cf.ProcessPoolExecutor(max_workers=16) as ex:
        for d, p, rc, out in ex.map(one, jobs, chunksize=4):
            res.setdefault(d, {})[p] = (rc, out)
    rows = []
    for d in dirs:
        r = res[d]
        det = sorted(p for p, (rc, o) in r.items() if rc == 1)
        err = sorted(p for p, (rc, o) in r.items() if rc not in (0, 1))
        rules = sorted({w for p, (rc, o) in r.items() for l in o.split('\n') if l.startswith('  emd/')
                        for w in l.split() if w[:1] == 'C' and '.R' in w} |
                       {'L1' for p, (rc, o) in r.items() for l in o.split('\n') if ' L1 ' in l})
        meta = json.load(open(os.path.join(d, 'meta.json')))
        meta['current_evaluation'] = {'detected_by': det, 'analysis_error': err, 'rules': rules}
        json.dump(meta, open(os.path.join(d, 'meta.json'), 'w'), indent=1)
        own = meta['property'] in det
        rows.append((os.path.basename(d), own, det, err, rules))
        print('%-6s own=%-5s detected_by=%-20s err=%-8s %s' % (os.path.basename(d), own, ' '.join(det), ' '.join(err),
                                                               ' '.join(rules)))
    print('seeds=%d detected=%d detected_by_own_property=%d analysis_error_only=%d' % (
        len(rows), sum(1 for r in rows if r[2]), sum(1 for r in rows if r[1]),
        sum(1 for r in rows if r[3] and not r[2])))
    return 0 if all(r[1] for r in rows) else 1


if __name__ == '__main__':
    sys.exit(main())
