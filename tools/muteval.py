#!/venv/bin/python
"""Evaluate one property's quick check on stored mutants (in memory).  usage: muteval.py <dir> <prop> <id|func-substring>..."""
import json
import os
import sys
import concurrent.futures as cf

VERIF = os.path.dirname(os.path.dirname(os.path.abspath(__file__)))
sys.path.insert(0, VERIF)
sys.dont_write_bytecode = True


def one(a):
    m, prop = a
    from emdverif import selfval
    src = open(os.path.join('/repo', m['file'])).read()
    assert src[m['start']:m['end']] == m['old'], m['id']
    new = src[:m['start']] + m['new'] + src[m['end']:]
    rc, out = selfval._run_variant(prop, {m['file']: new})
    lines = [l for l in out.split('\n') if l.startswith('  emd/') or l.startswith('ANALYSIS') or 'UNDECIDED' in l]
    return m, rc, lines


def main():
    d, prop = sys.argv[1], sys.argv[2]
    sel = sys.argv[3:]
    muts = json.load(open(os.path.join(d, 'mutants.json')))
    todo = [m for m in muts if m['id'] in sel or any(s in m['func'] for s in sel if not s.startswith('M0'))]
    with cf.ProcessPoolExecutor(max_workers=4) as ex:
        for m, rc, lines in ex.map(one, [(m, prop) for m in todo]):
            print(m['id'], rc, m['func'].split('.')[-1], 'L%d' % m['line'], m['op'], repr(m['old'][:40]), '->', repr(m['new'][:40]))
            if '-v' in os.environ.get('MUTEVAL', ''):
                for l in lines[:3]:
                    print('      ', l[:200])


if __name__ == '__main__':
    main()
