#!/bin/bash
# Confirm that every mechanical rewrite (emdverif/mechvar.py) leaves the pinned test-suite green: the rewritten sources
# are written into a scratch worktree outside /repo and /verif, which is removed afterwards.
set -e
WT=$(mktemp -d /tmp/mechwt.XXXXXX)
rmdir $WT
git -C /repo worktree add -q --detach $WT HEAD
trap 'cd /; git -C /repo worktree remove --force $WT 2>/dev/null || true' EXIT
cd $WT
for k in $(cd /verif && /venv/bin/python -m emdverif.mechvar list); do
  git checkout -q -- .
  (cd /verif && /venv/bin/python -m emdverif.mechvar write $k $WT >/dev/null)
  echo "$k: $(PYTHONPATH=$WT /venv/bin/python -m pytest -q -p no:cacheprovider --timeout=900 emd 2>&1 | tail -1)"
done
