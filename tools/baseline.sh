#!/bin/bash
# Run the repository's pinned test-suite (guard off: there are no hooks) and compare with BASELINE.json
out=$(mktemp /tmp/baseline.XXXXXX.xml)
cd /repo && /venv/bin/python -m pytest -ra -q -p no:cacheprovider --timeout=900 --continue-on-collection-errors --junitxml=$out >/dev/null 2>&1
/venv/bin/python - "$out" <<'PY'
import json,sys,xml.etree.ElementTree as ET
base=json.load(open('/root/.vp/BASELINE.json'))
t=ET.parse(sys.argv[1]).getroot()
res={}
for tc in t.iter('testcase'):
    name=tc.get('classname')+'::'+tc.get('name')
    bad=any(ch.tag in ('failure','error') for ch in tc)
    skipped=any(ch.tag=='skipped' for ch in tc)
    res[name]='fail' if bad else ('skip' if skipped else 'pass')
missing=[n for n in base['stable_pass'] if res.get(n)!='pass']
print('passed=%d failed=%d baseline_ok=%s'%(sum(v=='pass' for v in res.values()),sum(v=='fail' for v in res.values()),not missing))
for m in missing: print('  BASELINE TEST NOT PASSING:',m,res.get(m))
sys.exit(1 if missing else 0)
PY
rc=$?
rm -f $out
exit $rc
