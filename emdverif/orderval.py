"""Evaluation of small 1-D array terms on *order patterns*.

Routines such as `_unique_inds` touch the values of their argument only through comparisons (sorting, ==, !=), so
their result on any input is determined by the weak ordering of the input's elements.  All weak orderings of n <= 4
(5 in the thorough tier) elements are enumerated (1 + 3 + 13 + 75 [+ 541] patterns) and the evaluated return *term* of
the routine is interpreted on each: a finite, exhaustive abstraction of the input space for that size, read from the
source term (the repository is not imported or executed).

Vectors are Python lists; anything outside the interpreted fragment raises Undecided."""
import itertools

from .paths import is_c


class Undecided(Exception):
    pass


def weak_orderings(n):
    """all vectors over {0..n-1} whose set of values is an initial segment {0..k}: one per weak ordering of n items"""
    out = []
    for v in itertools.product(range(n), repeat=n):
        s = set(v)
        if s == set(range(len(s))):
            out.append(list(v))
    return out


class Vec(list):
    """a 1-D numpy-like vector"""


def _isvec(x):
    return isinstance(x, list)


def _bcast(op, a, b):
    if _isvec(a) and _isvec(b):
        if len(a) != len(b):
            if len(a) == 1:
                a = a * len(b)
            elif len(b) == 1:
                b = b * len(a)
            else:
                raise Undecided('operands of length %d and %d' % (len(a), len(b)))
        return Vec(op(x, y) for x, y in zip(a, b))
    if _isvec(a):
        return Vec(op(x, b) for x in a)
    if _isvec(b):
        return Vec(op(a, y) for y in b)
    return op(a, b)


import operator
CMP = {'<': operator.lt, '<=': operator.le, '>': operator.gt, '>=': operator.ge, '==': operator.eq, '!=': operator.ne}
ARITH = {'+': operator.add, '-': operator.sub, '*': operator.mul, '/': operator.truediv, '//': operator.floordiv,
         '**': operator.pow, '%': operator.mod}
IDENT_CALL = {'numpy.asanyarray', 'numpy.asarray', 'numpy.array', 'numpy.ravel', 'numpy.atleast_1d', 'numpy.squeeze'}
IDENT_METH = {'flatten', 'ravel', 'copy', 'squeeze'}


class OrderEval:
    def __init__(self, bind):
        self.bind = dict(bind)

    def ev(self, t):
        if t in self.bind:
            return self.bind[t]
        k = t[0]
        if k == 'c':
            return t[1]
        if k == 'ref':
            if t[1] in ('numpy.bool_', 'builtins.bool', 'builtins.int', 'numpy.intp', 'numpy.int64'):
                return t[1]
            if t[1] == 'numpy.inf':
                return float('inf')
            raise Undecided('reference %s' % t[1])
        if k in ('list', 'tuple'):
            vals = [self.ev(x) for x in t[1]]
            return Vec(vals) if k == 'list' else tuple(vals)
        if k == 'slice':
            return slice(*[self.ev(x) for x in t[1:4]])
        if k == 'attr':
            b = self.ev(t[1])
            if _isvec(b) and t[2] == 'shape':
                return (len(b),)
            if _isvec(b) and t[2] == 'size':
                return len(b)
            if _isvec(b) and t[2] == 'ndim':
                return 1
            if _isvec(b) and t[2] == 'dtype':
                return 'dtype'
            if _isvec(b) and t[2] == 'T':
                return b
            raise Undecided('attribute .%s' % t[2])
        if k == 'cmp':
            if t[1] not in CMP:
                raise Undecided('comparison %s' % t[1])
            return _bcast(CMP[t[1]], self.ev(t[2]), self.ev(t[3]))
        if k == 'bin':
            if t[1] not in ARITH:
                raise Undecided('operator %s' % t[1])
            a, b = self.ev(t[2]), self.ev(t[3])
            if isinstance(a, tuple) and isinstance(b, tuple) and t[1] == '+':
                return a + b
            return _bcast(ARITH[t[1]], a, b)
        if k == 'un':
            v = self.ev(t[2])
            if t[1] in ('~', 'not'):
                return Vec(not x for x in v) if _isvec(v) else (not v)
            if t[1] == '-':
                return Vec(-x for x in v) if _isvec(v) else -v
            raise Undecided('unary %s' % t[1])
        if k == 'sub':
            if t[1] == ('ref', 'numpy.r_'):
                parts = t[2][1] if t[2][0] == 'tuple' else (t[2],)
                out = Vec()
                for p in parts:
                    v = self.ev(p)
                    out.extend(v if _isvec(v) else [v])
                return out
            return self.index(self.ev(t[1]), self.ev(t[2]))
        if k == 'setitem':
            base = self.ev(t[1])
            if not _isvec(base):
                raise Undecided('store into a non-vector')
            base = Vec(base)
            idx, val = self.ev(t[2]), self.ev(t[3])
            self.store(base, idx, val)
            return base
        if k == 'comp':
            return Vec(self.comp(t, 0))
        if k == 'ifexp':
            return self.ev(t[2]) if self.ev(t[1]) else self.ev(t[3])
        if k == 'meth':
            recv = self.ev(t[2])
            if t[1] in IDENT_METH and _isvec(recv):
                return Vec(recv)
            if t[1] == 'tolist' and _isvec(recv):
                return Vec(recv)
            if t[1] == 'astype' and _isvec(recv):
                return Vec(recv)
            if t[1] in ('sum',) and _isvec(recv) and not t[3] and not t[4]:
                return sum(recv)
            if t[1] == 'max' and _isvec(recv) and not t[3] and not t[4]:
                if not recv:
                    raise IndexError('max() of an empty vector')
                return max(recv)
            if t[1] == 'cumsum' and _isvec(recv):
                out, acc = Vec(), 0
                for x in recv:
                    acc += x
                    out.append(acc)
                return out
            if t[1] in ('any', 'all') and _isvec(recv) and not t[3] and not t[4]:
                return any(recv) if t[1] == 'any' else all(recv)
            if t[1] == 'argsort' and _isvec(recv):
                return self.argsort(recv, dict(t[4]))
            raise Undecided('method .%s' % t[1])
        if k == 'call':
            return self.call(t)
        raise Undecided('term kind %s' % k)

    def comp(self, t, gi):
        elt, gens = t[2], t[3]
        if gi == len(gens):
            return [self.ev(elt)]
        var, it, conds = gens[gi]
        out = []
        seq = self.ev(it)
        if isinstance(seq, int):
            raise Undecided('iteration over a scalar')
        for v in seq:
            saved = dict(self.bind)
            self.bindvar(var, v)
            if all(self.ev(c) for c in conds):
                out.extend(self.comp(t, gi + 1))
            self.bind = saved
        return out

    def bindvar(self, var, v):
        if var[0] == 'tuple':
            v = list(v)
            if len(v) != len(var[1]):
                raise Undecided('unpacking')
            for a, b in zip(var[1], v):
                self.bindvar(a, b)
        else:
            self.bind[var] = v

    def index(self, b, i):
        if isinstance(b, tuple):
            if isinstance(i, (int, slice)):
                return b[i]
            raise Undecided('tuple index')
        if not _isvec(b):
            raise Undecided('index into a scalar')
        if isinstance(i, bool):
            raise Undecided('boolean scalar index')
        if isinstance(i, int):
            if not -len(b) <= i < len(b):
                raise IndexError('index %d out of range for length %d' % (i, len(b)))
            return b[i]
        if isinstance(i, slice):
            return Vec(b[i])
        if _isvec(i):
            if any(x is None for x in i):
                raise IndexError('the index vector has elements that were never written (np.empty leaves them undefined)')
            if i and all(isinstance(x, bool) for x in i):
                if len(i) != len(b):
                    raise IndexError('boolean mask of length %d on a vector of length %d' % (len(i), len(b)))
                return Vec(x for x, m in zip(b, i) if m)
            if all(isinstance(x, int) and not isinstance(x, bool) for x in i):
                for x in i:
                    if not -len(b) <= x < len(b):
                        raise IndexError('index %d out of range' % x)
                return Vec(b[x] for x in i)
            if not i:
                return Vec()
        raise Undecided('index %r' % (i,))

    def store(self, base, idx, val):
        if isinstance(idx, int) and not isinstance(idx, bool):
            base[idx] = val
            return
        if isinstance(idx, slice):
            pos = list(range(len(base)))[idx]
        elif _isvec(idx) and idx and all(isinstance(x, bool) for x in idx):
            if len(idx) != len(base):
                raise IndexError('mask length')
            pos = [i for i, m in enumerate(idx) if m]
        elif _isvec(idx):
            pos = list(idx)
        else:
            raise Undecided('store index %r' % (idx,))
        if _isvec(val):
            if len(val) != len(pos):
                if len(val) == 1:
                    val = list(val) * len(pos)
                else:
                    raise IndexError('cannot store %d values at %d positions' % (len(val), len(pos)))
            for p, v in zip(pos, val):
                base[p] = v
        else:
            for p in pos:
                base[p] = val

    def argsort(self, v, kw):
        return Vec(sorted(range(len(v)), key=lambda i: (v[i], i)))      # stable; ties in index order

    def call(self, t):
        name = t[1]
        args = t[2]
        kw = dict(t[3])
        if name in IDENT_CALL and args:
            v = self.ev(args[0])
            return Vec(v) if _isvec(v) else v
        if name == 'builtins.slice' and 1 <= len(args) <= 3 and not kw:
            return slice(*[self.ev(a) for a in args])
        if name == 'numpy.bincount' and len(args) == 1 and set(kw) <= {'minlength'}:
            v = self.ev(args[0])
            if not _isvec(v) or any(isinstance(x, bool) or not isinstance(x, int) for x in v):
                raise Undecided('bincount of a non-integer vector')
            if any(x < 0 for x in v):
                raise IndexError('np.bincount of negative values raises ValueError')
            n = max(v) + 1 if v else 0
            if 'minlength' in kw:
                n = max(n, self.ev(kw['minlength']))
            out = Vec([0] * n)
            for x in v:
                out[x] += 1
            return out
        if name == 'numpy.repeat' and len(args) == 2 and not kw:
            a, r = self.ev(args[0]), self.ev(args[1])
            if not _isvec(a):
                a = Vec([a])
            if _isvec(r):
                if len(r) != len(a):
                    if len(r) == 1:
                        r = list(r) * len(a)
                    else:
                        raise IndexError('np.repeat: %d counts for %d elements' % (len(r), len(a)))
            else:
                r = [r] * len(a)
            out = Vec()
            for x, k in zip(a, r):
                if isinstance(k, bool) or not isinstance(k, int) or k < 0:
                    raise Undecided('repeat count')
                out.extend([x] * k)
            return out
        if name == 'numpy.sort' and args:
            return Vec(sorted(self.ev(args[0])))
        if name == 'builtins.sorted' and args and not kw:
            return Vec(sorted(self.ev(args[0])))
        if name == 'numpy.unique' and args:
            v = self.ev(args[0])
            flags = [f for f in ('return_index', 'return_inverse', 'return_counts') if kw.get(f, ('c', False)) != ('c', False)]
            u = Vec(sorted(set(v)))
            if not flags:
                return u
            out = [u]
            for f in flags:
                if f == 'return_index':
                    out.append(Vec(v.index(x) for x in u))
                elif f == 'return_inverse':
                    out.append(Vec(u.index(x) for x in v))
                else:
                    out.append(Vec(v.count(x) for x in u))
            return tuple(out)
        if name == 'numpy.argsort' and args:
            return self.argsort(self.ev(args[0]), kw)
        if name in ('numpy.empty', 'numpy.zeros', 'numpy.ones', 'numpy.empty_like', 'numpy.zeros_like', 'numpy.ones_like'):
            shp = self.ev(args[0]) if args else self.ev(kw['shape'])
            if name.endswith('_like'):
                n = len(shp)
            elif isinstance(shp, tuple) and len(shp) == 1:
                n = shp[0]
            elif isinstance(shp, int):
                n = shp
            else:
                raise Undecided('shape %r' % (shp,))
            dt = kw.get('dtype', args[1] if len(args) > 1 else None)
            isbool = dt is not None and dt in (('ref', 'numpy.bool_'), ('ref', 'builtins.bool'), ('c', 'bool'))
            fill = {'e': None, 'z': False if isbool else 0, 'o': True if isbool else 1}[name.split('.')[1][0]]
            return Vec([fill] * n)
        if name == 'numpy.where' and len(args) == 1:
            c = self.ev(args[0])
            return (Vec(i for i, m in enumerate(c) if m),)
        if name == 'numpy.where' and len(args) == 3:
            c, a, b = (self.ev(x) for x in args)
            a = a if _isvec(a) else [a] * len(c)
            b = b if _isvec(b) else [b] * len(c)
            return Vec(x if m else y for m, x, y in zip(c, a, b))
        if name == 'builtins.len' and args:
            return len(self.ev(args[0]))
        if name == 'builtins.range':
            return range(*[self.ev(a) for a in args])
        if name == 'numpy.arange':
            return Vec(range(*[self.ev(a) for a in args]))
        if name == 'builtins.enumerate' and len(args) == 1:
            return [(i, v) for i, v in enumerate(self.ev(args[0]))]
        if name == 'builtins.zip':
            return [tuple(x) for x in zip(*[self.ev(a) for a in args])]
        if name in ('builtins.list', 'builtins.tuple') and len(args) == 1:
            v = self.ev(args[0])
            return Vec(v) if name.endswith('list') else tuple(v)
        if name == 'builtins.set' and len(args) == 1:
            return set(self.ev(args[0]))
        if name == 'numpy.diff' and len(args) == 1 and set(kw) <= {'prepend', 'append', 'axis'}:
            v = list(self.ev(args[0]))
            for key, front in (('prepend', True), ('append', False)):
                if key in kw:
                    ex = self.ev(kw[key])
                    ex = list(ex) if _isvec(ex) else [ex]
                    v = ex + v if front else v + ex
            return Vec(b - a for a, b in zip(v[:-1], v[1:]))
        if name in ('numpy.count_nonzero',) and len(args) == 1:
            return sum(1 for x in self.ev(args[0]) if x)
        if name in ('numpy.full', 'numpy.full_like') and len(args) >= 2:
            shp = self.ev(args[0])
            n = len(shp) if name.endswith('_like') else (shp[0] if isinstance(shp, tuple) else shp)
            return Vec([self.ev(args[1])] * n)
        if name in ('numpy.any', 'builtins.any') and len(args) == 1 and not kw:
            return any(self.ev(args[0]))
        if name in ('numpy.all', 'builtins.all') and len(args) == 1 and not kw:
            return all(self.ev(args[0]))
        if name in ('numpy.max', 'builtins.max') and len(args) == 1 and not kw:
            return max(self.ev(args[0]))
        if name == 'numpy.cumsum' and len(args) == 1:
            out, s = Vec(), 0
            for x in self.ev(args[0]):
                s += x
                out.append(s)
            return out
        if name in ('numpy.concatenate', 'numpy.hstack') and args:
            out = Vec()
            for p in self.ev(args[0]):
                out.extend(p if _isvec(p) else [p])
            return out
        if name in ('numpy.split', 'numpy.array_split') and len(args) == 2:
            v, cuts = self.ev(args[0]), self.ev(args[1])
            if not _isvec(cuts):
                raise Undecided('split into equal parts')
            out, last = [], 0
            for c in list(cuts) + [len(v)]:
                out.append(Vec(v[last:c]))
                last = c
            return out
        if name in ('numpy.sum', 'builtins.sum') and len(args) == 1 and not kw:
            return sum(self.ev(args[0]))
        if name in ('numpy.logical_not', 'numpy.invert') and len(args) == 1:
            return Vec(not x for x in self.ev(args[0]))
        if name == 'numpy.isin' and len(args) == 2:
            a, b = self.ev(args[0]), set(self.ev(args[1]))
            inv = kw.get('invert', ('c', False)) == ('c', True)
            return Vec((x in b) != inv for x in a)
        raise Undecided('call %s' % name)
