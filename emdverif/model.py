"""E1 - program model: loader, symbol resolution, callee resolution, argument binding.

Nothing from the analysed repository is imported or executed: every fact comes
from `ast.parse` of the files in the working tree.
"""
import ast
import hashlib
import os

REPO = os.environ.get('EMD_VERIF_REPO', '/repo')
PKG = 'emd'
SKIP_DIRS = {'tests'}


class AnalysisError(Exception):
    """The analysis cannot decide (vanished anchor, unsupported construct)."""

    def __init__(self, msg, node=None, where=None):
        super().__init__(msg)
        self.node = node
        self.where = where


class FuncInfo:
    def __init__(self, module, node, qualname, cls=None, parent=None):
        self.module = module
        self.node = node
        self.qualname = qualname          # emd.sift.get_next_imf
        self.cls = cls                    # class name or None
        self.parent = parent              # enclosing FuncInfo for nested defs
        a = node.args
        self.posonly = [x.arg for x in a.posonlyargs]
        self.params = [x.arg for x in a.posonlyargs + a.args]
        self.kwonly = [x.arg for x in a.kwonlyargs]
        self.vararg = a.vararg.arg if a.vararg else None
        self.kwarg = a.kwarg.arg if a.kwarg else None
        self.defaults = {}
        nd = len(a.defaults)
        for name, d in zip(self.params[len(self.params) - nd:], a.defaults):
            self.defaults[name] = d
        for name, d in zip(self.kwonly, a.kw_defaults):
            if d is not None:
                self.defaults[name] = d
        self.decorators = list(node.decorator_list)
        self._locals = None

    @property
    def name(self):
        return self.node.name

    @property
    def short(self):
        return self.qualname[len(PKG) + 1:] if self.qualname.startswith(PKG + '.') else self.qualname

    @property
    def is_method(self):
        return self.cls is not None and not any(
            isinstance(d, ast.Name) and d.id == 'staticmethod' for d in self.decorators)

    @property
    def is_classmethod(self):
        return any(isinstance(d, ast.Name) and d.id == 'classmethod' for d in self.decorators)

    def all_formals(self):
        return self.params + self.kwonly

    def local_names(self):
        """Names bound inside the function (params, assignment targets, loop
        variables, with/except names) - they shadow module-level aliases."""
        if self._locals is None:
            names = set(self.params) | set(self.kwonly)
            if self.vararg:
                names.add(self.vararg)
            if self.kwarg:
                names.add(self.kwarg)
            for n in walk_local(self.node):
                if isinstance(n, ast.Name) and isinstance(n.ctx, (ast.Store, ast.Del)):
                    names.add(n.id)
                elif isinstance(n, ast.ExceptHandler) and n.name:
                    names.add(n.name)
                elif isinstance(n, (ast.FunctionDef, ast.ClassDef)) and n is not self.node:
                    names.add(n.name)
            self._locals = names
        return self._locals

    def loc(self, node=None):
        n = node if node is not None else self.node
        return '%s:%d' % (self.module.relpath, getattr(n, 'lineno', 0))

    def __repr__(self):
        return '<Func %s>' % self.qualname


def walk_local(fnode):
    """ast.walk over a function body that does not descend into nested
    function/class definitions (but yields them)."""
    stack = list(fnode.body)
    while stack:
        n = stack.pop()
        yield n
        if isinstance(n, (ast.FunctionDef, ast.AsyncFunctionDef, ast.ClassDef, ast.Lambda)):
            continue
        stack.extend(ast.iter_child_nodes(n))


class ModuleInfo:
    def __init__(self, name, path, relpath, src=None):
        self.name = name
        self.path = path
        self.relpath = relpath
        if src is not None:
            raw = src.encode('utf-8')
        else:
            with open(path, 'rb') as f:
                raw = f.read()
        self.sha256 = hashlib.sha256(raw).hexdigest()
        self.src = raw.decode('utf-8')
        self.tree = ast.parse(self.src, filename=path)
        self.imports = {}        # alias -> dotted target
        self.functions = {}      # local qualname -> FuncInfo  (get_next_imf, SiftConfig.get_func, a.b nested)
        self.classes = {}        # name -> ClassDef
        self.assigns = {}        # module-level NAME -> value node
        self._index()

    def _abs_from(self, node):
        # resolve a `from X import` module reference to a dotted name
        if node.level == 0:
            return node.module or ''
        parts = self.name.split('.')
        base = parts[:len(parts) - node.level]
        if node.module:
            base = base + node.module.split('.')
        return '.'.join(base)

    def _index(self):
        for n in ast.walk(self.tree):
            if isinstance(n, ast.Import):
                for a in n.names:
                    if a.asname:
                        self.imports[a.asname] = a.name
                    else:
                        top = a.name.split('.')[0]
                        self.imports[top] = top
            elif isinstance(n, ast.ImportFrom):
                mod = self._abs_from(n)
                for a in n.names:
                    self.imports[a.asname or a.name] = (mod + '.' + a.name) if mod else a.name
        for n in self.tree.body:
            if isinstance(n, ast.Assign) and len(n.targets) == 1 and isinstance(n.targets[0], ast.Name):
                self.assigns[n.targets[0].id] = n.value
        self._index_defs(self.tree.body, prefix='', cls=None, parent=None)

    def _index_defs(self, body, prefix, cls, parent):
        for n in body:
            if isinstance(n, (ast.FunctionDef, ast.AsyncFunctionDef)):
                q = prefix + n.name
                fi = FuncInfo(self, n, self.name + '.' + q, cls=cls, parent=parent)
                self.functions[q] = fi
                # nested defs
                nested = [m for m in walk_local(n) if isinstance(m, (ast.FunctionDef, ast.AsyncFunctionDef))]
                for m in nested:
                    self._index_defs([m], prefix=q + '.', cls=None, parent=fi)
            elif isinstance(n, ast.ClassDef):
                self.classes[n.name] = n
                self._index_defs(n.body, prefix=prefix + n.name + '.', cls=n.name, parent=parent)


class Callee:
    """Result of resolving the callable of a call site."""

    def __init__(self, kind, dotted, func=None, pre_args=(), pre_kwargs=(), pre_star=(), via=None):
        self.kind = kind          # 'repo' | 'lib' | 'unknown' | 'class'
        self.dotted = dotted      # dotted name (numpy.mean, emd.sift.sift) or None
        self.func = func          # FuncInfo for repo callees
        self.pre_args = list(pre_args)      # positional exprs pre-bound by functools.partial
        self.pre_kwargs = list(pre_kwargs)  # (name, expr) pre-bound by partial
        self.pre_star = list(pre_star)      # **carrier exprs pre-bound by partial
        self.via = via            # None | 'partial' | 'default-param'

    def __repr__(self):
        return '<Callee %s %s>' % (self.kind, self.dotted)


class Binding:
    """Actuals of one call bound to the callee's formals."""

    def __init__(self, callee_func):
        self.func = callee_func
        self.args = {}          # formal -> expr node
        self.sources = {}       # formal -> 'pos'|'kw'|'partial-pos'|'partial-kw'
        self.star_kwargs = []   # exprs unpacked with **
        self.star_args = []     # exprs unpacked with *
        self.extra_kwargs = {}  # keywords with no matching formal (go to **kwargs or error)
        self.errors = []

    def get(self, formal):
        return self.args.get(formal)

    def unbound(self):
        return [f for f in self.func.all_formals() if f not in self.args]


class Program:
    def __init__(self, root=None, overrides=None):
        """overrides: relpath -> source text used instead of the file on disk
        (fixtures and in-memory variants; nothing is written to the tree)."""
        self.root = root or REPO
        self.overrides = overrides or {}
        self.modules = {}
        self.funcs = {}
        pkgdir = os.path.join(self.root, PKG)
        if not os.path.isdir(pkgdir):
            raise AnalysisError('package directory %s not found' % pkgdir)
        for dirpath, dirnames, filenames in os.walk(pkgdir):
            dirnames[:] = sorted(d for d in dirnames if d not in SKIP_DIRS and not d.startswith('__'))
            for fn in sorted(filenames):
                if not fn.endswith('.py'):
                    continue
                path = os.path.join(dirpath, fn)
                rel = os.path.relpath(path, self.root)
                parts = rel[:-3].split(os.sep)
                if parts[-1] == '__init__':
                    parts = parts[:-1]
                name = '.'.join(parts)
                m = ModuleInfo(name, path, rel, src=self.overrides.get(rel))
                self.modules[name] = m
                for q, fi in m.functions.items():
                    self.funcs[fi.qualname] = fi

    # ------------------------------------------------------------------ lookup
    def module(self, name):
        if name not in self.modules:
            raise AnalysisError('module %s vanished' % name)
        return self.modules[name]

    def func(self, qualname):
        if qualname not in self.funcs:
            raise AnalysisError('anchor function %s vanished' % qualname)
        return self.funcs[qualname]

    def has_func(self, qualname):
        return qualname in self.funcs

    def inventory(self):
        out = {}
        for name, m in sorted(self.modules.items()):
            out[name] = {'file': m.relpath, 'sha256': m.sha256, 'functions': len(m.functions)}
        return out

    # -------------------------------------------------------------- resolution
    def _follow(self, dotted, depth=0):
        """Follow re-exports: emd.utils.interp_envelope -> emd.sift.interp_envelope."""
        if depth > 8 or not dotted:
            return dotted
        parts = dotted.split('.')
        # longest module prefix that is a repo module
        for i in range(len(parts), 0, -1):
            mod = '.'.join(parts[:i])
            if mod in self.modules:
                rest = parts[i:]
                if not rest:
                    return dotted
                m = self.modules[mod]
                head = rest[0]
                if head in m.functions or head in m.classes:
                    return dotted
                if head in m.imports:
                    return self._follow('.'.join([m.imports[head]] + rest[1:]), depth + 1)
                if mod + '.' + head in self.modules:
                    continue
                return dotted
        return dotted

    def resolve(self, module, expr, func=None):
        """Dotted name of a Name/Attribute chain, following import aliases;
        None when the base is a local variable or not a pure chain."""
        chain = []
        n = expr
        while isinstance(n, ast.Attribute):
            chain.append(n.attr)
            n = n.value
        if not isinstance(n, ast.Name):
            return None
        base = n.id
        chain.reverse()
        f = func
        while f is not None:
            if base in f.local_names():
                # function-local import?  (from scipy import spatial inside a body)
                if not self._is_local_import(f, base):
                    return None
                break
            f = f.parent
        if base in module.imports:
            dotted = '.'.join([module.imports[base]] + chain)
        elif base in module.functions or base in module.classes:
            dotted = '.'.join([module.name, base] + chain)
        elif base in module.assigns:
            dotted = '.'.join([module.name, base] + chain)
        else:
            import builtins
            if hasattr(builtins, base):
                dotted = '.'.join(['builtins', base] + chain)
            else:
                return None
        return self._follow(dotted)

    def _is_local_import(self, f, name):
        for n in walk_local(f.node):
            if isinstance(n, (ast.Import, ast.ImportFrom)):
                for a in n.names:
                    if (a.asname or a.name.split('.')[0]) == name:
                        # also assigned elsewhere? then not a pure import
                        for m in walk_local(f.node):
                            if isinstance(m, ast.Name) and m.id == name and isinstance(m.ctx, ast.Store):
                                return False
                        return name not in f.params
        return False

    def local_def(self, func, name):
        """The unique local assignment `name = <expr>` in func (None if zero or
        several, or if name is a parameter)."""
        if func is None or name in func.all_formals():
            return None
        found = []
        for n in walk_local(func.node):
            if isinstance(n, ast.Assign):
                for t in n.targets:
                    if isinstance(t, ast.Name) and t.id == name:
                        found.append(n.value)
            elif isinstance(n, (ast.AugAssign, ast.AnnAssign)) and isinstance(n.target, ast.Name) \
                    and n.target.id == name:
                found.append(None)
            elif isinstance(n, (ast.For, ast.comprehension)):
                for m in ast.walk(n.target):
                    if isinstance(m, ast.Name) and m.id == name:
                        found.append(None)
        if len(found) == 1 and found[0] is not None:
            return found[0]
        return None

    def resolve_callee(self, module, func, fexpr, depth=0):
        """Resolve the callable expression of a call (or a function value)."""
        if depth > 6:
            return Callee('unknown', None)
        # functools.partial(f, ...) used directly as a value
        if isinstance(fexpr, ast.Call):
            d = self.resolve(module, fexpr.func, func)
            if d == 'functools.partial' and fexpr.args:
                inner = self.resolve_callee(module, func, fexpr.args[0], depth + 1)
                pre_args = list(fexpr.args[1:])
                pre_kwargs = [(k.arg, k.value) for k in fexpr.keywords if k.arg is not None]
                pre_star = [k.value for k in fexpr.keywords if k.arg is None]
                return Callee(inner.kind, inner.dotted, inner.func,
                              inner.pre_args + pre_args, inner.pre_kwargs + pre_kwargs,
                              inner.pre_star + pre_star, via='partial')
            if d == 'builtins.getattr' and len(fexpr.args) >= 2:
                # getattr(mod, <name>) - resolved by the rules that know the table
                return Callee('unknown', 'builtins.getattr')
            return Callee('unknown', None)
        # self.method / cls.method
        if isinstance(fexpr, ast.Attribute) and isinstance(fexpr.value, ast.Name) \
                and fexpr.value.id in ('self', 'cls') and func is not None:
            f = func
            while f is not None and f.cls is None:
                f = f.parent
            if f is not None:
                q = '%s.%s.%s' % (module.name, f.cls, fexpr.attr)
                if q in self.funcs:
                    return Callee('repo', q, self.funcs[q])
            return Callee('unknown', 'self.' + fexpr.attr)
        if isinstance(fexpr, ast.Name) and func is not None:
            # local alias:  f = get_next_imf ; f = functools.partial(...)
            f = func
            while f is not None:
                if fexpr.id in f.local_names() and not self._is_local_import(f, fexpr.id):
                    if fexpr.id in f.all_formals():
                        dflt = f.defaults.get(fexpr.id)
                        if dflt is not None:
                            c = self.resolve_callee(module, f.parent, dflt, depth + 1)
                            if c.kind != 'unknown':
                                c.via = 'default-param'
                                return c
                        return Callee('unknown', None)
                    v = self.local_def(f, fexpr.id)
                    if v is not None:
                        return self.resolve_callee(module, f, v, depth + 1)
                    # nested def
                    q = f.qualname + '.' + fexpr.id
                    if q in self.funcs:
                        return Callee('repo', q, self.funcs[q])
                    return Callee('unknown', None)
                f = f.parent
        d = self.resolve(module, fexpr, func)
        if d is None:
            return Callee('unknown', None)
        if d in self.funcs:
            return Callee('repo', d, self.funcs[d])
        # class constructor
        parts = d.split('.')
        mod = '.'.join(parts[:-1])
        if mod in self.modules and parts[-1] in self.modules[mod].classes:
            init = d + '.__init__'
            return Callee('class', d, self.funcs.get(init))
        if parts[0] == PKG:
            # method on class: emd.sift.SiftConfig.from_yaml_file
            if d in self.funcs:
                return Callee('repo', d, self.funcs[d])
            return Callee('unknown', d)
        return Callee('lib', d)

    # ----------------------------------------------------------------- binding
    def bind(self, call_args, call_keywords, callee, skip_first=None):
        """Bind positional expr list + keyword list to callee formals.
        `callee` is a Callee (partial pre-bindings are honoured)."""
        fi = callee.func
        b = Binding(fi)
        if fi is None:
            return b
        formals = list(fi.params)
        if skip_first is None:
            skip_first = (fi.is_method or fi.is_classmethod or callee.kind == 'class')
        if skip_first and formals:
            formals = formals[1:]
        pos = [(a, 'partial-pos') for a in callee.pre_args] + [(a, 'pos') for a in call_args]
        i = 0
        for a, src in pos:
            if isinstance(a, ast.Starred):
                b.star_args.append(a.value)
                continue
            if i < len(formals):
                b.args[formals[i]] = a
                b.sources[formals[i]] = src
            elif fi.vararg is None:
                b.errors.append('too many positional arguments')
            i += 1
        kws = [(k, v, 'partial-kw') for k, v in callee.pre_kwargs]
        for s in callee.pre_star:
            b.star_kwargs.append(s)
        for k in call_keywords:
            if k.arg is None:
                b.star_kwargs.append(k.value)
            else:
                kws.append((k.arg, k.value, 'kw'))
        for name, v, src in kws:
            if name in fi.params or name in fi.kwonly:
                if name in b.args and b.sources.get(name) in ('pos', 'partial-pos'):
                    b.errors.append('multiple values for %s' % name)
                b.args[name] = v
                b.sources[name] = src
            else:
                b.extra_kwargs[name] = v
                if fi.kwarg is None:
                    b.errors.append('unexpected keyword %s' % name)
        return b

    def bind_call(self, module, func, call):
        callee = self.resolve_callee(module, func, call.func)
        return callee, self.bind(call.args, call.keywords, callee)

    # -------------------------------------------------------------- call graph
    def calls_in(self, fi):
        """All Call nodes in the body of fi (not nested defs)."""
        return [n for n in walk_local(fi.node) if isinstance(n, ast.Call)]

    def callgraph(self):
        """qualname -> set of repo qualnames called (direct, partial, starmap/map
        function arguments, default-param function values)."""
        if getattr(self, '_cg', None) is not None:
            return self._cg
        cg = {}
        for q, fi in self.funcs.items():
            out = set()
            for c in self.calls_in(fi):
                callee = self.resolve_callee(fi.module, fi, c.func)
                if callee.kind in ('repo', 'class') and callee.func is not None:
                    out.add(callee.func.qualname)
                # function values passed as arguments (pool.starmap(f, ...), partial(f), func=f)
                for a in list(c.args) + [k.value for k in c.keywords]:
                    if isinstance(a, (ast.Name, ast.Attribute)):
                        ca = self.resolve_callee(fi.module, fi, a)
                        if ca.kind == 'repo' and ca.func is not None:
                            out.add(ca.func.qualname)
            # nested functions are reachable from their parent
            for q2, f2 in self.funcs.items():
                if f2.parent is fi:
                    out.add(q2)
            cg[q] = out
        self._cg = cg
        return cg

    def reaches(self, src, dst, within=None):
        """Shortest call path from src to dst qualname (list) or None; `within`
        restricts every node of the path to the given module names."""
        cg = self.callgraph()
        if within is not None and self.funcs[src].module.name not in within:
            return None
        from collections import deque
        dq = deque([[src]])
        seen = {src}
        while dq:
            p = dq.popleft()
            if p[-1] == dst:
                return p
            for nx in sorted(cg.get(p[-1], ())):
                if within is not None and self.funcs[nx].module.name not in within:
                    continue
                if nx not in seen:
                    seen.add(nx)
                    dq.append(p + [nx])
        return None


def unparse(node):
    try:
        return ast.unparse(node)
    except Exception:
        return '<%s>' % type(node).__name__


def is_const(node, value=None):
    if not isinstance(node, ast.Constant):
        return False
    return value is None or node.value == value


def splice_function(src, local_qualname, new_def_src):
    """Return `src` with the definition of function `local_qualname` (e.g.
    'get_next_imf' or 'Cycles.add_cycle_metric') replaced by new_def_src
    (decorators of the original are kept unless new_def_src carries its own)."""
    tree = ast.parse(src)
    parts = local_qualname.split('.')
    body = tree.body
    node = None
    for i, p in enumerate(parts):
        node = None
        for n in body:
            if isinstance(n, (ast.FunctionDef, ast.ClassDef)) and n.name == p:
                node = n
                break
        if node is None:
            raise AnalysisError('fixture target %s not found' % local_qualname)
        body = node.body
    lines = src.split('\n')
    start = node.lineno - 1
    end = node.end_lineno
    indent = ' ' * node.col_offset
    new_lines = [(indent + l) if l.strip() else l for l in new_def_src.rstrip('\n').split('\n')]
    return '\n'.join(lines[:start] + new_lines + lines[end:])
