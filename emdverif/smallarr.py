"""Concrete evaluation of *index-construction terms* on tiny shapes (no repository code, no numpy: a 60-line
row-major array model).  Used to decide what a coordinate array such as
    np.tile(np.arange(n), (m, 1)).T.reshape(-1)      np.repeat(np.arange(n), m)
    np.broadcast_to(np.arange(n)[:, None, None], (n, m, k)).reshape(-1)
contains, instead of recognising each spelling.  Array-valued inputs are not modelled; only their `.shape[k]` is,
bound to the chosen small dimensions.  Anything else raises Undecided."""
import itertools

from .paths import is_c, show


class Undecided(Exception):
    pass


ELEMENTWISE = {'numpy.digitize', 'numpy.abs', 'numpy.absolute', 'numpy.sqrt', 'numpy.power', 'numpy.square', 'numpy.exp',
               'numpy.log', 'numpy.sign', 'numpy.floor', 'numpy.ceil', 'numpy.isnan', 'numpy.isfinite', 'numpy.nan_to_num',
               'numpy.searchsorted_'}


class Fault(Undecided):
    """numpy itself raises on this construction for arrays of the evaluated rank (a shape entry that does not exist, an
    impossible reshape, operands that do not broadcast)."""


class SA:
    def __init__(self, shape, data):
        self.shape = tuple(shape)
        self.data = list(data)
        n = 1
        for d in self.shape:
            n *= d
        assert n == len(self.data), (shape, len(self.data))

    def at(self, idx):
        k = 0
        for i, d in zip(idx, self.shape):
            k = k * d + i
        return self.data[k]

    @staticmethod
    def build(shape, f):
        return SA(shape, [f(idx) for idx in itertools.product(*[range(d) for d in shape])])


def _broadcast(a, shape):
    if len(a.shape) > len(shape):
        raise Undecided('broadcast to fewer dimensions')
    pad = (1,) * (len(shape) - len(a.shape)) + a.shape
    for p, s in zip(pad, shape):
        if p != 1 and p != s:
            raise Fault('shapes %r and %r do not broadcast' % (a.shape, shape))
    src = SA(pad, a.data)
    return SA.build(shape, lambda idx: src.at(tuple(0 if p == 1 else i for i, p in zip(idx, pad))))


class SmallEval:
    def __init__(self, dims, bind=None):
        self.dims = tuple(dims)          # value of <array>.shape[k]
        self.bind = dict(bind or {})

    def ev(self, t):
        if t in self.bind:
            return self.bind[t]
        k = t[0]
        if k == 'c':
            return t[1]
        if k in ('tuple', 'list'):
            return tuple(self.ev(x) for x in t[1])
        if k == 'ref' and t[1] == 'numpy.newaxis':
            return None
        if k == 'sub':
            if t[1][0] == 'attr' and t[1][2] == 'shape' and is_c(t[2]) and isinstance(t[2][1], int):
                base = None
                try:
                    base = self.ev(t[1][1])
                except Undecided:
                    pass
                if isinstance(base, SA):
                    if not -len(base.shape) <= t[2][1] < len(base.shape):
                        raise Fault('shape[%d] of a %d-dimensional array does not exist' % (t[2][1], len(base.shape)))
                    return base.shape[t[2][1]]
                if -len(self.dims) <= t[2][1] < len(self.dims):
                    return self.dims[t[2][1]]
                raise Fault('shape[%d] of a %d-dimensional array does not exist' % (t[2][1], len(self.dims)))
            b = self.ev(t[1])
            if isinstance(b, tuple):
                i = self.ev(t[2])
                if isinstance(i, int):
                    return b[i]
                raise Undecided('tuple index')
            if isinstance(b, SA):
                return self._index(b, t[2])
            raise Undecided('subscript of %r' % (b,))
        if k == 'attr':
            b = self.ev(t[1])
            if isinstance(b, SA):
                if t[2] == 'T':
                    return self._transpose(b)
                if t[2] == 'shape':
                    return b.shape
                if t[2] == 'size':
                    return len(b.data)
                if t[2] == 'ndim':
                    return len(b.shape)
            raise Undecided('attribute .%s' % t[2])
        if k == 'bin':
            a, b = self.ev(t[2]), self.ev(t[3])
            import operator
            op = {'+': operator.add, '-': operator.sub, '*': operator.mul, '//': operator.floordiv,
                  '%': operator.mod}.get(t[1])
            if op is None and t[1] in ('**', '/') and (isinstance(a, SA) or isinstance(b, SA)):
                op = lambda x, y: 'o'       # noqa: E731  (value-opaque)
            if op is None:
                raise Undecided('operator %s' % t[1])
            if isinstance(a, SA) or isinstance(b, SA):
                _op0 = op
                op = lambda x, y: _op0(x, y) if isinstance(x, int) and isinstance(y, int) else 'o'      # noqa: E731
            if isinstance(a, int) and isinstance(b, int):
                return op(a, b)
            if isinstance(a, SA) or isinstance(b, SA):
                a = a if isinstance(a, SA) else SA((), [a])
                b = b if isinstance(b, SA) else SA((), [b])
                nd = max(len(a.shape), len(b.shape))
                pa = (1,) * (nd - len(a.shape)) + a.shape
                pb = (1,) * (nd - len(b.shape)) + b.shape
                shape = tuple(max(x, y) for x, y in zip(pa, pb))
                aa, bb = _broadcast(a, shape), _broadcast(b, shape)
                return SA(shape, [op(x, y) for x, y in zip(aa.data, bb.data)])
            raise Undecided('arithmetic on %r, %r' % (a, b))
        if k == 'meth':
            b = self.ev(t[2])
            if isinstance(b, SA):
                if t[1] in ('ravel', 'flatten') and not t[3]:
                    return SA((len(b.data),), b.data)
                if t[1] == 'reshape':
                    dims = t[3]
                    if len(dims) == 1 and dims[0][0] in ('tuple', 'list'):
                        dims = dims[0][1]
                    return self._reshape(b, [self.ev(d) for d in dims])
                if t[1] in ('copy', 'astype', 'toarray', 'todense', 'tocsr', 'tocsc', 'tocoo'):
                    return b
                if t[1] in ('sum', 'mean') and len(b.shape) == 2:
                    ax = dict(t[4]).get('axis', t[3][0] if t[3] else ('c', None))
                    if ax == ('c', 0):
                        return SA((1, b.shape[1]), ['o'] * b.shape[1])        # matrix semantics: the axis is kept
                    if ax == ('c', 1):
                        return SA((b.shape[0], 1), ['o'] * b.shape[0])
                    raise Undecided('reduction axis')
                if t[1] == 'transpose' and not t[3]:
                    return self._transpose(b)
                if t[1] == 'repeat' and t[3]:
                    return self._repeat(b, self.ev(t[3][0]), dict(t[4]).get('axis', t[3][1] if len(t[3]) > 1 else None))
            raise Undecided('method .%s' % t[1])
        if k == 'call':
            name = t[1]
            kw = dict(t[3])
            if name in ('numpy.sum', 'numpy.mean') and t[2] and t[2][0][0] not in ('list', 'tuple', 'comp'):
                # np.sum(M, axis=k) delegates to M.sum(axis=k)
                return self.ev(('meth', name.split('.')[-1], t[2][0], tuple(t[2][1:]), tuple(t[3])))
            if name in ('scipy.sparse.coo_matrix', 'scipy.sparse.csr_matrix', 'scipy.sparse.csc_matrix') and t[2] \
                    and t[2][0][0] == 'tuple' and len(t[2][0][1]) == 2 and t[2][0][1][1][0] == 'tuple':
                data = self.ev(t[2][0][1][0])
                rc = [self.ev(x) for x in t[2][0][1][1][1]]
                shp = self.ev(kw['shape']) if 'shape' in kw else (self.ev(t[2][1]) if len(t[2]) > 1 else None)
                vs = [data] + rc
                if not all(isinstance(v, SA) for v in vs) or shp is None:
                    raise Undecided('sparse constructor arguments')
                if any(len(v.shape) != 1 for v in vs):
                    raise Fault('sparse constructor: data and coordinates must be 1-D, got shapes %s' % [v.shape for v in vs])
                if len({len(v.data) for v in vs}) != 1:
                    raise Fault('sparse constructor: data, row and column vectors have lengths %s' % [len(v.data) for v in vs])
                if not (isinstance(shp, tuple) and len(shp) == 2 and all(isinstance(x, int) for x in shp)):
                    raise Undecided('sparse shape')
                return SA(shp, ['o'] * (shp[0] * shp[1]))
            if name in ELEMENTWISE and t[2]:
                # value-opaque, shape-preserving (for shape reasoning on bound input arrays)
                a = self.ev(t[2][0])
                if isinstance(a, SA):
                    return SA(a.shape, ['o'] * len(a.data))
            if name in ('emd.support.ensure_2d', 'emd.support.ensure_vector', 'emd.support.ensure_1d_with_singleton'):
                lst = t[2][0] if t[2] else kw.get('to_check')
                if lst is not None and lst[0] in ('list', 'tuple'):
                    vals = tuple(self.ev(x) for x in lst[1])
                    return vals[0] if len(vals) == 1 else vals
            if name == 'numpy.arange' and len(t[2]) == 1:
                n = self.ev(t[2][0])
                if isinstance(n, int):
                    return SA((n,), range(n))
            if name == 'builtins.len' and len(t[2]) == 1:
                v = self.ev(t[2][0])
                if isinstance(v, SA) and v.shape:
                    return v.shape[0]
                if isinstance(v, tuple):
                    return len(v)
            if name == 'numpy.tile' and len(t[2]) == 2:
                a, reps = self.ev(t[2][0]), self.ev(t[2][1])
                if isinstance(reps, SA):
                    reps = tuple(reps.data)          # an array of repetition counts
                if isinstance(a, tuple):
                    a = SA((len(a),), list(a))       # np.tile of a tuple treats it as a 1-D array
                reps = (reps,) if isinstance(reps, int) else tuple(reps)
                if isinstance(a, SA) and all(isinstance(r, int) for r in reps):
                    nd = max(len(a.shape), len(reps))
                    sh = (1,) * (nd - len(a.shape)) + a.shape
                    rp = (1,) * (nd - len(reps)) + reps
                    src = SA(sh, a.data)
                    out = tuple(s * r for s, r in zip(sh, rp))
                    return SA.build(out, lambda idx: src.at(tuple(i % s for i, s in zip(idx, sh))))
            if name == 'numpy.repeat' and len(t[2]) >= 2:
                a = self.ev(t[2][0])
                if isinstance(a, SA):
                    return self._repeat(a, self.ev(t[2][1]), kw.get('axis', t[2][2] if len(t[2]) > 2 else None))
            if name == 'numpy.broadcast_to' and len(t[2]) == 2:
                a, sh = self.ev(t[2][0]), self.ev(t[2][1])
                if isinstance(sh, SA) and len(sh.shape) != 1:
                    raise Fault('np.broadcast_to: the shape argument is a %d-dimensional array (arguments swapped?)' % len(sh.shape))
                if isinstance(a, tuple) and all(isinstance(x, int) for x in a):
                    a = SA((len(a),), list(a))
                if isinstance(a, SA) and isinstance(sh, tuple) and all(isinstance(x, int) for x in sh):
                    return _broadcast(a, sh)
            if name in ('numpy.reshape',) and len(t[2]) == 2:
                a, sh = self.ev(t[2][0]), self.ev(t[2][1])
                if isinstance(a, SA):
                    return self._reshape(a, list(sh) if isinstance(sh, tuple) else [sh])
            if name in ('numpy.ravel',) and len(t[2]) == 1:
                a = self.ev(t[2][0])
                if isinstance(a, SA):
                    return SA((len(a.data),), a.data)
            if name in ('numpy.transpose',) and len(t[2]) == 1:
                a = self.ev(t[2][0])
                if isinstance(a, SA):
                    return self._transpose(a)
            if name in ('numpy.asarray', 'numpy.array') and len(t[2]) == 1:
                a = self.ev(t[2][0])
                if isinstance(a, SA):
                    return a
            if name == 'numpy.indices' and len(t[2]) == 1:
                sh = self.ev(t[2][0])
                if isinstance(sh, tuple) and all(isinstance(x, int) for x in sh):
                    return tuple(SA.build(sh, (lambda ax: (lambda idx: idx[ax]))(ax)) for ax in range(len(sh)))
            if name == 'numpy.meshgrid' and kw.get('indexing') == ('c', 'ij'):
                vs = [self.ev(x) for x in t[2]]
                if all(isinstance(v, SA) and len(v.shape) == 1 for v in vs):
                    sh = tuple(v.shape[0] for v in vs)
                    return tuple(SA.build(sh, (lambda ax, v: (lambda idx: v.data[idx[ax]]))(ax, v))
                                 for ax, v in enumerate(vs))
            if name == 'numpy.expand_dims' and len(t[2]) == 2:
                a, ax = self.ev(t[2][0]), self.ev(t[2][1])
                if isinstance(a, SA) and isinstance(ax, int):
                    sh = list(a.shape)
                    sh.insert(ax if ax >= 0 else len(sh) + 1 + ax, 1)
                    return SA(sh, a.data)
            raise Undecided('call %s' % name)
        raise Undecided('term %s' % show(t)[:50])

    # ------------------------------------------------------------------
    def _transpose(self, b):
        sh = tuple(reversed(b.shape))
        return SA.build(sh, lambda idx: b.at(tuple(reversed(idx))))

    def _reshape(self, b, dims):
        if not all(isinstance(d, int) for d in dims):
            raise Undecided('reshape to %r' % (dims,))
        n = len(b.data)
        known = 1
        for d in dims:
            if d != -1:
                known *= d
        if any(d < -1 for d in dims):
            raise Fault('reshape(%s): negative dimensions other than -1 are not allowed' % ', '.join(map(str, dims)))
        if dims.count(-1) > 1 or known == 0 or n % known or (dims.count(-1) == 0 and known != n):
            raise Fault('cannot reshape %d elements to %r' % (n, dims))
        sh = tuple(n // known if d == -1 else d for d in dims)
        return SA(sh, b.data)

    def _repeat(self, a, k, axis):
        if isinstance(axis, tuple):
            axis = self.ev(axis)
        if not isinstance(k, int):
            raise Undecided('repeat count')
        if axis is None:
            return SA((len(a.data) * k,), [x for x in a.data for _ in range(k)])
        if not isinstance(axis, int):
            raise Undecided('repeat axis')
        axis = axis % len(a.shape)
        sh = tuple(d * k if i == axis else d for i, d in enumerate(a.shape))
        return SA.build(sh, lambda idx: a.at(tuple(j // k if i == axis else j for i, j in enumerate(idx))))

    def _index(self, b, idx):
        items = idx[1] if idx[0] == 'tuple' else (idx,)
        out_shape = []
        pos = 0
        sel = []          # per source axis: ('all',) | ('int', i)
        layout = []       # output axes: ('src', axis) | ('new',)
        for it in items:
            if it[0] == 'slice':
                if not all(is_c(x) and x[1] is None for x in it[1:4]):
                    if pos >= len(b.shape):
                        raise Fault('too many indices for a %d-dimensional array' % len(b.shape))
                    bounds = [None if (is_c(x) and x[1] is None) else self.ev(x) for x in it[1:4]]
                    if not all(x is None or isinstance(x, int) for x in bounds):
                        raise Undecided('partial slice')
                    sel.append(('range', list(range(b.shape[pos]))[slice(*bounds)]))
                    layout.append(('src', pos))
                    pos += 1
                    continue
                if pos >= len(b.shape):
                    raise Fault('too many indices for a %d-dimensional array' % len(b.shape))
                sel.append(('all',))
                layout.append(('src', pos))
                pos += 1
            elif (is_c(it) and it[1] is None) or it == ('ref', 'numpy.newaxis'):
                layout.append(('new',))
            elif is_c(it) and isinstance(it[1], int):
                sel.append(('int', it[1] % b.shape[pos]))
                pos += 1
            else:
                raise Undecided('index %s' % show(it)[:30])
        while pos < len(b.shape):
            sel.append(('all',))
            layout.append(('src', pos))
            pos += 1
        for lay in layout:
            if lay[0] == 'new':
                out_shape.append(1)
            elif sel[lay[1]][0] == 'range':
                out_shape.append(len(sel[lay[1]][1]))
            else:
                out_shape.append(b.shape[lay[1]])

        def get(oidx):
            src = [0] * len(b.shape)
            for ax, s_ in enumerate(sel):
                if s_[0] == 'int':
                    src[ax] = s_[1]
            for o, lay in zip(oidx, layout):
                if lay[0] == 'src':
                    src[lay[1]] = sel[lay[1]][1][o] if sel[lay[1]][0] == 'range' else o
            return b.at(tuple(src))
        return SA.build(tuple(out_shape), get)


def flat_index_of_axis0(term, ndim):
    """Does `term` (flattened) hold, for every element of a row-major [d0 x d1 x ...] array, its index along axis 0?
    Evaluated for two small shapes.  -> True / False / raises Undecided."""
    for dims in ((3, 2, 2)[:ndim], (2, 3, 4)[:ndim]):
        v = SmallEval(dims).ev(term)
        if not isinstance(v, SA):
            raise Undecided('not an array')
        flat = list(v.data)
        inner = 1
        for d in dims[1:]:
            inner *= d
        want = [i for i in range(dims[0]) for _ in range(inner)]
        if flat != want:
            return False
    return True


def flat_lengths(terms, ndim, bind_shapes):
    """Lengths of the flattened terms for two small shapes.  bind_shapes: term -> tuple of axis positions, e.g.
    S('infr') -> (0, 1) means an array of shape (d0, d1).  -> list (one per shape) of lists of lengths.
    Raises Fault when numpy would raise on the construction, Undecided outside the model."""
    out = []
    for dims in ((3, 2, 2)[:ndim], (2, 3, 4)[:ndim]):
        bind = {}
        for t, axes in bind_shapes.items():
            sh = tuple(a[1] if isinstance(a, tuple) else dims[a] for a in axes)      # ('lit', n) = a fixed length
            n = 1
            for d in sh:
                n *= d
            bind[t] = SA(sh, ['o'] * n)
        ev = SmallEval(dims, bind)
        row = []
        for t in terms:
            v = ev.ev(t)
            if not isinstance(v, SA):
                raise Undecided('not an array')
            row.append((len(v.data), v.shape))
        out.append(row)
    return out


def result_shapes(term, ndim, bind_shapes):
    """Shape of `term` for two small input shapes (inputs bound as value-opaque arrays).  Raises Fault / Undecided."""
    out = []
    for dims in ((3, 2, 2)[:ndim], (2, 3, 4)[:ndim]):
        bind = {}
        for t, axes in bind_shapes.items():
            sh = tuple(a[1] if isinstance(a, tuple) else dims[a] for a in axes)
            n = 1
            for d in sh:
                n *= d
            bind[t] = SA(sh, ['o'] * n)
        v = SmallEval(dims, bind).ev(term)
        if not isinstance(v, SA):
            raise Undecided('not an array')
        out.append((dims, v.shape))
    return out
