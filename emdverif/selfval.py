"""Validation of the checker itself (thorough tier and selftest/run.py).

Breaking edits (the hand-written catalogue and the independently seeded patches under /verif/seeded) are applied to
an in-memory copy of the analysed modules; the owning property's rules must report a VIOLATION on the variant.
Benign edits must leave every listed property silent.  Nothing is written to /repo; patches are applied in a
temporary directory outside /repo and /verif which is removed afterwards."""
import contextlib
import glob
import io
import json
import os
import shutil
import subprocess
import sys
import tempfile

from . import report

VERIF = report.VERIF
REPO = os.environ.get('EMD_VERIF_REPO', '/repo')


def _catalogue():
    sys.path.insert(0, VERIF)
    from selftest.catalogue import CATALOGUE
    return CATALOGUE


def _run_variant(prop, overrides):
    from . import cli
    buf = io.StringIO()
    saved = report.EVIDENCE_DIR
    report.EVIDENCE_DIR = tempfile.mkdtemp(prefix='emdverif-selfval-')
    try:
        with contextlib.redirect_stdout(buf):
            rc = cli.run_property(prop, 'quick', 0, overrides=overrides, quiet=True)
    finally:
        shutil.rmtree(report.EVIDENCE_DIR, ignore_errors=True)
        report.EVIDENCE_DIR = saved
    return rc, buf.getvalue()


def run_entry(args):
    entry, props = args
    rel = entry['file']
    try:
        with open(os.path.join(REPO, rel)) as f:
            src = f.read()
    except OSError:
        return entry['id'], 'SKIP', 'file missing', ''
    if src.count(entry['old']) != 1:
        return entry['id'], 'SKIP', 'anchor text occurs %d times' % src.count(entry['old']), ''
    new = src.replace(entry['old'], entry['new'])
    try:
        compile(new, rel, 'exec')
    except SyntaxError as e:
        return entry['id'], 'SKIP', 'variant does not compile: %s' % e, ''
    results, outs = {}, {}
    for prop in props:
        results[prop], outs[prop] = _run_variant(prop, {rel: new})
    if entry['kind'] == 'breaking':
        ok = any(rc == 1 for rc in results.values())
        want = entry.get('expect')
        if ok and want:
            ok = any(want in o for o in outs.values())
        status = 'OK' if ok else 'MISS'
    else:
        status = 'OK' if all(rc == 0 for rc in results.values()) else 'FALSE-ALARM'
    detail = ' '.join('%s=%d' % kv for kv in results.items())
    return entry['id'], status, detail, ('\n'.join(outs.values()) if status != 'OK' else '')


def patch_overrides(patch_path):
    """Apply a unified diff to a temporary copy of the analysed package; returns relpath -> new source or None."""
    tmp = tempfile.mkdtemp(prefix='emdverif-seed-')
    try:
        shutil.copytree(os.path.join(REPO, 'emd'), os.path.join(tmp, 'emd'),
                        ignore=shutil.ignore_patterns('tests', '__pycache__', '*.pyc'))
        r = subprocess.run(['git', 'apply', os.path.abspath(patch_path)], cwd=tmp, capture_output=True, text=True)
        if r.returncode != 0:
            return None
        out = {}
        for path in glob.glob(os.path.join(tmp, 'emd', '*.py')):
            rel = os.path.relpath(path, tmp)
            with open(path) as f:
                new = f.read()
            with open(os.path.join(REPO, rel)) as f:
                old = f.read()
            if new != old:
                out[rel] = new
        return out
    finally:
        shutil.rmtree(tmp, ignore_errors=True)


def run_seed(args):
    seed_dir, prop = args
    name = os.path.basename(seed_dir)
    ov = patch_overrides(os.path.join(seed_dir, 'patch.diff'))
    if not ov:
        return name, 'SKIP', 'patch does not apply to the current tree', ''
    rc, out = _run_variant(prop, ov)
    return name, ('OK' if rc == 1 else 'MISS'), '%s=%d' % (prop, rc), (out if rc != 1 else '')


def seeds_for(prop):
    out = []
    for d in sorted(glob.glob(os.path.join(VERIF, 'seeded', 'C*'))):
        try:
            meta = json.load(open(os.path.join(d, 'meta.json')))
        except (OSError, ValueError):
            continue
        if prop in meta.get('current_evaluation', {}).get('detected_by', []):
            out.append(d)
    return out


def run_seed_mech(args):
    """a seeded change with a mechanical rewrite applied on top of it: the check must still report it"""
    seed_dir, prop, kind = args
    from . import mechvar
    name = '%s+%s' % (os.path.basename(seed_dir), kind)
    ov = patch_overrides(os.path.join(seed_dir, 'patch.diff'))
    if not ov:
        return name, 'SKIP', ''
    try:
        ov2 = mechvar.overrides(kind, REPO, sources=ov)
    except Exception as e:
        return name, 'SKIP', 'rewrite failed: %r' % (e,)
    rc, out = _run_variant(prop, ov2)
    return name, ('OK' if rc == 1 else 'MISS'), (out if rc != 1 else '')


def run_mech(args):
    """one mechanical rewrite of the whole current tree (mechvar.py): the check must exit 0 and discharge exactly the
    obligations it discharges on the unchanged tree"""
    import re
    kind, prop, base = args
    from . import mechvar
    try:
        ov = mechvar.overrides(kind, REPO)
    except Exception as e:            # a source the rewriter cannot handle is not the check's fault
        return kind, 'SKIP', 'rewrite failed: %r' % (e,)
    rc, out = _run_variant(prop, ov)
    m = re.search(r'obligations=(\d+) pass=(\d+)', out)
    cnt = m.group(0) if m else ''
    if rc != 0:
        return kind, 'ALARM', out
    if base and cnt != base:
        return kind, 'COUNT', 'on the rewritten tree: %s, on the unchanged tree: %s' % (cnt, base)
    return kind, 'OK', cnt


def validate(prop, jobs=16):
    """Run the owned part of the catalogue and the seeds for `prop`. Returns (summary dict, fixtures list)."""
    import concurrent.futures as cf
    cat = [e for e in _catalogue() if prop in e['props']]
    tasks_cat = [(e, [prop] if e['kind'] == 'breaking' and e.get('expect') and prop not in e['props'][:1] and False
                  else ([prop])) for e in cat]
    # a breaking entry names several properties of which at least one must fire; evaluate it for this property only
    # when this property is the first listed (its owner); benign entries are evaluated for this property always
    tasks_cat = []
    for e in cat:
        if e['kind'] == 'benign':
            tasks_cat.append((e, [prop]))
        elif e['props'][0] == prop:
            e2 = dict(e)
            e2['expect'] = None
            tasks_cat.append((e2, [prop]))
    tasks_seed = [(d, prop) for d in seeds_for(prop)]
    tasks_ben = [(f, prop) for f in benign_files()]
    tasks_mut = [(m, prop) for m in mutation_corpus(prop)]
    import re
    from . import mechvar
    rc0, out0 = _run_variant(prop, {})
    m0 = re.search(r'obligations=(\d+) pass=(\d+)', out0)
    base_cnt = m0.group(0) if m0 else ''
    tasks_mech = [(k, prop, base_cnt) for k in mechvar.KINDS]
    own_seeds = [d for d in seeds_for(prop) if os.path.basename(d).startswith(prop + '-')]
    tasks_sm = [(d, prop, k) for d in own_seeds for k in mechvar.KINDS]
    res_cat, res_seed, res_ben, res_mut = [], [], [], []
    with cf.ProcessPoolExecutor(max_workers=jobs) as ex:
        f5 = [ex.submit(run_mech, t) for t in tasks_mech]
        f6 = [ex.submit(run_seed_mech, t) for t in tasks_sm]
        f1 = [ex.submit(run_entry, t) for t in tasks_cat]
        f2 = [ex.submit(run_seed, t) for t in tasks_seed]
        f3 = [ex.submit(run_benign, t) for t in tasks_ben]
        f4 = [ex.submit(run_mutant, t) for t in tasks_mut]
        res_cat = [f.result() for f in f1]
        res_seed = [f.result() for f in f2]
        res_ben = [f.result() for f in f3]
        res_mut = [f.result() for f in f4]
        res_mech = [f.result() for f in f5]
        res_sm = [f.result() for f in f6]
    fixtures = []
    summ = {'mutants_breaking_run': 0, 'mutants_breaking_correct': 0, 'mutants_benign_run': 0,
            'mutants_benign_correct': 0, 'seeds_run': 0, 'seeds_detected': 0, 'skipped': 0}
    kinds = {e['id']: e['kind'] for e in cat}
    for mid, status, detail, text in res_cat:
        if status == 'SKIP':
            summ['skipped'] += 1
            continue
        k = 'mutants_breaking' if kinds[mid] == 'breaking' else 'mutants_benign'
        summ[k + '_run'] += 1
        if status == 'OK':
            summ[k + '_correct'] += 1
        else:
            fixtures.append({'name': 'catalogue %s (%s)' % (mid, kinds[mid]), 'ok': False,
                             'why': 'breaking edit not reported' if status == 'MISS' else 'benign edit raised an alarm: '
                             + ' | '.join(l for l in text.split('\n') if l.startswith(('VIOLATION', 'ANALYSIS')))[:300]})
    for name, status, detail, text in res_seed:
        if status == 'SKIP':
            summ['skipped'] += 1
            continue
        summ['seeds_run'] += 1
        if status == 'OK':
            summ['seeds_detected'] += 1
        else:
            fixtures.append({'name': 'seeded change %s' % name, 'ok': False, 'why': 'seeded breaking change not reported'})
    summ['refactorings_run'] = 0
    summ['refactorings_silent'] = 0
    for name, status, text in res_ben:
        if status == 'SKIP':
            summ['skipped'] += 1
            continue
        summ['refactorings_run'] += 1
        if status == 'OK':
            summ['refactorings_silent'] += 1
        else:
            fixtures.append({'name': 'behaviour-preserving refactoring %s' % name, 'ok': False,
                             'why': 'the check raised an alarm: ' + ' | '.join(
                                 l for l in text.split('\n') if l.startswith(('VIOLATION', 'ANALYSIS')))[:300]})
    summ['corpus_mutants_run'] = summ['corpus_mutants_as_expected'] = 0
    for mid, status, text in res_mut:
        if status == 'SKIP':
            summ['skipped'] += 1
            continue
        summ['corpus_mutants_run'] += 1
        if status == 'OK':
            summ['corpus_mutants_as_expected'] += 1
        else:
            fixtures.append({'name': 'mutation corpus %s' % mid, 'ok': False,
                             'why': ('a mutant this check used to report is no longer reported' if status == 'MISS' else
                                     'a mutant triaged as behaviour-preserving raises an alarm: ' + ' | '.join(
                                         l for l in text.split('\n') if l.startswith(('VIOLATION', 'ANALYSIS')))[:300])})
    summ['rewritten_seeds_run'] = summ['rewritten_seeds_detected'] = 0
    for name, status, text in res_sm:
        if status == 'SKIP':
            summ['skipped'] += 1
            continue
        summ['rewritten_seeds_run'] += 1
        if status == 'OK':
            summ['rewritten_seeds_detected'] += 1
        else:
            fixtures.append({'name': 'seeded change under a mechanical rewrite %s' % name, 'ok': False,
                             'why': 'a seeded breaking change is no longer reported once the tree is rewritten '
                                    '(the rule depends on a spelling)'})
    summ['mechanical_rewrites_run'] = summ['mechanical_rewrites_silent_same_obligations'] = 0
    for kind, status, text in res_mech:
        if status == 'SKIP':
            summ['skipped'] += 1
            continue
        summ['mechanical_rewrites_run'] += 1
        if status == 'OK':
            summ['mechanical_rewrites_silent_same_obligations'] += 1
        else:
            fixtures.append({'name': 'mechanical rewrite %s' % kind, 'ok': False,
                             'why': ('the check raised an alarm on a behaviour-preserving rewrite: ' + ' | '.join(
                                 l for l in text.split('\n') if l.startswith(('VIOLATION', 'ANALYSIS')))[:300])
                             if status == 'ALARM' else 'the check discharges different obligations ' + text})
    return summ, fixtures


def mutation_corpus(prop):
    """Stored single-site mutants (selftest/mutation_corpus.json, exported from the mutation experiment): those this
    property's check reported when the corpus was frozen must still be reported ('detect'), those triaged by hand as
    behaviour-preserving must stay silent ('equivalent')."""
    f = os.path.join(VERIF, 'selftest', 'mutation_corpus.json')
    try:
        d = json.load(open(f))
    except (OSError, ValueError):
        return []
    return [m for m in d['mutants'] if prop in m.get('detect', ()) or prop in m.get('equivalent', ())]


def run_mutant(args):
    m, prop = args
    try:
        with open(os.path.join(REPO, m['file'])) as f:
            src = f.read()
    except OSError:
        return m['id'], 'SKIP', ''
    if src[m['start']:m['end']] != m['old']:
        # the file changed since the corpus was frozen: locate the unique occurrence of the context instead
        ctx_ = m.get('context')
        if not ctx_ or src.count(ctx_) != 1:
            return m['id'], 'SKIP', ''
        a = src.index(ctx_) + m['context_offset']
        if src[a:a + len(m['old'])] != m['old']:
            return m['id'], 'SKIP', ''
        new = src[:a] + m['new'] + src[a + len(m['old']):]
    else:
        new = src[:m['start']] + m['new'] + src[m['end']:]
    rc, out = _run_variant(prop, {m['file']: new})
    want_detect = prop in m.get('detect', ())
    ok = (rc == 1) if want_detect else (rc == 0)
    return m['id'], ('OK' if ok else ('MISS' if want_detect else 'ALARM')), ('' if ok else out)


def benign_files():
    import glob
    return sorted(glob.glob(os.path.join(VERIF, 'benign', '*.diff')))


def run_benign(args):
    """A behaviour-preserving refactoring (differentially tested by its author): the check must stay silent."""
    f, prop = args
    name = os.path.basename(f)[:-5]
    ov = patch_overrides(f)
    if not ov:
        return name, 'SKIP', 'patch does not apply to the current tree'
    rc, out = _run_variant(prop, ov)
    return name, ('OK' if rc == 0 else 'ALARM'), out
