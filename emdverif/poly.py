"""D1 - linear / polynomial normal forms of terms.

A term is normalised to a polynomial with rational coefficients over *atoms*;
an atom is the canonical string of an opaque sub-term (a parameter, an
un-inlined call with canonicalised arguments, a havocked loop variable ...).
Two terms are algebraically equal iff their polynomials are equal.  Shape-only
operations (`x[:, None]`, `.copy()`, `np.array(x)`, `ensure_*`) are identities
of this algebra; what they do to *shapes* is judged by other rules (C19).
"""
from fractions import Fraction

from .paths import is_c, show

IDENTITY_METHODS = {'copy', 'astype', 'squeeze', 'flatten', 'ravel', 'toarray', 'todense', 'view'}
IDENTITY_CALLS = {'numpy.array', 'numpy.asarray', 'numpy.asanyarray', 'numpy.squeeze', 'numpy.atleast_2d',
                  'numpy.ascontiguousarray', 'numpy.copy', 'builtins.float',
                  'emd.support.ensure_1d_with_singleton', 'emd.support.ensure_2d', 'emd.support.ensure_vector'}


C0 = ('c', 0)
CALL_ALIASES = {'numpy.absolute': 'numpy.abs', 'builtins.abs': 'numpy.abs', 'numpy.fabs': 'numpy.abs',
                'builtins.sum': 'numpy.sum', 'builtins.max': 'numpy.max', 'builtins.min': 'numpy.min',
                'builtins.any': 'numpy.any', 'builtins.all': 'numpy.all', 'numpy.alltrue': 'numpy.all',
                'numpy.amax': 'numpy.max', 'numpy.amin': 'numpy.min'}
DROPPED_KWARGS = {('numpy.log10', 'where'), ('numpy.log', 'where')}
REDUCTION_METHODS = {'sum', 'mean', 'std', 'var', 'max', 'min', 'any', 'all', 'prod', 'cumsum'}


class Poly:
    __slots__ = ('m',)

    def __init__(self, m=None):
        self.m = {k: v for k, v in (m or {}).items() if v != 0}

    @staticmethod
    def const(c):
        return Poly({(): Fraction(c)})

    @staticmethod
    def atom(name):
        return Poly({((name, 1),): Fraction(1)})

    def __add__(self, o):
        m = dict(self.m)
        for k, v in o.m.items():
            m[k] = m.get(k, 0) + v
        return Poly(m)

    def __neg__(self):
        return Poly({k: -v for k, v in self.m.items()})

    def __sub__(self, o):
        return self + (-o)

    def __mul__(self, o):
        m = {}
        for k1, v1 in self.m.items():
            for k2, v2 in o.m.items():
                d = dict(k1)
                for a, p in k2:
                    d[a] = d.get(a, 0) + p
                k = tuple(sorted((a, p) for a, p in d.items() if p != 0))
                m[k] = m.get(k, 0) + v1 * v2
        return Poly(m)

    def scale(self, c):
        return Poly({k: v * c for k, v in self.m.items()})

    def is_const(self):
        return all(k == () for k in self.m)

    def const_value(self):
        return self.m.get((), Fraction(0))

    def is_zero(self):
        return not self.m

    def single_monomial(self):
        if len(self.m) == 1:
            (k, v), = self.m.items()
            return k, v
        return None

    def inverse(self):
        sm = self.single_monomial()
        if sm is None:
            return None
        k, v = sm
        return Poly({tuple((a, -p) for a, p in k): 1 / v})

    def pow(self, n):
        if n == 0:
            return Poly.const(1)
        if n < 0:
            inv = self.inverse()
            return None if inv is None else inv.pow(-n)
        r = Poly.const(1)
        for _ in range(n):
            r = r * self
        return r

    def atoms(self):
        return {a for k in self.m for a, _ in k}

    def coeff_of(self, atom):
        """Coefficient of the degree-1 monomial `atom` (Fraction) and the rest."""
        k = ((atom, 1),)
        return self.m.get(k, Fraction(0))

    def __eq__(self, o):
        return isinstance(o, Poly) and self.m == o.m

    def __hash__(self):
        return hash(tuple(sorted(self.m.items())))

    def __str__(self):
        if not self.m:
            return '0'
        parts = []
        for k, v in sorted(self.m.items(), key=lambda kv: (len(kv[0]), str(kv[0]))):
            mon = '*'.join(a if p == 1 else '%s^%d' % (a, p) for a, p in k)
            if not mon:
                parts.append(str(v))
            elif v == 1:
                parts.append(mon)
            elif v == -1:
                parts.append('-' + mon)
            else:
                parts.append('%s*%s' % (v, mon))
        return ' + '.join(parts).replace('+ -', '- ')


def _frac(v):
    if isinstance(v, bool):
        return Fraction(int(v))
    if isinstance(v, int):
        return Fraction(v)
    if isinstance(v, float):
        if v != v or v in (float('inf'), float('-inf')):
            return None
        return Fraction(repr(v))
    return None


class Algebra:
    """Normaliser. `single_col` is a predicate on canonical atom strings telling
    which atoms denote single-column arrays (sum over columns = identity);
    `linear_calls` maps dotted names of opaque *linear* operators to a label."""

    def __init__(self, identity_calls=None, single_col=None, opaque_repo=True, rewrite=None):
        self.identity_calls = set(IDENTITY_CALLS) | set(identity_calls or ())
        self.single_col = single_col or (lambda term: False)
        self.atom_terms = {}
        self.rewrite = rewrite        # optional term -> term|None hook applied first
        self._cache = {}

    # ------------------------------------------------------------------ atoms
    def atom(self, term):
        key = self.canon(term, top_arith=False)
        self.atom_terms.setdefault(key, term)
        return Poly.atom(key)

    def canon(self, t, top_arith=True):
        """Canonical string of a term, with arithmetic children normalised."""
        if not isinstance(t, tuple) or not t:
            return repr(t)
        k = t[0]
        if k == 'c':
            f = _frac(t[1]) if not isinstance(t[1], bool) else None
            return str(f) if f is not None else repr(t[1])
        if k == 's':
            return t[1]
        if k == 'bv':
            return '$' + t[1]
        if k == 'ref':
            return t[1]
        if top_arith and (k in ('bin', 'un') or self._is_arith_call(t)):
            p = self.poly(t)
            if p is not None:
                sm = p.single_monomial()
                if sm is not None and sm[1] == 1 and len(sm[0]) == 1 and sm[0][0][1] == 1:
                    return sm[0][0][0]
                return 'P{%s}' % p
        if k == 'call':
            name = CALL_ALIASES.get(t[1], t[1])
            kws = [(n, v) for n, v in t[3] if (name, n) not in DROPPED_KWARGS]
            a = [self.canon(x) for x in t[2]] + ['%s=%s' % (n, self.canon(v)) for n, v in kws]
            return '%s(%s)' % (name, ','.join(a))
        if k == 'meth':
            if t[1] in IDENTITY_METHODS:
                return self.canon(t[2])
            if t[1] in REDUCTION_METHODS:
                return self.canon(('call', 'numpy.' + t[1], (t[2],) + tuple(t[3]), t[4]))
            a = [self.canon(x) for x in t[3]] + ['%s=%s' % (n, self.canon(v)) for n, v in t[4]]
            return '%s.%s(%s)' % (self.canon(t[2]), t[1], ','.join(a))
        if k == 'sub':
            if _shape_only_index(t[2]):
                return self.canon(t[1])
            return '%s[%s]' % (self.canon(t[1]), self.canon(t[2]))
        if k == 'attr':
            return '%s.%s' % (self.canon(t[1]), t[2])
        if k in ('tuple', 'list', 'set'):
            return '%s(%s)' % (k[0], ','.join(self.canon(x) for x in t[1]))
        if k == 'dict':
            return 'd{%s}' % ','.join('%s:%s' % (self.canon(a), self.canon(b)) for a, b in t[1])
        if k == 'slice':
            return ':'.join(self.canon(x) for x in t[1:4])
        if k == 'cmp':
            op, a, b = t[1], t[2], t[3]
            if op in ('>', '>='):
                op, a, b = {'>': '<', '>=': '<='}[op], b, a
            return '(%s%s%s)' % (self.canon(a), op, self.canon(b))
        if k in ('and', 'or'):
            return '(%s)' % (' %s ' % k).join(self.canon(x) for x in t[1])
        if k == 'comp':
            gens = ';'.join('%s in %s if %s' % (self.canon(v), self.canon(it), ','.join(self.canon(c) for c in cs))
                            for v, it, cs in t[3])
            return '[%s|%s]' % (self.canon(t[2]), gens)
        if k == 'setitem':
            return 'set(%s,%s,%s)' % (self.canon(t[1]), self.canon(t[2]), self.canon(t[3]))
        if k == 'mut':
            return 'mut(%s,%s,%s)' % (t[1], self.canon(t[2]), ','.join(self.canon(x) for x in t[3]))
        if k == 'ifexp':
            return 'if(%s,%s,%s)' % (self.canon(t[1]), self.canon(t[2]), self.canon(t[3]))
        return '%s(%s)' % (k, ','.join(self.canon(x) if isinstance(x, tuple) else repr(x) for x in t[1:]))

    def _is_arith_call(self, t):
        if t[0] == 'call' and t[1] in ('numpy.mean', 'numpy.sum', 'numpy.add', 'numpy.subtract', 'numpy.multiply',
                                       'numpy.divide', 'numpy.negative', 'numpy.power', 'numpy.square'):
            return True
        if t[0] == 'call' and t[1] in self.identity_calls:
            return True
        if t[0] == 'call' and CALL_ALIASES.get(t[1], t[1]) == 'numpy.abs' and len(t[2]) == 1 and not t[3]:
            return True
        if t[0] == 'meth' and (t[1] in ('sum', 'mean') or t[1] in IDENTITY_METHODS):
            return True
        return False

    # ------------------------------------------------------------------- poly
    def poly(self, t):
        """Polynomial of a term (never None: opaque terms become atoms)."""
        if t in self._cache:
            return self._cache[t]
        p = self._poly(t)
        self._cache[t] = p
        return p

    def _poly(self, t):
        if self.rewrite is not None:
            r = self.rewrite(t)
            if r is not None and r != t:
                return self.poly(r)
        k = t[0]
        if k == 'c':
            f = _frac(t[1])
            if f is not None:
                return Poly.const(f)
            return self.atom(t)
        if k == 'ref':
            if t[1] in ('numpy.pi', 'math.pi'):
                return Poly.atom('pi')
            if t[1] in ('numpy.newaxis',):
                return self.atom(t)
            return self.atom(t)
        if k == 'bin':
            op = t[1]
            a = self.poly(t[2])
            b = self.poly(t[3])
            if op == '+':
                return a + b
            if op == '-':
                return a - b
            if op == '*':
                return a * b
            if op == '/':
                inv = b.inverse()
                if inv is not None:
                    return a * inv
                return a * Poly({(('inv{%s}' % b, 1),): Fraction(1)})
            if op == '**':
                if b.is_const() and b.const_value().denominator == 1:
                    r = a.pow(int(b.const_value()))
                    if r is not None:
                        return r
            return self.atom(t)
        if k == 'un':
            if t[1] == '-':
                return -self.poly(t[2])
            if t[1] == '+':
                return self.poly(t[2])
            return self.atom(t)
        if k == 'sub':
            if _shape_only_index(t[2]):
                return self.poly(t[1])
            return self.atom(t)
        if k == 'meth':
            name, base, args, kws = t[1], t[2], t[3], dict(t[4])
            if name in IDENTITY_METHODS:
                return self.poly(base)
            if name in ('sum', 'mean') and not args and set(kws) <= {'axis', 'keepdims'}:
                ax = kws.get('axis')
                if ax is not None and is_c(ax) and ax[1] == 1:
                    return self._sumcols(base, mean=(name == 'mean'))
                # np.array([a, b]).mean(axis=0)  ==  np.mean([a, b], axis=0)
                if ax is not None and is_c(ax) and ax[1] == 0 and base[0] == 'call' \
                        and base[1] in ('numpy.array', 'numpy.asarray', 'numpy.stack', 'numpy.vstack') and len(base[2]) == 1 \
                        and base[2][0][0] in ('list', 'tuple') and not base[3]:
                    return self.poly(('call', 'numpy.' + name, (base[2][0],), (('axis', C0),)))
            return self.atom(t)
        if k == 'call':
            name = t[1]
            if name in self.identity_calls and (t[2] or t[3]):
                arg = t[2][0] if t[2] else dict(t[3]).get('to_check', t[3][0][1])
                if arg[0] in ('list', 'tuple') and len(arg[1]) == 1:
                    arg = arg[1][0]
                if arg[0] not in ('list', 'tuple'):
                    return self.poly(arg)
            if name in ('numpy.mean', 'numpy.sum') and len(t[2]) == 1 and t[2][0][0] not in ('list', 'tuple') \
                    and set(dict(t[3])) <= {'axis', 'keepdims'} and dict(t[3]).get('axis') == ('c', 1):
                # np.sum(M, axis=1[, keepdims=True])  ==  M.sum(axis=1)[:, None] up to shape
                return self._sumcols(t[2][0], mean=(name == 'numpy.mean'))
            if name in ('numpy.mean', 'numpy.sum') and t[2] and t[2][0][0] in ('list', 'tuple'):
                kws = dict(t[3])
                ax = kws.get('axis', t[2][1] if len(t[2]) > 1 else None)
                if ax is not None and is_c(ax) and ax[1] == 0 and t[2][0][1]:
                    items = [self.poly(x) for x in t[2][0][1]]
                    tot = items[0]
                    for x in items[1:]:
                        tot = tot + x
                    if name == 'numpy.mean':
                        tot = tot.scale(Fraction(1, len(items)))
                    return tot
            if name in ('numpy.add', 'numpy.subtract', 'numpy.multiply', 'numpy.divide') and len(t[2]) == 2 \
                    and not t[3]:
                op = {'numpy.add': '+', 'numpy.subtract': '-', 'numpy.multiply': '*', 'numpy.divide': '/'}[name]
                return self.poly(('bin', op, t[2][0], t[2][1]))
            if CALL_ALIASES.get(name, name) == 'numpy.abs' and len(t[2]) == 1 and not t[3]:
                # |p| == |-p| : canonical sign of the argument
                p = self.poly(t[2][0])
                if p.m:
                    first = sorted(p.m.items(), key=lambda kv: (len(kv[0]), str(kv[0])))[0]
                    if first[1] < 0:
                        p = -p
                return Poly.atom('numpy.abs(P{%s})' % p)
            if name == 'numpy.negative' and len(t[2]) == 1:
                return -self.poly(t[2][0])
            if name == 'numpy.square' and len(t[2]) == 1:
                p = self.poly(t[2][0])
                return p * p
            if name == 'numpy.power' and len(t[2]) == 2:
                return self.poly(('bin', '**', t[2][0], t[2][1]))
            return self.atom(t)
        return self.atom(t)

    def _sumcols(self, base, mean=False):
        """Sum (mean) over the column axis; linear; expands concatenations."""
        parts = self._columns(base)
        if parts is None:
            p = self.poly(base)
            out = Poly()
            for mon, c in p.m.items():
                if len(mon) == 1 and mon[0][1] == 1:
                    a = mon[0][0]
                    term = self.atom_terms.get(a)
                    if term is not None and self.single_col(term):
                        out = out + Poly({mon: c})
                    else:
                        out = out + Poly({((('meancols' if mean else 'sumcols') + '{%s}' % a, 1),): c})
                else:
                    return Poly.atom(('meancols' if mean else 'sumcols') + '{%s}' % self.canon(base, top_arith=False))
            return out
        tot = Poly()
        ncols = 0
        for x in parts:
            if not self.single_col(x):
                inner = self._sumcols(x)
                if mean:
                    return Poly.atom('meancols{%s}' % self.canon(base, top_arith=False))
                tot = tot + inner
            else:
                tot = tot + self.poly(x)
                ncols += 1
        if mean:
            tot = tot.scale(Fraction(1, ncols))
        return tot

    def _columns(self, t, depth=0):
        """List of column-block terms if t is a concatenation along axis 1."""
        if depth > 40:
            return None
        if t[0] == 'call' and t[1] == 'numpy.concatenate' and t[2] and t[2][0][0] in ('tuple', 'list'):
            ax = dict(t[3]).get('axis', t[2][1] if len(t[2]) > 1 else None)
            if ax is not None and is_c(ax) and ax[1] == 1:
                out = []
                for x in t[2][0][1]:
                    sub = self._columns(x, depth + 1)
                    out.extend(sub if sub is not None else [x])
                return out
        if t[0] == 'call' and t[1] in ('numpy.hstack', 'numpy.column_stack') and t[2] \
                and t[2][0][0] in ('tuple', 'list'):
            return list(t[2][0][1])
        if t[0] in ('sub',) and _shape_only_index(t[2]):
            return self._columns(t[1], depth + 1)
        return None

    def equal(self, a, b):
        return self.poly(a) == self.poly(b)


def _shape_only_index(idx):
    """x[:, None], x[:, np.newaxis], x[None, :], x[...]: no selection."""
    if idx[0] == 'tuple':
        return all(_shape_only_index(i) for i in idx[1]) and len(idx[1]) > 0
    if idx[0] == 'slice':
        return all(is_c(x) and x[1] is None for x in idx[1:4])
    if is_c(idx) and (idx[1] is None or idx[1] is Ellipsis):
        return True
    if idx[0] == 'ref' and idx[1] == 'numpy.newaxis':
        return True
    return False


def describe(alg, p, limit=300):
    s = str(p)
    return s if len(s) <= limit else s[:limit] + '...'
