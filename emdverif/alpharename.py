"""Mechanical behaviour-preserving edits of the analysed modules, written as unified diffs:

  alpha   every function-level local variable (not a parameter, not declared global/nonlocal) is renamed to
          <name>_v in the whole function, nested scopes included unless they rebind the name themselves;
  loopvar only the targets of for-loops and comprehensions are renamed;
  order   (not implemented here)

usage: python -m emdverif.alpharename <outdir> [alpha|loopvar]
The diffs are evaluated like every other benign diff (tools/variant_eval.py) and confirmed against the pinned
test-suite in a scratch worktree before they are stored in benign/."""
import ast
import difflib
import os
import sys

REPO = '/repo'
FILES = ['emd/sift.py', 'emd/spectra.py', 'emd/cycles.py', 'emd/_cycles_support.py', 'emd/utils.py',
         'emd/support.py', 'emd/logger.py']


def bound_in(node):
    """names a function / lambda / comprehension scope binds itself"""
    out = set()
    if isinstance(node, (ast.FunctionDef, ast.AsyncFunctionDef, ast.Lambda)):
        a = node.args
        for x in a.posonlyargs + a.args + a.kwonlyargs:
            out.add(x.arg)
        if a.vararg:
            out.add(a.vararg.arg)
        if a.kwarg:
            out.add(a.kwarg.arg)
        if not isinstance(node, ast.Lambda):
            out |= assigned(node.body)
    else:
        for g in node.generators:
            for n in ast.walk(g.target):
                if isinstance(n, ast.Name):
                    out.add(n.id)
    return out


SCOPES = (ast.FunctionDef, ast.AsyncFunctionDef, ast.Lambda, ast.ListComp, ast.SetComp, ast.DictComp, ast.GeneratorExp,
          ast.ClassDef)


def assigned(body):
    """names bound at this scope level by the statements (nested scopes not entered)"""
    out = set()
    nonloc = set()

    def visit(n):
        if isinstance(n, (ast.FunctionDef, ast.AsyncFunctionDef, ast.ClassDef)):
            out.add(n.name)
            return
        if isinstance(n, SCOPES):
            return
        if isinstance(n, (ast.Global, ast.Nonlocal)):
            nonloc.update(n.names)
        if isinstance(n, ast.Name) and isinstance(n.ctx, (ast.Store, ast.Del)):
            out.add(n.id)
        if isinstance(n, ast.ExceptHandler) and n.name:
            out.add(n.name)
        if isinstance(n, (ast.Import, ast.ImportFrom)):
            for a in n.names:
                out.add((a.asname or a.name).split('.')[0])
        for c in ast.iter_child_nodes(n):
            visit(c)
    for s in body:
        visit(s)
    return out - nonloc


def collect(fn, mode):
    """-> [(lineno, col, old, new)] for one top-level or method function"""
    a_ = fn.args
    params = {x.arg for x in a_.posonlyargs + a_.args + a_.kwonlyargs}
    if a_.vararg:
        params.add(a_.vararg.arg)
    if a_.kwarg:
        params.add(a_.kwarg.arg)
    locs = assigned(fn.body)
    # names that must keep their spelling
    keep = set(params)
    for n in ast.walk(fn):
        if isinstance(n, (ast.Global, ast.Nonlocal)):
            keep.update(n.names)
        if isinstance(n, (ast.FunctionDef, ast.AsyncFunctionDef, ast.ClassDef)) and n is not fn:
            keep.add(n.name)                    # nested defs keep their names (they appear in log / partial names)
        if isinstance(n, (ast.Import, ast.ImportFrom)):
            for a in n.names:
                keep.add((a.asname or a.name).split('.')[0])
        if isinstance(n, ast.ExceptHandler) and n.name:
            keep.add(n.name)
        if isinstance(n, ast.Call) and isinstance(n.func, ast.Name) and n.func.id in ('locals', 'vars', 'eval', 'exec'):
            return []
    if mode == 'loopvar':
        lv = set()
        for n in ast.walk(fn):
            if isinstance(n, ast.For):
                for t in ast.walk(n.target):
                    if isinstance(t, ast.Name):
                        lv.add(t.id)
        # only loop targets that are bound nowhere else
        others = set()

        def other(n, in_target=False):
            if isinstance(n, ast.For):
                for c in n.body + n.orelse:
                    other(c)
                other(n.iter)
                return
            if isinstance(n, ast.Name) and isinstance(n.ctx, (ast.Store, ast.Del)):
                others.add(n.id)
            for c in ast.iter_child_nodes(n):
                if not isinstance(c, SCOPES):
                    other(c)
        for st in fn.body:
            other(st)
        target = (lv - others) & locs - keep
    else:
        target = locs - keep
    target = {t for t in target if not t.startswith('__')}
    if not target:
        return []
    used = {n.id for n in ast.walk(fn) if isinstance(n, ast.Name)} | keep
    ren = {}
    for t in sorted(target):
        new = ('q_' + t) if os.environ.get('ALPHA_STYLE') == 'prefix' else (t + '_v')
        while new in used:
            new += 'v'
        ren[t] = new
        used.add(new)
    edits = []

    def walk(n, active):
        if isinstance(n, SCOPES) and n is not fn:
            if isinstance(n, ast.ClassDef):
                return
            shadow = bound_in(n)
            act = {k: v for k, v in active.items() if k not in shadow}
            # default values and decorators are evaluated in the enclosing scope
            if isinstance(n, (ast.FunctionDef, ast.AsyncFunctionDef, ast.Lambda)):
                for d in n.args.defaults + [x for x in n.args.kw_defaults if x is not None]:
                    walk(d, active)
                if not isinstance(n, ast.Lambda):
                    for d in n.decorator_list:
                        walk(d, active)
                    for c in n.body:
                        walk(c, act)
                else:
                    walk(n.body, act)
            else:
                # the first iterable is evaluated in the enclosing scope
                first = n.generators[0].iter
                walk(first, active)
                for i, g in enumerate(n.generators):
                    if i:
                        walk(g.iter, act)
                    walk(g.target, act)
                    for c in g.ifs:
                        walk(c, act)
                if isinstance(n, ast.DictComp):
                    walk(n.key, act)
                    walk(n.value, act)
                else:
                    walk(n.elt, act)
            return
        if isinstance(n, ast.Name) and n.id in active:
            edits.append((n.lineno, n.col_offset, n.id, active[n.id]))
        for c in ast.iter_child_nodes(n):
            walk(c, active)
    for a in fn.args.defaults + [x for x in fn.args.kw_defaults if x is not None]:
        pass
    for st in fn.body:
        walk(st, ren)
    return edits


def rename_file(path, mode, src=None):
    if src is None:
        src = open(os.path.join(REPO, path)).read()
    if not src.isascii():
        # col_offset counts bytes
        pass
    tree = ast.parse(src)
    edits = []

    def funcs(body):
        for n in body:
            if isinstance(n, (ast.FunctionDef, ast.AsyncFunctionDef)):
                yield n
            elif isinstance(n, ast.ClassDef):
                yield from funcs(n.body)
    for fn in funcs(tree.body):
        edits.extend(collect(fn, mode))
    lines = src.split('\n')
    blines = [ln.encode('utf-8') for ln in lines]
    for ln, col, old, new in sorted(set(edits), reverse=True):
        b = blines[ln - 1]
        assert b[col:col + len(old)] == old.encode(), (path, ln, col, old, b[col:col + 20])
        blines[ln - 1] = b[:col] + new.encode() + b[col + len(old):]
    out = '\n'.join(b.decode('utf-8') for b in blines)
    compile(out, path, 'exec')
    return src, out, len(set(edits))


def main():
    outdir = sys.argv[1]
    mode = sys.argv[2] if len(sys.argv) > 2 else 'alpha'
    os.makedirs(outdir, exist_ok=True)
    for i, f in enumerate(FILES, 1):
        src, out, n = rename_file(f, mode)
        if out == src:
            continue
        d = ''.join(difflib.unified_diff(src.splitlines(True), out.splitlines(True), 'a/' + f, 'b/' + f))
        name = os.path.join(outdir, 'A%s%02d.diff' % ('a' if mode == 'alpha' else 'l', i))
        with open(name, 'w') as fh:
            fh.write('diff --git a/%s b/%s\n' % (f, f) + d)
        print(name, f, n, 'renamed occurrences')


if __name__ == '__main__':
    main()
