"""Command line driver."""
import importlib
import json
import os
import sys
import time
import traceback

from . import report
from .model import Program, AnalysisError

PROPS = ['C%02d' % i for i in range(1, 21)]


def run_property(prop, tier, seed, root=None, overrides=None, quiet=False):
    t0 = time.time()
    try:
        P = Program(root, overrides=overrides)
        ctx = report.Ctx(P, prop, tier, seed)
        try:
            mod = importlib.import_module('emdverif.rules.' + prop.lower())
        except ModuleNotFoundError:
            print('ANALYSIS-ERROR property=%s no rules built for this property yet (fail-closed)' % prop)
            return 2
        mod.run(ctx)
        from .rules import l2
        l2.rule_unbound(ctx)
        l2.rule_memoised(ctx)
        l2.rule_int_params(ctx)
        fixtures = None
        exp = getattr(mod, 'PINNED_EXPECT', None)
        if exp and root is None and overrides is None:
            fixtures = run_pinned(mod, prop, tier, seed, exp)
        extra = getattr(ctx, 'extra', None) or {}
        if tier == 'thorough' and root is None and overrides is None:
            clean = not any(o.verdict in (report.VIOLATION, report.UNDECIDED) for o in ctx.obs if not o.fixture)
            if clean:
                from . import selfval
                summ, fx = selfval.validate(prop)
                fixtures = (fixtures or []) + fx
                extra['self_validation'] = summ
                extra['self_validation_note'] = ('breaking edits (hand-written catalogue + independently seeded patches) '
                                                 'must be reported, benign edits must stay silent; evaluated on '
                                                 'in-memory variants of the current tree')
            else:
                extra['self_validation'] = 'not run: the current tree has open violations / undecided obligations'
        return report.finish(ctx, getattr(mod, 'FLOORS', {}), mod.EXPLANATION, mod.RULE_TEXT,
                             getattr(mod, 'LEVEL', ''), t0, fixtures=fixtures,
                             extra=extra or None, quiet=quiet)
    except AnalysisError as e:
        where = ''
        if e.node is not None and hasattr(e.node, 'lineno'):
            where = ' line %d' % e.node.lineno
        print('ANALYSIS-ERROR property=%s %s%s' % (prop, e, where))
        return 2
    except Exception:
        print('ANALYSIS-ERROR property=%s internal error:' % prop)
        traceback.print_exc(file=sys.stdout)
        return 2


PINNED_ROOT = os.path.join(report.VERIF, 'fixtures', 'pinned')


def run_pinned(mod, prop, tier, seed, expected):
    """Positive examples: the rules are run on the frozen copy of the pinned
    (defective) tree; every listed defect construct must be reported there."""
    out = []
    try:
        P2 = Program(PINNED_ROOT)
        ctx2 = report.Ctx(P2, prop, tier, seed)
        mod.run(ctx2)
        obs = ctx2.obs
        err = None
    except Exception as e:      # noqa
        obs = []
        err = '%s: %s' % (type(e).__name__, e)
    for rule, func, sub in expected:
        hit = [o for o in obs if o.verdict == report.VIOLATION and o.rule == rule and o.function == func
               and sub in o.construct]
        out.append({'name': 'pinned-tree must-fire: %s %s [%s]' % (rule, func, sub), 'ok': bool(hit),
                    'why': '' if hit else (err or 'the rule did not fire on the pinned defective tree'),
                    'fired': [o.construct for o in hit][:3]})
    return out


def selfcheck():
    P = Program()
    inv = P.inventory()
    for name, d in inv.items():
        print('%-22s %-26s functions=%-3d sha256=%s' % (name, d['file'], d['functions'], d['sha256'][:16]))
    print('modules=%d functions=%d' % (len(inv), len(P.funcs)))
    with open(os.path.join(report.VERIF, 'MANIFEST.json')) as f:
        m = json.load(f)
    print('manifest checks=%d not_applicable=%d' % (len(m['checks']), len(m.get('not_applicable', []))))
    return 0


def main(argv):
    if not argv or argv[0] in ('-h', '--help'):
        print(__doc__ or 'usage: check <id> [--tier quick|thorough]')
        return 2
    if argv[0] == '--selfcheck':
        try:
            return selfcheck()
        except Exception:
            traceback.print_exc(file=sys.stdout)
            return 2
    prop = argv[0]
    tier = os.environ.get('VERIF_TIER') or 'quick'
    replay = None
    i = 1
    while i < len(argv):
        if argv[i] == '--tier':
            tier = argv[i + 1]
            i += 2
        elif argv[i] == '--replay':
            replay = argv[i + 1]
            i += 2
        else:
            i += 1
    if os.environ.get('VERIF_TIER'):
        tier = os.environ['VERIF_TIER']
    if tier not in ('quick', 'thorough'):
        tier = 'quick'
    try:
        seed = int(os.environ.get('VERIF_SEED', '0'))
    except ValueError:
        seed = 0
    if replay:
        with open(replay) as f:
            d = json.load(f)
        prop = d.get('property', prop)
        print('replaying %s %s [%s] on the current tree' % (d.get('rule'), d.get('function'), d.get('construct')))
        return run_property(prop, tier, seed)
    if prop == 'all':
        worst = 0
        for p in PROPS:
            worst = max(worst, run_property(p, tier, seed))
        return worst
    return run_property(prop, tier, seed)
