"""D6 - shape classes: evaluation of terms on representative array shapes.

An array value is ('arr', shape tuple).  Only the operations the ensure_* routines use are interpreted
(ndim, shape, shape slices, np.ones_like on a shape, elementwise ==, np.all, np.squeeze, basic indexing
with slices / None / integers).  Anything else raises Undecided.
"""
from .paths import is_c, show


class Undecided(Exception):
    pass


class Raises(Exception):
    """the evaluated expression would raise at run time (e.g. IndexError on a shape tuple)"""


class ShapeEval:
    def __init__(self, bind):
        self.bind = dict(bind)      # term -> value

    def ev(self, t):
        if t in self.bind:
            return self.bind[t]
        k = t[0]
        if k == 'c':
            return t[1]
        if k == 'ref' and t[1] == 'numpy.newaxis':
            return None
        if k in ('tuple', 'list') and all(is_c(x) and isinstance(x[1], int) for x in t[1]):
            return ('ptup', tuple(x[1] for x in t[1]))        # a literal Python tuple / list of ints
        if k == 'attr':
            b = self.ev(t[1])
            if isinstance(b, tuple) and b and b[0] == 'arr':
                if t[2] == 'ndim':
                    return len(b[1])
                if t[2] == 'shape':
                    return ('tup', tuple(b[1]))
                if t[2] == 'size':
                    n = 1
                    for d in b[1]:
                        n *= d
                    return n
                if t[2] == 'T':
                    return ('arr', tuple(reversed(b[1])))
                if t[2] == 'dtype':
                    return ('dtype', b)
            raise Undecided('attribute .%s' % t[2])
        if k == 'sub':
            b = self.ev(t[1])
            idx = t[2]
            if isinstance(b, tuple) and b and b[0] == 'tup':
                if idx[0] == 'slice':
                    lo, hi, st = [None if (is_c(x) and x[1] is None) else self.ev(x) for x in idx[1:4]]
                    return ('tup', b[1][slice(lo, hi, st)])
                i = self.ev(idx)
                if isinstance(i, int):
                    try:
                        return b[1][i]
                    except IndexError:
                        raise Raises('IndexError: shape%s[%d]' % (b[1], i))
                raise Undecided('tuple index')
            if isinstance(b, tuple) and b and b[0] == 'arr':
                return ('arr', self._index(b[1], idx))
            raise Undecided('subscript of %r' % (b,))
        if k == 'call':
            name = t[1]
            if name == 'numpy.ones_like' and t[2]:
                v = self.ev(t[2][0])
                if isinstance(v, tuple) and v[0] == 'tup':
                    return ('tup', tuple(1 for _ in v[1]))
            if name in ('numpy.all', 'builtins.all', 'numpy.alltrue') and t[2]:
                v = self.ev(t[2][0])
                if isinstance(v, tuple) and v[0] == 'tup':
                    return all(v[1])
                if isinstance(v, bool):
                    return v
            if name in ('numpy.any', 'builtins.any') and t[2]:
                v = self.ev(t[2][0])
                if isinstance(v, tuple) and v[0] == 'tup':
                    return any(v[1])
                if isinstance(v, bool):
                    return v
            if name in ('numpy.atleast_2d', 'numpy.atleast_1d', 'numpy.atleast_3d') and len(t[2]) == 1:
                v = self.ev(t[2][0])
                if isinstance(v, tuple) and v and v[0] == 'arr':
                    n = int(name[-2])
                    sh = tuple(v[1])
                    if n == 1:
                        return ('arr', sh or (1,))
                    if n == 2:
                        return ('arr', (1, 1) if len(sh) == 0 else ((1,) + sh if len(sh) == 1 else sh))
                    return ('arr', (1, 1, 1) if len(sh) == 0 else ((1,) + sh + (1,) if len(sh) == 1 else
                                                                    (sh + (1,) if len(sh) == 2 else sh)))
            if name in ('numpy.reshape',) and len(t[2]) == 2:
                return self._reshape(self.ev(t[2][0]), [t[2][1]])
            if name in ('numpy.expand_dims',) and len(t[2]) == 2:
                v = self.ev(t[2][0])
                ax = self.ev(t[2][1])
                if isinstance(v, tuple) and v[0] == 'arr' and isinstance(ax, int):
                    sh = list(v[1])
                    sh.insert(ax if ax >= 0 else len(sh) + 1 + ax, 1)
                    return ('arr', tuple(sh))
            if name in ('numpy.transpose',) and len(t[2]) == 1:
                v = self.ev(t[2][0])
                if isinstance(v, tuple) and v[0] == 'arr':
                    return ('arr', tuple(reversed(v[1])))
            if name in ('numpy.ndim',) and len(t[2]) == 1:
                v = self.ev(t[2][0])
                if isinstance(v, tuple) and v[0] == 'arr':
                    return len(v[1])
            if name in ('numpy.shape',) and len(t[2]) == 1:
                v = self.ev(t[2][0])
                if isinstance(v, tuple) and v[0] == 'arr':
                    return ('tup', tuple(v[1]))
            if name == 'numpy.squeeze' and t[2]:
                v = self.ev(t[2][0])
                if v[0] == 'arr':
                    return ('arr', tuple(d for d in v[1] if d != 1))
            if name in ('numpy.array', 'numpy.asarray', 'numpy.asanyarray', 'numpy.ascontiguousarray') and t[2]:
                v = self.ev(t[2][0])
                if isinstance(v, tuple) and v[0] in ('arr', 'tup'):
                    return v
            if name == 'builtins.len' and t[2]:
                v = self.ev(t[2][0])
                if isinstance(v, tuple) and v[0] == 'tup':
                    return len(v[1])
                if isinstance(v, tuple) and v[0] == 'arr':
                    if not v[1]:
                        raise Raises('len() of unsized object')
                    return v[1][0]
            if name == 'numpy.prod' and t[2]:
                v = self.ev(t[2][0])
                if isinstance(v, tuple) and v[0] == 'tup':
                    n = 1
                    for d in v[1]:
                        n *= d
                    return n
            raise Undecided('call %s' % name)
        if k == 'meth':
            b = self.ev(t[2])
            if t[1] in ('squeeze',) and b[0] == 'arr':
                return ('arr', tuple(d for d in b[1] if d != 1))
            if t[1] in ('copy', 'astype', 'view') and b[0] == 'arr':
                return b
            if t[1] == 'reshape' and b[0] == 'arr':
                return self._reshape(b, list(t[3]))
            if t[1] == 'transpose' and b[0] == 'arr' and not t[3]:
                return ('arr', tuple(reversed(b[1])))
            if t[1] in ('flatten', 'ravel') and b[0] == 'arr':
                n = 1
                for d in b[1]:
                    n *= d
                return ('arr', (n,))
            raise Undecided('method .%s' % t[1])
        if k == 'cmp':
            a, b = self.ev(t[2]), self.ev(t[3])
            op = t[1]
            import operator
            if op in ('in', 'notin') and isinstance(b, tuple) and b and b[0] == 'tup' and isinstance(a, int):
                r = a in b[1]
                return r if op == 'in' else not r
            OPS = {'<': operator.lt, '<=': operator.le, '>': operator.gt, '>=': operator.ge, '==': operator.eq,
                   '!=': operator.ne}
            # two Python tuples (a shape, a slice of it, a literal): `==` is one boolean, not elementwise
            pa = isinstance(a, tuple) and a and a[0] in ('tup', 'ptup')
            pb = isinstance(b, tuple) and b and b[0] in ('tup', 'ptup')
            if pa and pb and 'ptup' in (a[0], b[0]) and op in ('==', '!='):
                r = tuple(a[1]) == tuple(b[1])
                return r if op == '==' else not r
            if isinstance(a, tuple) and a and a[0] == 'tup' and isinstance(b, tuple) and b and b[0] == 'tup':
                if len(a[1]) != len(b[1]):
                    raise Undecided('shape comparison of different lengths')
                return ('tup', tuple(OPS[op](x, y) for x, y in zip(a[1], b[1])))
            if isinstance(a, tuple) and a and a[0] == 'tup' and isinstance(b, (int, bool)):
                if isinstance(b, bool):
                    return OPS[op](all(a[1]) if a[1] else True, b) if False else ('tup', tuple(OPS[op](x, b) for x in a[1]))
                return ('tup', tuple(OPS[op](x, b) for x in a[1]))
            if isinstance(a, (int, bool)) and isinstance(b, (int, bool)):
                if op in ('is', 'isnot'):
                    return (a is b) if op == 'is' else (a is not b)
                return OPS[op](a, b)
            if op in ('in', 'notin') and isinstance(b, tuple) and b and b[0] == 'tup' and isinstance(a, int):
                r = a in b[1]
                return r if op == 'in' else not r
            if op in ('is', 'isnot'):
                r = a is b
                return r if op == 'is' else not r
            raise Undecided('comparison %r %s %r' % (a, op, b))
        if k == 'un' and t[1] == 'not':
            return not self.truth(self.ev(t[2]))
        if k in ('and', 'or'):
            vals = [self.truth(self.ev(x)) for x in t[1]]
            return all(vals) if k == 'and' else any(vals)
        if k == 'bin':
            a, b = self.ev(t[2]), self.ev(t[3])
            if isinstance(a, int) and isinstance(b, int):
                return {'+': a + b, '-': a - b, '*': a * b}.get(t[1])
        raise Undecided('term %s' % show(t)[:50])

    def _reshape(self, b, dims):
        if not (isinstance(b, tuple) and b and b[0] == 'arr'):
            raise Undecided('reshape of %r' % (b,))
        if len(dims) == 1 and dims[0][0] in ('tuple', 'list'):
            dims = list(dims[0][1])
        vals = [self.ev(d) for d in dims]
        if not all(isinstance(v, int) for v in vals):
            raise Undecided('reshape to %r' % (vals,))
        n = 1
        for d in b[1]:
            n *= d
        known = 1
        for v in vals:
            if v != -1:
                known *= v
        if vals.count(-1) > 1 or known == 0 or n % known:
            raise Raises('ValueError: cannot reshape array of size %d into %r' % (n, vals))
        out = tuple(n // known if v == -1 else v for v in vals)
        m = 1
        for d in out:
            m *= d
        if m != n:
            raise Raises('ValueError: cannot reshape array of size %d into %r' % (n, vals))
        return ('arr', out)

    def truth(self, v):
        if isinstance(v, tuple) and v and v[0] == 'tup':
            if len(v[1]) > 1:
                raise Raises('truth value of an array with more than one element is ambiguous')
            return bool(v[1][0]) if v[1] else False
        return bool(v)

    def _index(self, shape, idx):
        items = list(idx[1]) if idx[0] == 'tuple' else [idx]
        out = []
        dims = list(shape)
        pos = 0
        for it in items:
            if it[0] == 'slice':
                if pos >= len(dims):
                    raise Raises('IndexError: too many indices')
                if all(is_c(x) and x[1] is None for x in it[1:4]):
                    out.append(dims[pos])
                else:
                    lo, hi, st = [None if (is_c(x) and x[1] is None) else self.ev(x) for x in it[1:4]]
                    out.append(len(range(dims[pos])[slice(lo, hi, st)]))
                pos += 1
            elif (is_c(it) and it[1] is None) or it == ('ref', 'numpy.newaxis'):
                out.append(1)
            elif is_c(it) and isinstance(it[1], int):
                if pos >= len(dims):
                    raise Raises('IndexError: too many indices')
                if not (-dims[pos] <= it[1] < dims[pos]):
                    raise Raises('IndexError: index out of bounds')
                pos += 1
            elif is_c(it) and it[1] is Ellipsis:
                rest = len(dims) - pos - sum(1 for x in items[items.index(it) + 1:] if x[0] == 'slice' or
                                             (is_c(x) and isinstance(x[1], int)))
                for _ in range(rest):
                    out.append(dims[pos])
                    pos += 1
            else:
                raise Undecided('index %s' % show(it)[:30])
        out.extend(dims[pos:])
        return tuple(out)
