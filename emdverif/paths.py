"""E3 - path-sensitive abstract evaluator over the AST of one function.

Values are *terms* (hashable nested tuples) - an uninterpreted, canonical
description of how a value was computed from the function's parameters.  The
evaluator forks on conditions it cannot decide, peels the first iteration of
`while` loops and runs a second pass from a havocked head state (every
loop-modified variable becomes a fresh atom, monotone counters keep a lower
bound).  Domain-specific interpreters (poly.py, rules/*) then read the terms.

Nothing is executed: numpy/scipy calls stay symbolic `('call', dotted, args, kwargs)`.
"""
import ast
import itertools

from .model import AnalysisError, unparse, walk_local

# ------------------------------------------------------------------ term helpers


def C(v):
    return ('c', v)


def S(name):
    return ('s', name)


NONE = C(None)
TRUE = C(True)
FALSE = C(False)

BINOPS = {ast.Add: '+', ast.Sub: '-', ast.Mult: '*', ast.Div: '/', ast.FloorDiv: '//', ast.Mod: '%',
          ast.Pow: '**', ast.MatMult: '@', ast.BitAnd: '&', ast.BitOr: '|', ast.BitXor: '^',
          ast.LShift: '<<', ast.RShift: '>>'}
CMPOPS = {ast.Eq: '==', ast.NotEq: '!=', ast.Lt: '<', ast.LtE: '<=', ast.Gt: '>', ast.GtE: '>=',
          ast.Is: 'is', ast.IsNot: 'isnot', ast.In: 'in', ast.NotIn: 'notin'}
UNOPS = {ast.USub: '-', ast.UAdd: '+', ast.Not: 'not', ast.Invert: '~'}
NEG = {'==': '!=', '!=': '==', '<': '>=', '>=': '<', '>': '<=', '<=': '>', 'is': 'isnot', 'isnot': 'is',
       'in': 'notin', 'notin': 'in'}

IMPURE_PREFIXES = ('numpy.random.', 'random.')
PURE_EXCEPTIONS = {'numpy.random.RandomState', 'numpy.random.default_rng', 'numpy.random.seed',
                   'numpy.random.get_state', 'numpy.random.set_state'}
MUTATING_METHODS = {'append', 'extend', 'pop', 'sort', 'update', 'clear', 'setdefault', 'fill', 'insert',
                    'remove', 'reverse', 'put', 'resize', 'popitem', 'itemset', 'partition', 'byteswap'}


def is_c(t, v=None):
    return isinstance(t, tuple) and t and t[0] == 'c' and (v is None or (t[1] == v and type(t[1]) is type(v)))


def show(t, depth=0):
    """Readable rendering of a term."""
    if not isinstance(t, tuple) or not t:
        return repr(t)
    k = t[0]
    if depth > 12:
        return '...'
    d = depth + 1
    if k == 'c':
        return repr(t[1])
    if k == 's':
        return t[1]
    if k == 'bv':
        return t[1]
    if k == 'call':
        a = [show(x, d) for x in t[2]] + ['%s=%s' % (n, show(v, d)) for n, v in t[3]]
        return '%s(%s)' % (t[1].replace('numpy.', 'np.'), ', '.join(a))
    if k == 'meth':
        a = [show(x, d) for x in t[3]] + ['%s=%s' % (n, show(v, d)) for n, v in t[4]]
        return '%s.%s(%s)' % (show(t[2], d), t[1], ', '.join(a))
    if k == 'attr':
        return '%s.%s' % (show(t[1], d), t[2])
    if k == 'sub':
        return '%s[%s]' % (show(t[1], d), show(t[2], d))
    if k == 'bin':
        return '(%s %s %s)' % (show(t[2], d), t[1], show(t[3], d))
    if k == 'un':
        return '(%s %s)' % (t[1], show(t[2], d))
    if k == 'cmp':
        return '(%s %s %s)' % (show(t[2], d), t[1], show(t[3], d))
    if k in ('and', 'or'):
        return '(' + (' %s ' % k).join(show(x, d) for x in t[1]) + ')'
    if k in ('tuple', 'list', 'set'):
        br = {'tuple': '()', 'list': '[]', 'set': '{}'}[k]
        return br[0] + ', '.join(show(x, d) for x in t[1]) + br[1]
    if k == 'dict':
        return '{' + ', '.join('%s: %s' % (show(a, d), show(b, d)) for a, b in t[1]) + '}'
    if k == 'slice':
        return ':'.join('' if is_c(x, None) and x[1] is None else show(x, d) for x in t[1:4])
    if k == 'setitem':
        return '%s{[%s]:=%s}' % (show(t[1], d), show(t[2], d), show(t[3], d))
    if k == 'mut':
        return '%s{.%s(%s)}' % (show(t[2], d), t[1], ', '.join(show(x, d) for x in t[3]))
    if k == 'comp':
        gens = ' '.join('for %s in %s%s' % (show(v, d), show(it, d),
                                            ''.join(' if ' + show(c, d) for c in cs)) for v, it, cs in t[3])
        return '[%s %s]' % (show(t[2], d), gens)
    if k == 'ifexp':
        return '(%s if %s else %s)' % (show(t[2], d), show(t[1], d), show(t[3], d))
    if k == 'starred':
        return '*' + show(t[1], d)
    return '%s(%s)' % (k, ', '.join(show(x, d) if isinstance(x, tuple) else repr(x) for x in t[1:]))


def subterms(t):
    """All sub-terms, pre-order."""
    stack = [t]
    while stack:
        x = stack.pop()
        if not isinstance(x, tuple):
            continue
        if x and isinstance(x[0], str):
            yield x
        for y in x[1:] if (x and isinstance(x[0], str)) else x:
            if isinstance(y, tuple):
                stack.append(y)


def contains(t, sub):
    return any(x == sub for x in subterms(t))


def atoms(t):
    return {x[1] for x in subterms(t) if x[0] == 's'}


def substitute(t, mapping):
    """Replace sub-terms (keys of mapping) by their images."""
    if not mapping:
        return t
    if not isinstance(t, tuple):
        return t
    if t in mapping:
        return mapping[t]
    if not t:
        return t
    return tuple(substitute(x, mapping) if isinstance(x, tuple) else x for x in t)


# ------------------------------------------------------------------------ state

class State:
    __slots__ = ('env', 'conds', 'effects', 'trace', 'facts', 'notnone', 'loops', 'subst', 'alias')

    def __init__(self):
        self.env = {}
        self.conds = []       # (term, bool, lineno)
        self.effects = []     # (kind, payload..., lineno)
        self.trace = []       # strings
        self.facts = {}       # atom name -> {'ge': int}
        self.notnone = set()  # terms known not to be None
        self.loops = []       # LoopSummary
        self.subst = {}       # term -> term refinements (atom == const)
        self.alias = {}       # local name -> group id: names bound to the same object by plain `a = b` copies

    def copy(self):
        s = State()
        s.env = dict(self.env)
        s.conds = list(self.conds)
        s.effects = list(self.effects)
        s.trace = list(self.trace)
        s.facts = dict(self.facts)
        s.notnone = set(self.notnone)
        s.loops = list(self.loops)
        s.subst = dict(self.subst)
        s.alias = dict(self.alias)
        return s


class LoopSummary:
    def __init__(self, node, kind, var, iter_term, body_states, head_env, entry_env=None):
        self.entry_env = entry_env or {}
        self.node = node
        self.kind = kind            # 'for' | 'while'
        self.var = var              # term of the loop variable (for)
        self.iter_term = iter_term
        self.body_states = body_states   # list of (exitkind, State) at the end of one generic iteration
        self.head_env = head_env
        self.ends = []              # while: (pass, how, State) for every way an iteration ends
        self.n_entry_conds = 0


class Exit:
    __slots__ = ('kind', 'value', 'state', 'node')

    def __init__(self, kind, value, state, node=None):
        self.kind = kind      # 'fall' | 'return' | 'raise' | 'break' | 'continue'
        self.value = value
        self.state = state
        self.node = node

    def __repr__(self):
        return '<Exit %s %s>' % (self.kind, show(self.value) if self.value is not None else '')


_KNOWN = None


def known_functions():
    """Qualified names of the functions of the pinned tree (fixtures/pinned), parsed once."""
    global _KNOWN
    if _KNOWN is None:
        import os
        from .model import Program
        root = os.path.join(os.path.dirname(os.path.dirname(os.path.abspath(__file__))), 'fixtures', 'pinned')
        try:
            _KNOWN = set(Program(root).funcs)
        except Exception:
            _KNOWN = set()
    return _KNOWN


class Evaluator:
    """Evaluate one function of the program model along all its paths."""

    def __init__(self, program, inline=None, max_paths=4096, max_depth=3, fill_defaults=True,
                 callee_hook=None, observer=None):
        self.P = program
        # Helper functions that did not exist when the rules were written (extracted by a refactoring) are inlined,
        # so that extracting a helper does not blind a rule; the functions the rules know (the pinned tree's
        # functions) stay opaque atoms unless a rule asks for them.
        known = known_functions()
        user_inline = inline
        self.inline = (lambda q, depth: (q not in known) or bool(user_inline and user_inline(q, depth)))
        self.max_paths = max_paths
        self.max_depth = max_depth
        self.fill_defaults = fill_defaults
        self.callee_hook = callee_hook
        self.loops_seen = {}          # ast loop node -> [LoopSummary] (every evaluation of that loop)
        self.observer = observer    # observer(call_node, term, state) for every evaluated call
        self.unroll_limit = 8
        self.npaths = 0
        self._fresh = itertools.count()
        self.stats = {'forks': 0, 'calls_resolved': 0, 'calls_unresolved': 0, 'inlined': 0}

    # ------------------------------------------------------------------- entry
    def run(self, fi, args=None, context=None, state=None, depth=0, closure=None, inherit=None):
        """Return the list of Exit (return/raise) of function `fi`.
        args: formal -> term (missing formals become symbols or their default);
        context: formal -> python literal (fixes literal-mode parameters)."""
        st = state.copy() if state is not None else State()
        st.env = {}
        st.alias = {}
        if closure:
            # variables of the enclosing function (read-only view for a nested function inlined from its parent)
            for k, v in closure.items():
                st.env['closure:' + k] = v
        if inherit:
            st.env.update(inherit)      # attribute values of the same object, known to the caller
        args = dict(args or {})
        for f in fi.all_formals():
            if context and f in context:
                st.env[f] = C(context[f])
            elif f in args:
                st.env[f] = args[f]
            elif depth > 0 and f in fi.defaults:
                outs = self._ev(fi.defaults[f], self._mini_state(), fi.module, fi.parent, depth)
                st.env[f] = outs[0][0] if len(outs) == 1 and outs[0][2] == 'ok' else S('%s.default' % f)
            else:
                st.env[f] = S(f)
        if fi.vararg:
            st.env[fi.vararg] = args.get('*' + fi.vararg, S(fi.vararg))
        if fi.kwarg:
            st.env[fi.kwarg] = args.get('**' + fi.kwarg, S(fi.kwarg))
        exits = self._block(fi.node.body, st, fi, depth)
        out = []
        for e in exits:
            if e.kind == 'fall':
                e = Exit('return', NONE, e.state, fi.node)
            if e.kind in ('break', 'continue'):
                raise AnalysisError('break/continue outside loop in %s' % fi.qualname)
            out.append(e)
        return out

    def _mini_state(self):
        return State()

    def fresh(self, base):
        return S('%s@%d' % (base, next(self._fresh)))

    # ------------------------------------------------------------------ blocks
    def _count(self, n=1):
        self.npaths += n
        if self.npaths > self.max_paths:
            raise AnalysisError('path budget exceeded (%d)' % self.max_paths)

    def _block(self, stmts, st, fi, depth):
        """Execute a statement list from one state; returns list of Exit."""
        states = [st]
        exits = []
        for s in stmts:
            nxt = []
            for cur in states:
                for e in self._stmt(s, cur, fi, depth):
                    if e.kind == 'fall':
                        nxt.append(e.state)
                    else:
                        exits.append(e)
            states = nxt
            if not states:
                break
        exits.extend(Exit('fall', None, s2) for s2 in states)
        return exits

    def _stmt(self, s, st, fi, depth):
        mod = fi.module
        ln = getattr(s, 'lineno', 0)
        if isinstance(s, ast.Expr):
            if isinstance(s.value, ast.Constant):
                return [Exit('fall', None, st)]
            outs = self._ev(s.value, st, mod, fi, depth)
            res = []
            for t, s2, k in outs:
                if k == 'raise':
                    res.append(Exit('raise', t, s2, s))
                else:
                    s2.effects.append(('expr', t, ln))
                    res.append(Exit('fall', None, s2))
            return res
        if isinstance(s, ast.Assign):
            res = []
            for t, s2, k in self._ev(s.value, st, mod, fi, depth):
                if k == 'raise':
                    res.append(Exit('raise', t, s2, s))
                    continue
                for tgt in s.targets:
                    s2 = self._assign(tgt, t, s2, mod, fi, depth, ln)
                    # object identity: `a = b` makes a and b the same object until one of them is rebound
                    for n in ast.walk(tgt):
                        if isinstance(n, ast.Name) and isinstance(n.ctx, ast.Store):
                            # the name is re-bound (x[i] = v leaves x bound to the same object)
                            s2.alias.pop(n.id, None)
                            s2.alias.pop('view:' + n.id, None)
                            s2.alias.pop('viewparent:' + n.id, None)
                    pairs_ = []
                    if isinstance(tgt, ast.Name):
                        pairs_ = [(tgt, s.value)]
                    elif isinstance(tgt, (ast.Tuple, ast.List)) and isinstance(s.value, (ast.Tuple, ast.List)) \
                            and len(tgt.elts) == len(s.value.elts):
                        pairs_ = [(a_, b_) for a_, b_ in zip(tgt.elts, s.value.elts) if isinstance(a_, ast.Name)]
                    for tn_, ve_ in pairs_:
                        # a numpy view of another local (basic slicing, new axes, reshape, .T, ...): stores through it
                        # change that local's array too; a plain copy of the name in a tuple assignment is an alias
                        vr = ve_.id if (isinstance(ve_, ast.Name) and tn_ is not tgt) else _view_root(ve_)
                        if vr is None:
                            # X[:, i, j] with i, j loop counters is a view as well
                            vr = _view_root(ve_, allow_names=True)
                            if vr is not None:
                                idx_names = {n_.id for sub_ in ast.walk(ve_) if isinstance(sub_, ast.Subscript)
                                             for n_ in ast.walk(sub_.slice) if isinstance(n_, ast.Name)}
                                for nm_ in idx_names:
                                    v_ = s2.env.get(nm_)
                                    ok_ = v_ is not None and ((is_c(v_) and isinstance(v_[1], int)) or
                                                              (v_[0] == 's' and 'range' in s2.facts.get(v_[1], {})))
                                    if not ok_:
                                        vr = None
                        if vr is not None and vr != tn_.id and vr in s2.env:
                            s2.alias['view:' + tn_.id] = s2.alias.get('view:' + vr, vr)
                            s2.alias['viewparent:' + tn_.id] = vr
                    if isinstance(tgt, ast.Name) and isinstance(s.value, ast.Name) and s.value.id in s2.env:
                        g = s2.alias.get(s.value.id)
                        if g is None:
                            g = s2.alias[s.value.id] = next(self._fresh)
                        s2.alias[tgt.id] = g
                if len(s.targets) > 1 and all(isinstance(tg, ast.Name) for tg in s.targets):
                    # a = b = <expr>: one object, several names
                    g = s2.alias.get(s.value.id) if isinstance(s.value, ast.Name) else None
                    if g is None:
                        g = next(self._fresh)
                    for tg in s.targets:
                        s2.alias[tg.id] = g
                res.append(Exit('fall', None, s2))
            return res
        if isinstance(s, ast.AnnAssign):
            if s.value is None:
                return [Exit('fall', None, st)]
            res = []
            for t, s2, k in self._ev(s.value, st, mod, fi, depth):
                if k == 'raise':
                    res.append(Exit('raise', t, s2, s))
                else:
                    res.append(Exit('fall', None, self._assign(s.target, t, s2, mod, fi, depth, ln)))
            return res
        if isinstance(s, ast.AugAssign):
            load = ast.copy_location(_as_load(s.target), s.target)
            e = ast.BinOp(left=load, op=s.op, right=s.value)
            ast.copy_location(e, s)
            res = []
            for t, s2, k in self._ev(e, st, mod, fi, depth):
                if k == 'raise':
                    res.append(Exit('raise', t, s2, s))
                else:
                    t = ('bin', t[1], t[2], t[3]) if t[0] == 'bin' else t
                    peers = []
                    if isinstance(s.target, ast.Name) and s.target.id in s2.alias:
                        old = s2.env.get(s.target.id)
                        g = s2.alias[s.target.id]
                        if old is not None and _is_array_expr(old):
                            peers = [n for n, gg in s2.alias.items() if gg == g and n != s.target.id
                                     and s2.env.get(n) == old]
                    s2 = self._assign(s.target, t, s2, mod, fi, depth, ln, aug=True)
                    if isinstance(s.target, ast.Name) and s.target.id in s2.alias or peers:
                        g = s2.alias.get(s.target.id)
                    for n in peers:
                        # an augmented assignment updates an array in place: every other name of that object sees it
                        s2.env[n] = t
                        s2.trace.append('%d:in-place update of %s also changes its alias %s' % (ln, s.target.id, n))
                    res.append(Exit('fall', None, s2))
            return res
        if isinstance(s, ast.Return):
            if s.value is None:
                return [Exit('return', NONE, st, s)]
            return [Exit('raise' if k == 'raise' else 'return', t, s2, s)
                    for t, s2, k in self._ev(s.value, st, mod, fi, depth)]
        if isinstance(s, ast.Raise):
            if s.exc is None:
                return [Exit('raise', S('reraise'), st, s)]
            return [Exit('raise', t, s2, s) for t, s2, k in self._ev(s.exc, st, mod, fi, depth)]
        if isinstance(s, ast.Pass):
            return [Exit('fall', None, st)]
        if isinstance(s, ast.Break):
            return [Exit('break', None, st, s)]
        if isinstance(s, ast.Continue):
            return [Exit('continue', None, st, s)]
        if isinstance(s, ast.If):
            res = []
            for truth, s2, k, t in self._cond(s.test, st, mod, fi, depth):
                if k == 'raise':
                    res.append(Exit('raise', t, s2, s))
                    continue
                s2.trace.append('%d:%s=%s' % (ln, unparse(s.test)[:60], truth))
                body = s.body if truth else s.orelse
                res.extend(self._block(body, s2, fi, depth))
            return res
        if isinstance(s, ast.While):
            return self._while(s, st, fi, depth)
        if isinstance(s, ast.For):
            return self._for(s, st, fi, depth)
        if isinstance(s, ast.With):
            states = [st]
            for item in s.items:
                nxt = []
                for cur in states:
                    for t, s2, k in self._ev(item.context_expr, cur, mod, fi, depth):
                        if k == 'raise':
                            continue
                        if item.optional_vars is not None:
                            s2 = self._assign(item.optional_vars, t, s2, mod, fi, depth, ln)
                        s2.effects.append(('with', t, ln))
                        nxt.append(s2)
                states = nxt
            res = []
            for cur in states:
                res.extend(self._block(s.body, cur, fi, depth))
            return res
        if isinstance(s, ast.Try):
            return self._try(s, st, fi, depth)
        if isinstance(s, (ast.FunctionDef, ast.AsyncFunctionDef)):
            st.env[s.name] = ('func', fi.qualname + '.' + s.name)
            return [Exit('fall', None, st)]
        if isinstance(s, (ast.Import, ast.ImportFrom, ast.Global, ast.Nonlocal, ast.ClassDef)):
            return [Exit('fall', None, st)]
        if isinstance(s, ast.Delete):
            for tgt in s.targets:
                if isinstance(tgt, ast.Subscript):
                    for bt, s2, k in self._ev(tgt.value, st, mod, fi, depth):
                        for it, s3, k2 in self._ev(tgt.slice, s2, mod, fi, depth):
                            s3.effects.append(('delitem', bt, it, ln))
                            key = _lvalue_key(tgt.value)
                            if key:
                                s3.env[key] = ('mut', 'delitem', bt, (it,))
                            st = s3
                elif isinstance(tgt, ast.Name):
                    st.env.pop(tgt.id, None)
            return [Exit('fall', None, st)]
        if isinstance(s, ast.Assert):
            return [Exit('fall', None, st)]
        raise AnalysisError('unsupported statement %s' % type(s).__name__, node=s)

    # ------------------------------------------------------------------- loops
    def _modified(self, stmts, fi=None):
        names = self._modified0(stmts)
        if fi is not None:
            names |= self._modified_by_callees(stmts, fi)
        # views created inside the statements: a store through `v` (v = P[...]) also changes P
        parent = {}
        for s_ in stmts:
            for n in ast.walk(s_):
                if isinstance(n, ast.Assign) and len(n.targets) == 1 and isinstance(n.targets[0], ast.Name):
                    r = _view_root(n.value, allow_names=True)
                    if r is not None and r != n.targets[0].id:
                        parent[n.targets[0].id] = r
        if parent:
            stored = set()
            for s_ in stmts:
                for n in ast.walk(s_):
                    if isinstance(n, ast.Subscript) and isinstance(n.ctx, (ast.Store, ast.Del)):
                        k = _root_name(n)
                        if k:
                            stored.add(k)
                    elif isinstance(n, ast.AugAssign) and isinstance(n.target, ast.Name):
                        stored.add(n.target.id)
            for k in stored:
                seen_ = set()
                while k in parent and k not in seen_:
                    seen_.add(k)
                    k = parent[k]
                    names.add(k)
        if fi is not None:
            # `np.append(...)` is a library call, not a mutation of a variable called np
            aliases = set(fi.module.imports) - set(fi.local_names())
            names -= aliases
        return names

    def _modified_by_callees(self, stmts, fi):
        """Local arrays handed (directly or as a basic-index view) to a repository function that updates that
        parameter in place (summaries of the mutation analysis)."""
        out = set()
        calls = [n for s_ in stmts for n in ast.walk(s_) if isinstance(n, ast.Call)]
        if not calls:
            return out
        ma = self.__dict__.get('_mutana')
        if ma is None:
            from .effects import MutationAnalysis
            ma = self.__dict__['_mutana'] = MutationAnalysis(self.P)
        for c in calls:
            try:
                ca = self.P.resolve_callee(fi.module, fi, c.func)
            except Exception:
                continue
            f = getattr(ca, 'func', None)
            if ca is None or ca.kind != 'repo' or f is None:
                continue
            try:
                mp = ma.mutated_params(f)
            except Exception:
                continue
            if not mp:
                continue
            formals = [x for x in f.params if x not in ('self', 'cls')]
            pairs = list(zip(formals, c.args)) + [(k.arg, k.value) for k in c.keywords if k.arg]
            for formal, a in pairs:
                if formal not in mp:
                    continue
                r = a.id if isinstance(a, ast.Name) else _view_root(a, allow_names=True)
                if r:
                    out.add(r)
        return out

    def _modified0(self, stmts):
        names = set()
        for s in stmts:
            for n in ast.walk(s):
                if isinstance(n, ast.Name) and isinstance(n.ctx, (ast.Store, ast.Del)):
                    names.add(n.id)
                elif isinstance(n, (ast.Subscript, ast.Attribute)) and isinstance(n.ctx, (ast.Store, ast.Del)):
                    k = _lvalue_key(n.value if isinstance(n, ast.Subscript) else n)
                    if k:
                        names.add(k)
                    k2 = _root_name(n)
                    if k2:
                        names.add(k2)
                elif isinstance(n, ast.Call) and isinstance(n.func, ast.Attribute) \
                        and n.func.attr in MUTATING_METHODS:
                    k = _lvalue_key(n.func.value)
                    if k:
                        names.add(k)
        return names

    def _counter_steps(self, stmts, name):
        """True if `name` is only modified by `name += <positive const>` in stmts."""
        ok = False
        for s in stmts:
            for n in ast.walk(s):
                if isinstance(n, ast.AugAssign) and isinstance(n.target, ast.Name) and n.target.id == name:
                    if isinstance(n.op, ast.Add) and isinstance(n.value, ast.Constant) \
                            and isinstance(n.value.value, int) and n.value.value > 0:
                        ok = True
                    else:
                        return False
                elif isinstance(n, ast.Name) and n.id == name and isinstance(n.ctx, ast.Store):
                    # plain assignment somewhere: AugAssign targets are also Store - check parent kind
                    pass
            for n in ast.walk(s):
                if isinstance(n, (ast.Assign, ast.For, ast.With, ast.comprehension, ast.NamedExpr)):
                    tg = []
                    if isinstance(n, ast.Assign):
                        tg = n.targets
                    elif isinstance(n, (ast.For, ast.comprehension)):
                        tg = [n.target]
                    elif isinstance(n, ast.NamedExpr):
                        tg = [n.target]
                    if isinstance(n, ast.Assign) and len(tg) == 1 and isinstance(tg[0], ast.Name) and tg[0].id == name \
                            and isinstance(n.value, ast.BinOp) and isinstance(n.value.op, ast.Add):
                        # name = name + k  /  name = k + name  is the same step as  name += k
                        l_, r_ = n.value.left, n.value.right
                        for a_, b_ in ((l_, r_), (r_, l_)):
                            if isinstance(a_, ast.Name) and a_.id == name and isinstance(b_, ast.Constant) \
                                    and type(b_.value) is int and b_.value > 0:
                                ok = True
                                break
                        else:
                            return False
                        continue
                    for t in tg:
                        for m in ast.walk(t):
                            if isinstance(m, ast.Name) and m.id == name:
                                return False
        return ok

    def _havoc(self, base, modified, body, tag, back_states=None):
        head = base.copy()
        for name in sorted(modified):
            atom = S('%s@%s' % (name, tag))
            if self._counter_steps(body, name) and back_states:
                los = []
                for bs in back_states:
                    b = self.bounds(bs.env.get(name, S(name)), bs)
                    los.append(b[0])
                if los and all(x is not None for x in los):
                    head.facts[atom[1]] = {'ge': min(los)}
            elif self._counter_steps(body, name):
                b = self.bounds(base.env.get(name, S(name)), base)
                if b[0] is not None:
                    head.facts[atom[1]] = {'ge': b[0]}
            head.env[name] = atom
            head.subst.pop(atom, None)
        return head

    def _while(self, s, st, fi, depth):
        mod = fi.module
        ln = s.lineno
        tag = 'L%d' % ln
        modified = self._modified(s.body, fi)
        modified |= {st.alias['view:' + n_] for n_ in modified if ('view:' + n_) in st.alias}
        modified |= {st.alias['viewparent:' + n_] for n_ in modified if ('viewparent:' + n_) in st.alias}

        broke_all = []

        ends_all = []          # (passno, how, state): every way one iteration of the body ends
        #   how in {'continue' (test true again), 'test' (test false), 'break', 'return', 'raise'}

        def run_pass(head, passno):
            back, exits, after = [], [], []
            broke = []
            ends = []
            broke_all.append((passno, broke))
            ends_all.append((passno, ends))
            for truth, s2, k, t in self._cond(s.test, head, mod, fi, depth):
                if k == 'raise':
                    exits.append(Exit('raise', t, s2, s))
                    continue
                s2.trace.append('%d:while[%s] %s=%s' % (ln, passno, unparse(s.test)[:40], truth))
                if not truth:
                    after.append(s2)
                    continue
                for e in self._block(s.body, s2, fi, depth):
                    if e.kind in ('fall', 'continue'):
                        back.append(e.state)
                    elif e.kind == 'break':
                        after.append(e.state)
                        broke.append(e.state)
                        ends.append(('break', e.state.copy()))
                    else:
                        exits.append(e)
                        ends.append((e.kind, e.state.copy()))
            cont = []
            for b in back:
                for truth, s2, k, t in self._cond(s.test, b, mod, fi, depth):
                    if k == 'raise':
                        exits.append(Exit('raise', t, s2, s))
                    elif truth:
                        cont.append(s2)
                        ends.append(('continue', s2.copy()))
                    else:
                        s2.trace.append('%d:while exit after iteration %s' % (ln, passno))
                        after.append(s2)
                        ends.append(('test', s2.copy()))
            return back, cont, exits, after

        st0 = st.copy()          # states are updated in place along a path: keep the entry state
        st = st0.copy()
        back1, cont1, exits, after = run_pass(st0.copy(), '1')
        body_states = [('back', b) for b in back1]
        summary_head = st0.env
        if cont1:
            # head of iterations >= 2: join of the continuing states, widened until stable.
            # A modified variable keeps its term only if every continuing state agrees on it.
            head = self._join_head(st, modified, s.body, tag, cont1, None)
            for rounds in range(8):
                head.trace.append('%d:while iteration>=2' % ln)
                back2, cont2, exits2, after2 = run_pass(head.copy(), '>=2')
                new_head = self._join_head(st, modified, s.body, tag, cont1 + cont2, head)
                if all(new_head.env.get(v) == head.env.get(v) for v in modified):
                    break
                head = new_head
            else:
                raise AnalysisError('while loop head did not stabilise', node=s)
            exits += exits2
            after += after2
            body_states += [('back2', b) for b in back2]
            summary_head = dict(head.env)
        for passno, broke in (broke_all[:1] + broke_all[-1:] if len(broke_all) > 1 else broke_all):
            body_states += [('break' if passno == '1' else 'break2', b) for b in broke]
        res = list(exits)
        ends = []
        for passno, es in (ends_all[:1] + ends_all[-1:] if len(ends_all) > 1 else ends_all):
            ends += [(passno, how, e) for how, e in es]
        summ = LoopSummary(s, 'while', None, None, body_states, summary_head, dict(st0.env))
        summ.ends = ends
        summ.n_entry_conds = len(st0.conds)
        self.loops_seen.setdefault(s, []).append(summ)
        for e in res:
            # paths that leave the function from inside the loop (return / raise) still carry the loop's variables
            if all(ls is not summ for ls in e.state.loops):
                e.state.loops.append(summ)
        for a in after:
            a.loops.append(summ)
            if s.orelse:
                res.extend(self._block(s.orelse, a, fi, depth))
            else:
                res.append(Exit('fall', None, a))
        return res

    def _join_head(self, base, modified, body, tag, states, prev):
        head = base.copy()
        for name in sorted(modified):
            atom = S('%s@%s' % (name, tag))
            vals = {bs.env.get(name, S('undef:' + name)) for bs in states}
            if prev is not None and prev.env.get(name) == atom:
                vals.add(atom)
            if len(vals) == 1 and atom not in vals:
                head.env[name] = next(iter(vals))
                continue
            head.env[name] = atom
            if all(self.truth(('cmp', 'is', bs.env.get(name, S('undef:' + name)), NONE), bs) is False
                   for bs in states) and (prev is None or atom in prev.notnone):
                head.notnone.add(atom)
            if self._counter_steps(body, name):
                los = [self.bounds(bs.env.get(name, S(name)), bs)[0] for bs in states]
                if los and all(x is not None for x in los):
                    head.facts[atom[1]] = {'ge': min(los)}
        # not-None knowledge that every continuing state agrees on
        if states:
            common = set.intersection(*[set(bs.notnone) for bs in states])
            head.notnone |= common
        return head

    def _for(self, s, st, fi, depth):
        mod = fi.module
        ln = s.lineno
        tag = 'F%d' % ln + ('' if not getattr(s, '_synthetic_level', 0) else 'n%d' % s._synthetic_level)
        res = []
        # for v in itertools.count(k): body   ==   c = k; while True: v = c; c += 1; body
        # (an unbounded counting loop left by break / return: evaluated like the flag-controlled while loops, with
        # the first iteration peeled)
        nested = self._nested_for(s, fi)
        if nested is not None:
            states = [st]
            for asg in getattr(nested, '_prelude', []):
                nxt = []
                for s0 in states:
                    nxt.extend(e0.state for e0 in self._stmt(asg, s0, fi, depth) if e0.kind == 'fall')
                states = nxt
            out_ = []
            for s0 in states:
                out_.extend(self._for(nested, s0, fi, depth))
            return out_
        sy = synth_count_loop(self.P, fi, s)
        if sy is not None:
            init, loop = sy
            out = []
            for e0 in self._stmt(init, st, fi, depth):
                out.extend(self._while(loop, e0.state, fi, depth) if e0.kind == 'fall' else [e0])
            return out
        for it, s1, k in self._ev(s.iter, st, mod, fi, depth):
            if k == 'raise':
                res.append(Exit('raise', it, s1, s))
                continue
            items = _static_items(it)
            if items is not None and len(items) <= self.unroll_limit:
                res.extend(self._for_unrolled(s, s1, items, fi, depth))
                continue
            modified = self._modified(s.body, fi) | {n.id for n in ast.walk(s.target) if isinstance(n, ast.Name)}
            modified |= {s1.alias['view:' + n_] for n_ in modified if ('view:' + n_) in s1.alias}
            modified |= {s1.alias['viewparent:' + n_] for n_ in modified if ('viewparent:' + n_) in s1.alias}
            entry_env = dict(s1.env)
            head = self._havoc(s1, modified, s.body, tag)
            pair = _neighbour_pairs(it)
            if pair is not None and isinstance(s.target, (ast.Tuple, ast.List)) and len(s.target.elts) == 2:
                # for a, b in zip(X[:-1], X[1:])  ==  for j in range(len(X) - 1): a, b = X[j], X[j + 1]
                var = S('idx@%s' % tag)
                it = ('call', 'builtins.range', (('bin', '-', ('call', 'builtins.len', (pair,), ()), C(1)),), ())
                vals = ('tuple', (_mk_sub(pair, var), _mk_sub(pair, ('bin', '+', var, C(1)))))
                head = self._assign(s.target, vals, head, mod, fi, depth, ln)
            elif _enumerated_comp(it, s.target) is not None:
                # for i, v in enumerate(E(j) for j in R)   ==   for i in R': v = E(i)      (R = range(n), R' = range(n))
                # for v in (E(j) for j in R)               ==   for j in R: v = E(j)
                comp_, counted = _enumerated_comp(it, s.target)
                bv_, it_r, _c = comp_[3][0]
                if counted:
                    idx_t, val_t = s.target.elts
                    var = self._loopvar(idx_t, it_r, tag)
                else:
                    idx_t, val_t = None, s.target
                    var = S('%s@%s' % (bv_[1] if bv_[0] == 'bv' else 'idx', tag))
                it = it_r
                if idx_t is not None:
                    head = self._assign(idx_t, var, head, mod, fi, depth, ln)
                head = self._assign(val_t, substitute(comp_[2], {bv_: var}), head, mod, fi, depth, ln)
            else:
                var = self._loopvar(s.target, it, tag)
                head = self._assign(s.target, var, head, mod, fi, depth, ln)
            self._range_facts(var, it, head)
            head.trace.append('%d:for %s in %s' % (ln, unparse(s.target), show(it)[:60]))
            head_env = dict(head.env)      # states are updated in place: keep the head snapshot
            body_states = []
            after = []
            for e in self._block(s.body, head.copy(), fi, depth):
                if e.kind in ('fall', 'continue'):
                    body_states.append(('back', e.state))
                elif e.kind == 'break':
                    body_states.append(('break', e.state))
                    after.append(e.state)
                else:
                    res.append(e)
            # state after the loop: zero or more iterations -> modified variables are arbitrary.
            # Variables not modified keep their values; path conditions of the body are dropped.
            post = self._havoc(s1, modified, s.body, tag + 'post')
            # a list filled by exactly one append per iteration is the comprehension over the same iterable:
            #   out = []; for v in IT: out.append(E(v))   ==   out = [E(v) for v in IT]
            flat_tuple = var[0] == 'tuple' and var[1] and all(x[0] == 's' for x in var[1])
            if not after and not res_has_exit(res, s) and body_states and (var[0] == 's' or flat_tuple):
                for name in sorted(modified):
                    start = entry_env.get(name)
                    hd = head_env.get(name)
                    if start is None or start[0] != 'list' or hd is None:
                        continue
                    elts = set()
                    for kind, b in body_states:
                        v = b.env.get(name)
                        if v is not None and v[0] == 'mut' and v[1] == 'append' and v[2] == hd and len(v[3]) == 1:
                            elts.add(v[3][0])
                        else:
                            elts.add(None)
                    if len(elts) == 1 and None not in elts:
                        if flat_tuple:
                            # for a, b in IT: out.append(E(a, b))   ==   [E(r[0], r[1]) for r in IT]
                            bv = ('bv', '_'.join(x[1].split('@')[0] for x in var[1]))
                            sub_ = {x: ('sub', bv, C(i_)) for i_, x in enumerate(var[1])}
                        else:
                            bv = ('bv', var[1].split('@')[0])
                            sub_ = {var: bv}
                        comp = ('comp', 'list', substitute(next(iter(elts)), sub_), ((bv, it, ()),))
                        post.env[name] = comp if not start[1] else ('bin', '+', start, comp)
            post.loops.append(LoopSummary(s, 'for', var, it, body_states, head_env, entry_env))
            self.loops_seen.setdefault(s, []).append(post.loops[-1])
            post.trace.append('%d:for done' % ln)
            if s.orelse:
                res.extend(self._block(s.orelse, post, fi, depth))
            else:
                res.append(Exit('fall', None, post))
            for a in after:
                a2 = self._havoc(a, set(), s.body, tag)
                a2.loops.append(LoopSummary(s, 'for', var, it, body_states, head_env, entry_env))
                res.append(Exit('fall', None, a2))
        return res

    def _nested_for(self, s, fi):
        """for a, b in itertools.product(R1, R2): body   ==   for a in R1: for b in R2: body
        for a, b in np.ndindex(n, m) / np.ndindex(*A.shape[:2]) likewise with ranges.  Only when the body has no
        `break` of its own (a break would leave one loop instead of all) and no `else` clause."""
        cache = self.__dict__.setdefault('_nested_cache', {})
        if id(s) in cache:
            return cache[id(s)]
        cache[id(s)] = None
        if s.orelse or not isinstance(s.target, (ast.Tuple, ast.List)) or not isinstance(s.iter, ast.Call):
            return None
        if any(isinstance(e, ast.Starred) for e in s.target.elts):
            return None
        try:
            d = self.P.resolve(fi.module, s.iter.func, fi)
        except Exception:
            d = None
        n = len(s.target.elts)
        iters = None
        if d == 'itertools.product' and not s.iter.keywords and len(s.iter.args) == n and n >= 2 \
                and not any(isinstance(a, ast.Starred) for a in s.iter.args):
            iters = list(s.iter.args)
        elif d == 'numpy.ndindex' and not s.iter.keywords:
            args = list(s.iter.args)
            if len(args) == n and not any(isinstance(a, ast.Starred) for a in args):
                iters = [ast.Call(func=ast.Name(id='range', ctx=ast.Load()), args=[a], keywords=[]) for a in args]
            elif len(args) == 1 and isinstance(args[0], ast.Starred):
                # np.ndindex(*X.shape) with a target of n names: X is n-dimensional on this path
                shp = args[0].value
                iters = [ast.Call(func=ast.Name(id='range', ctx=ast.Load()),
                                  args=[ast.Subscript(value=shp, slice=ast.Constant(value=k), ctx=ast.Load())], keywords=[])
                         for k in range(n)]
        if iters is None:
            return None
        prelude = []
        if d == 'numpy.ndindex':
            # the extents are evaluated once, before the first iteration (the loop body may store into the array
            # whose shape they are taken from)
            for k, itc in enumerate(iters):
                nm = '__nd%d_%d' % (s.lineno, k)
                asg = ast.Assign(targets=[ast.Name(id=nm, ctx=ast.Store())], value=itc.args[0], type_comment=None)
                ast.copy_location(asg, s)
                ast.fix_missing_locations(asg)
                prelude.append(asg)
                itc.args = [ast.Name(id=nm, ctx=ast.Load())]

        def own_break(nodes):
            for x in nodes:
                if isinstance(x, ast.Break):
                    return True
                if isinstance(x, (ast.For, ast.While, ast.FunctionDef, ast.Lambda)):
                    continue
                if own_break(list(ast.iter_child_nodes(x))):
                    return True
            return False
        if own_break(s.body):
            return None
        body = s.body
        node = None
        for tgt, it in reversed(list(zip(s.target.elts, iters))):
            node = ast.For(target=tgt, iter=it, body=body, orelse=[], type_comment=None)
            ast.copy_location(node, s)
            ast.fix_missing_locations(node)
            body = [node]
        # distinct line tags for the synthetic inner loops (loop symbols are named after the line)
        k = 0
        cur = node
        while isinstance(cur, ast.For) and cur is not None:
            cur.lineno = s.lineno + (0 if k == 0 else 0)
            cur._synthetic_level = k
            k += 1
            cur = cur.body[0] if len(cur.body) == 1 and isinstance(cur.body[0], ast.For) and getattr(cur.body[0], 'target', None) in s.target.elts else None
        node._prelude = prelude
        cache[id(s)] = node
        return node

    def _for_unrolled(self, s, st, items, fi, depth):
        """Concrete unrolling of `for target in <literal sequence>`."""
        mod = fi.module
        states = [st]
        out = []
        for item in items:
            nxt = []
            for cur in states:
                cur = self._assign(s.target, item, cur, mod, fi, depth, s.lineno)
                for e in self._block(s.body, cur, fi, depth):
                    if e.kind in ('fall', 'continue'):
                        nxt.append(e.state)
                    elif e.kind == 'break':
                        out.append(Exit('fall', None, e.state))
                    else:
                        out.append(e)
            states = nxt
        for cur in states:
            if s.orelse:
                out.extend(self._block(s.orelse, cur, fi, depth))
            else:
                out.append(Exit('fall', None, cur))
        return out

    def _loopvar(self, target, it, tag):
        if isinstance(target, ast.Name):
            return S('%s@%s' % (target.id, tag))
        if isinstance(target, (ast.Tuple, ast.List)):
            return ('tuple', tuple(self._loopvar(e, it, tag) for e in target.elts))
        return S('loopvar@%s' % tag)

    def _range_facts(self, var, it, st):
        if var[0] != 's':
            return
        if it[0] == 'call' and it[1] == 'builtins.range' and not it[3]:
            a = it[2]
            if len(a) == 1:
                lo = 0
            elif len(a) >= 2:
                lo = self.bounds(a[0], st)[0]
            else:
                lo = None
            f = {'range': it}
            if lo is not None:
                f['ge'] = lo
            st.facts[var[1]] = f
        else:
            st.facts[var[1]] = {'iter': it}

    def _try(self, s, st, fi, depth):
        res = []
        body_exits = self._block(s.body, st, fi, depth)
        modified = self._modified(s.body, fi)
        normal = []
        handled_any = bool(s.handlers)
        for e in body_exits:
            if e.kind == 'raise' and handled_any:
                # explicit raise inside try: goes to the handlers
                for h in s.handlers:
                    hs = e.state.copy()
                    if h.name:
                        hs.env[h.name] = e.value
                    normal.extend(self._block(h.body, hs, fi, depth))
                    break
            else:
                normal.append(e)
        # implicit exceptions at an arbitrary point of the body
        for h in s.handlers:
            hs = self._havoc(st, modified, s.body, 'T%d' % s.lineno)
            hs.trace.append('%d:except %s' % (h.lineno, unparse(h.type) if h.type else ''))
            if h.name:
                hs.env[h.name] = S('exc@%d' % h.lineno)
            normal.extend(self._block(h.body, hs, fi, depth))
        out = []
        for e in normal:
            if e.kind == 'fall' and s.orelse and e.state is not None:
                out.extend(self._block(s.orelse, e.state, fi, depth))
            else:
                out.append(e)
        if s.finalbody:
            fin = []
            for e in out:
                for fe in self._block(s.finalbody, e.state, fi, depth):
                    if fe.kind == 'fall':
                        fin.append(Exit(e.kind, e.value, fe.state, e.node))
                    else:
                        fin.append(fe)
            out = fin
        return out

    # -------------------------------------------------------------- assignment
    def _assign(self, tgt, t, st, mod, fi, depth, ln, aug=False):
        if isinstance(tgt, ast.Name):
            st.env[tgt.id] = t
            return st
        if isinstance(tgt, (ast.Tuple, ast.List)):
            n = len(tgt.elts)
            if t[0] in ('tuple', 'list') and len(t[1]) == n and not any(
                    isinstance(e, ast.Starred) for e in tgt.elts):
                for e, x in zip(tgt.elts, t[1]):
                    st = self._assign(e, x, st, mod, fi, depth, ln)
            else:
                for i, e in enumerate(tgt.elts):
                    if isinstance(e, ast.Starred):
                        st = self._assign(e.value, ('sub', t, ('slice', C(i), NONE, NONE)), st, mod, fi, depth, ln)
                    else:
                        st = self._assign(e, ('sub', t, C(i)), st, mod, fi, depth, ln)
            return st
        if isinstance(tgt, ast.Subscript):
            outs = self._ev(tgt.value, st, mod, fi, depth)
            bt, st, _ = outs[0]
            outs = self._ev(tgt.slice, st, mod, fi, depth)
            it, st, _ = outs[0]
            key = _lvalue_key(tgt.value)
            it = _slice_index(it)
            st.effects.append(('setitem', bt, it, t, ln, key))
            if key:
                if bt[0] == 'list' and is_c(it) and type(it[1]) is int and -len(bt[1]) <= it[1] < len(bt[1]):
                    items = list(bt[1])
                    items[it[1]] = t
                    st.env[key] = ('list', tuple(items))
                else:
                    st.env[key] = ('setitem', bt, it, t)
                root = st.alias.get('view:' + key)
                if root is not None and root in st.env:
                    parent = st.alias.get('viewparent:' + key)
                    done_parent = False
                    if parent is not None and parent in st.env and bt[0] == 'sub' and st.env[parent] == bt[1] \
                            and it in (C(Ellipsis), ('slice', NONE, NONE, NONE)):
                        # v = P[idx0]; v[...] = t   is   P[idx0] = t
                        st.env[parent] = ('setitem', bt[1], bt[2], t)
                        st.effects.append(('setitem', bt[1], bt[2], t, ln, parent))
                        done_parent = True
                    if not (done_parent and parent == root):
                        st.env[root] = ('setitem', st.env[root], ('viewidx', C(key), it), t)
                    st.trace.append('%d:store through the view %s also changes %s' % (ln, key, root))
            return st
        if isinstance(tgt, ast.Attribute):
            outs = self._ev(tgt.value, st, mod, fi, depth)
            bt, st, _ = outs[0]
            key = _lvalue_key(tgt)
            st.effects.append(('setattr', bt, tgt.attr, t, ln, key))
            if key:
                st.env[key] = t
            return st
        if isinstance(tgt, ast.Starred):
            return self._assign(tgt.value, t, st, mod, fi, depth, ln)
        raise AnalysisError('unsupported assignment target %s' % type(tgt).__name__, node=tgt)

    # -------------------------------------------------------------- conditions
    def _cond(self, test, st, mod, fi, depth):
        """Yield (truth, state, kind, term) for each way `test` can turn out."""
        out = []
        if isinstance(test, ast.BoolOp):
            # short-circuit, left to right
            is_and = isinstance(test.op, ast.And)

            def rec(i, s):
                if i == len(test.values):
                    out.append((is_and, s, 'ok', None))
                    return
                for truth, s2, k, t in self._cond(test.values[i], s, mod, fi, depth):
                    if k == 'raise':
                        out.append((None, s2, 'raise', t))
                    elif truth != is_and:
                        out.append((truth, s2, 'ok', None))
                    else:
                        rec(i + 1, s2)
            rec(0, st)
            return out
        if isinstance(test, ast.UnaryOp) and isinstance(test.op, ast.Not):
            for truth, s2, k, t in self._cond(test.operand, st, mod, fi, depth):
                out.append((None if k == 'raise' else (not truth), s2, k, t))
            return out
        for t, s2, k in self._ev(test, st, mod, fi, depth):
            if k == 'raise':
                out.append((None, s2, 'raise', t))
                continue
            t = _expand_any_all(t)
            if t[0] in ('and', 'or') and len(t[1]) <= 4:
                # a conjunction / disjunction that arrives as a term (any(x is None for x in (a, b)), a flag computed
                # earlier): decided operand by operand with short-circuit, like the boolean operator itself
                is_and = t[0] == 'and'

                def rec(i, s_):
                    if i == len(t[1]):
                        out.append((is_and, s_, 'ok', None))
                        return
                    x = t[1][i]
                    v_ = self.truth(x, s_)
                    branches = [(v_, s_)] if v_ is not None else []
                    if v_ is None:
                        for b_ in (True, False):
                            s3_ = s_.copy()
                            self.assume(x, b_, s3_, getattr(test, 'lineno', 0))
                            branches.append((b_, s3_))
                    for tv_, sx in branches:
                        if tv_ != is_and:
                            out.append((tv_, sx, 'ok', None))
                        else:
                            rec(i + 1, sx)
                rec(0, s2)
                continue
            v = self.truth(t, s2)
            if v is not None:
                out.append((v, s2, 'ok', t))
            else:
                self.stats['forks'] += 1
                self._count()
                for b in (True, False):
                    s3 = s2.copy()
                    self.assume(t, b, s3, getattr(test, 'lineno', 0))
                    out.append((b, s3, 'ok', t))
        return out

    def assume(self, t, b, st, ln=0):
        st.conds.append((t, b, ln))
        if t[0] == 'un' and t[1] == 'not':
            return self.assume(t[2], not b, st, ln)
        if t[0] == 'call' and t[1] in ('builtins.bool', 'numpy.bool_') and len(t[2]) == 1 and not t[3]:
            return self.assume(t[2][0], b, st, ln)
        if (t[0] == 'or' and not b) or (t[0] == 'and' and b):
            # not (a or b or c)  =>  every disjunct is false ;  (a and b)  =>  every conjunct is true
            for x in t[1]:
                self.assume(x, b, st, ln)
            return
        if t[0] == 'cmp':
            op, a, c = t[1], t[2], t[3]
            if not b:
                op = NEG[op]
            if op == 'is' and is_c(c) and c[1] is None:
                self._refine(a, NONE, st)
            elif op == 'isnot' and is_c(c) and c[1] is None:
                st.notnone.add(a)
            elif op == '==' and is_c(c) and isinstance(c[1], (str, int, bool)) and not isinstance(c[1], float):
                self._refine(a, c, st)
            elif op == '==' and is_c(a) and isinstance(a[1], (str, int, bool)):
                self._refine(c, a, st)

    def _refine(self, a, const, st):
        # every variable currently holding term `a` now holds the constant
        st.subst[a] = const
        for k, v in list(st.env.items()):
            if v == a:
                st.env[k] = const

    def bounds(self, t, st):
        """(lo, hi) integer bounds of a term, None when unknown."""
        t = st.subst.get(t, t)
        if is_c(t) and isinstance(t[1], (int, float)) and not isinstance(t[1], bool):
            return (t[1], t[1])
        if t[0] == 's':
            f = st.facts.get(t[1], {})
            return (f.get('ge'), f.get('le'))
        if t[0] == 'bin':
            a = self.bounds(t[2], st)
            b = self.bounds(t[3], st)
            if t[1] == '+':
                return (_add(a[0], b[0]), _add(a[1], b[1]))
            if t[1] == '-':
                return (_sub(a[0], b[1]), _sub(a[1], b[0]))
            if t[1] == '*' and a[0] is not None and a[0] == a[1] and a[0] >= 0:
                return (_mul(a[0], b[0]), _mul(a[0], b[1]))
            if t[1] == '*' and b[0] is not None and b[0] == b[1] and b[0] >= 0:
                return (_mul(b[0], a[0]), _mul(b[0], a[1]))
        if t[0] == 'call' and t[1] == 'builtins.len':
            return (0, None)
        return (None, None)

    def truth(self, t, st):
        """Three-valued truth of a term in a state."""
        t = st.subst.get(t, t)
        k = t[0]
        if k == 'call' and t[1] in ('builtins.bool', 'numpy.bool_') and len(t[2]) == 1 and not t[3]:
            return self.truth(t[2][0], st)
        if k in ('cmp', 'un', 'and', 'or', 'call', 'meth', 'sub', 's', 'attr', 'callv'):
            # a test already decided on this path keeps its outcome (same term, same path)
            for c0, tr, ln in reversed(st.conds):
                if c0 == t:
                    return tr
        if k == 'c':
            try:
                return bool(t[1])
            except Exception:
                return None
        if k in ('dict', 'list', 'tuple', 'set'):
            return len(t[1]) > 0
        if k == 'un' and t[1] == 'not':
            v = self.truth(t[2], st)
            return None if v is None else (not v)
        if k == 'and':
            vs = [self.truth(x, st) for x in t[1]]
            if any(v is False for v in vs):
                return False
            if all(v is True for v in vs):
                return True
            return None
        if k == 'or':
            vs = [self.truth(x, st) for x in t[1]]
            if any(v is True for v in vs):
                return True
            if all(v is False for v in vs):
                return False
            return None
        if k == 'cmp':
            op, a, b = t[1], st.subst.get(t[2], t[2]), st.subst.get(t[3], t[3])
            if op in ('is', 'isnot') and is_c(b) and b[1] is None:
                r = None
                if is_c(a):
                    r = a[1] is None
                elif a in st.notnone or a[0] in ('dict', 'list', 'tuple', 'set', 'bin', 'cmp', 'setitem', 'mut',
                                                 'comp', 'func') or _is_array_expr(a) or (
                        a[0] == 'call' and a[1] in ('builtins.slice', 'builtins.dict', 'builtins.list', 'builtins.tuple',
                                                    'builtins.set', 'builtins.range', 'builtins.len', 'builtins.int',
                                                    'builtins.float', 'builtins.str', 'builtins.bool')):
                    r = False
                if r is not None:
                    return r if op == 'is' else (not r)
            if op in ('is', 'isnot') and is_c(b) and isinstance(b[1], bool) and a[0] == 'call' \
                    and a[1] in ('numpy.all', 'numpy.any', 'numpy.isnan', 'numpy.array_equal', 'numpy.allclose',
                                 'numpy.logical_and', 'numpy.logical_or', 'numpy.logical_not', 'numpy.isfinite'):
                # a numpy boolean is never the Python singleton True / False: `np.all(..) is False` is always False
                return op == 'isnot'
            if op in ('is', 'isnot') and is_c(a) and is_c(b):
                r = (a[1] is b[1]) if isinstance(b[1], (bool, type(None))) else (a[1] == b[1])
                return r if op == 'is' else not r
            if is_c(a) and is_c(b) and op in ('==', '!=', '<', '<=', '>', '>='):
                import operator as _op
                try:
                    # only the requested operator is applied: `0.25 == 'zc'` is False although `0.25 < 'zc'` is a TypeError
                    return bool({'==': _op.eq, '!=': _op.ne, '<': _op.lt, '<=': _op.le, '>': _op.gt, '>=': _op.ge}[op](a[1], b[1]))
                except TypeError:
                    return None
            if op in ('in', 'notin') and is_c(a) and b[0] in ('list', 'tuple', 'set') \
                    and all(is_c(x) for x in b[1]):
                r = any(x[1] == a[1] for x in b[1])
                return r if op == 'in' else not r
            if op in ('in', 'notin') and is_c(a) and b[0] == 'dict' and all(is_c(kk) for kk, _ in b[1]):
                r = any(kk[1] == a[1] for kk, _ in b[1])
                return r if op == 'in' else not r
            if op in ('==', '!=') and a == b and a[0] != 'call':
                return op == '=='
            if op in ('<', '<=', '>', '>=', '==', '!='):
                la, ha = self.bounds(a, st)
                lb, hb = self.bounds(b, st)
                r = _cmp_bounds(op, la, ha, lb, hb)
                if r is not None:
                    return r
        # previously assumed?
        for c, b, _ in reversed(st.conds):
            if c == t:
                return b
            if c[0] == 'cmp' and t[0] == 'cmp' and c[2:] == t[2:] and NEG.get(c[1]) == t[1]:
                return not b
        return None

    # ------------------------------------------------------------- expressions
    def _ev(self, e, st, mod, fi, depth):
        """Evaluate expression -> list of (term, state, 'ok'|'raise')."""
        if isinstance(e, ast.Constant):
            return [(C(e.value), st, 'ok')]
        if isinstance(e, ast.Name):
            if e.id in st.env:
                t = st.env[e.id]
                return [(st.subst.get(t, t), st, 'ok')]
            # enclosing function variables (closures)
            f = fi
            if f is not None and f.parent is not None and e.id in f.parent.local_names():
                if ('closure:' + e.id) in st.env:
                    return [(st.env['closure:' + e.id], st, 'ok')]
                return [(S('closure:' + e.id), st, 'ok')]
            d = self.P.resolve(mod, e, None)
            if d is not None:
                t = self._module_literal(d)
                if t is not None and t[0] in ('dict', 'list'):
                    # the value is the module-level object itself (shared by every caller), not a fresh literal
                    st.effects.append(('modref', d, t, getattr(e, 'lineno', 0)))
                return [((t if t is not None else ('ref', d)), st, 'ok')]
            return [(S('global:' + e.id), st, 'ok')]
        if isinstance(e, ast.Attribute):
            key = _lvalue_key(e)
            if key and key in st.env:
                return [(st.env[key], st, 'ok')]
            d = self.P.resolve(mod, e, fi) if not _rooted_in_env(e, st) else None
            if d == 'numpy.newaxis':
                return [(NONE, st, 'ok')]          # np.newaxis is None
            if d is not None:
                return [(('ref', d), st, 'ok')]
            return [(_mk_attr(t, e.attr), s2, k) if k == 'ok' else (t, s2, k)
                    for t, s2, k in self._ev(e.value, st, mod, fi, depth)]
        if isinstance(e, ast.BinOp):
            outs = []
            for ts, s2, k in self._ev_n([e.left, e.right], st, mod, fi, depth, lambda ts: ('pair', ts[0], ts[1])):
                if k != 'ok':
                    outs.append((ts, s2, k))
                    continue
                a, b = ts[1], ts[2]
                # a test used as a number (count += keep): its outcome on this path, when already decided
                if isinstance(e.op, (ast.Add, ast.Sub, ast.Mult)):
                    ops = []
                    for x in (a, b):
                        if x[0] in ('cmp', 'and', 'or') or (x[0] == 'un' and x[1] == 'not'):
                            tv = self.truth(x, s2)
                            if tv is not None:
                                x = C(int(tv))
                        ops.append(x)
                    a, b = ops
                outs.append((_fold(BINOPS[type(e.op)], a, b), s2, 'ok'))
            return outs
        if isinstance(e, ast.UnaryOp):
            op = UNOPS[type(e.op)]

            def mk(ts):
                if op == '-' and is_c(ts[0]) and isinstance(ts[0][1], (int, float)):
                    return C(-ts[0][1])
                return ('un', op, ts[0])
            return self._ev_n([e.operand], st, mod, fi, depth, mk)
        if isinstance(e, ast.Compare):
            items = [e.left] + list(e.comparators)

            def mk(ts):
                parts = [canon_cmp(CMPOPS[type(op)], ts[i], ts[i + 1]) for i, op in enumerate(e.ops)]
                return parts[0] if len(parts) == 1 else ('and', tuple(parts))
            outs = []
            for t, s2, k in self._ev_n(items, st, mod, fi, depth, mk):
                # a comparison of scalars whose outcome is known on this path is that boolean
                # (`flag = n != 1` with n == 1, or with n >= 2 from the counter facts)
                if k == 'ok' and t[0] == 'cmp' and self._scalar_decidable(t, s2):
                    v = self.truth(t, s2)
                    if v is not None:
                        t = C(v)
                outs.append((t, s2, k))
            return outs
        if isinstance(e, ast.BoolOp):
            kind = 'and' if isinstance(e.op, ast.And) else 'or'
            if _pure_test(e) and not getattr(self, '_nofork', 0):
                # a conjunction / disjunction of comparisons used as a value (flag = a is not None and n == a):
                # decided per path like a condition, so that later rules see which comparison held
                outs = []
                for truth, s2, k, t in self._cond(e, st, mod, fi, depth):
                    outs.append((t, s2, 'raise') if k == 'raise' else (C(bool(truth)), s2, 'ok'))
                return outs
            return self._ev_n(list(e.values), st, mod, fi, depth, lambda ts: (kind, tuple(ts)))
        if isinstance(e, ast.Tuple):
            return self._ev_n(list(e.elts), st, mod, fi, depth, lambda ts: ('tuple', tuple(ts)))
        if isinstance(e, ast.List):
            return self._ev_n(list(e.elts), st, mod, fi, depth, lambda ts: ('list', tuple(ts)))
        if isinstance(e, ast.Set):
            return self._ev_n(list(e.elts), st, mod, fi, depth, lambda ts: ('set', tuple(ts)))
        if isinstance(e, ast.Dict):
            ks = [k for k in e.keys]
            if any(k is None for k in ks):
                return [(self.fresh('dictmerge'), st, 'ok')]
            n = len(ks)
            return self._ev_n(ks + list(e.values), st, mod, fi, depth,
                              lambda ts: ('dict', tuple(zip(ts[:n], ts[n:]))))
        if isinstance(e, ast.Starred):
            return self._ev_n([e.value], st, mod, fi, depth, lambda ts: ('starred', ts[0]))
        if isinstance(e, ast.Subscript):
            return self._ev_n([e.value, e.slice], st, mod, fi, depth, lambda ts: _mk_sub(ts[0], ts[1]))
        if isinstance(e, ast.Slice):
            parts = [e.lower, e.upper, e.step]
            idx = [i for i, p in enumerate(parts) if p is not None]

            def mk(ts):
                full = [NONE, NONE, NONE]
                for i, t in zip(idx, ts):
                    full[i] = t
                return ('slice', full[0], full[1], full[2])
            return self._ev_n([parts[i] for i in idx], st, mod, fi, depth, mk)
        if isinstance(e, ast.IfExp) and getattr(self, '_nofork', 0):
            # inside a comprehension element: keep the conditional as a term (one element, not one path per case)
            return self._ev_n([e.test, e.body, e.orelse], st, mod, fi, depth, lambda ts: ('ifexp', ts[0], ts[1], ts[2]))
        if isinstance(e, ast.IfExp):
            out = []
            for truth, s2, k, t in self._cond(e.test, st, mod, fi, depth):
                if k == 'raise':
                    out.append((t, s2, 'raise'))
                else:
                    out.extend(self._ev(e.body if truth else e.orelse, s2, mod, fi, depth))
            return out
        if isinstance(e, ast.Call):
            return self._call(e, st, mod, fi, depth)
        if isinstance(e, (ast.ListComp, ast.GeneratorExp, ast.SetComp)):
            return self._comp(e, st, mod, fi, depth)
        if isinstance(e, ast.DictComp):
            return self._comp(e, st, mod, fi, depth)
        if isinstance(e, ast.JoinedStr):
            return [(('fstr', unparse(e)), st, 'ok')]
        if isinstance(e, ast.Lambda):
            return [(('lambda', unparse(e)), st, 'ok')]
        if isinstance(e, ast.NamedExpr):
            outs = self._ev(e.value, st, mod, fi, depth)
            for t, s2, k in outs:
                if k == 'ok':
                    s2.env[e.target.id] = t
            return outs
        if isinstance(e, (ast.Yield, ast.YieldFrom)):
            # generator body evaluated as straight-line code (context managers): the yield hands control away and back;
            # what is yielded is recorded as an effect ('yield', term, line) for rules about iterators
            if e.value is None:
                st.effects.append(('yield', NONE, getattr(e, 'lineno', 0)))
                return [(NONE, st, 'ok')]
            outs = []
            for t, s2, k in self._ev(e.value, st, mod, fi, depth):
                if k == 'ok':
                    s2.effects.append(('yield', t, getattr(e, 'lineno', 0)))
                    outs.append((NONE, s2, 'ok'))
                else:
                    outs.append((t, s2, k))
            return outs
        raise AnalysisError('unsupported expression %s' % type(e).__name__, node=e)

    def _scalar_decidable(self, t, st):
        a, b = st.subst.get(t[2], t[2]), st.subst.get(t[3], t[3])
        if is_c(a) and is_c(b):
            return True
        if t[1] in ('in', 'notin') and is_c(a) and b[0] in ('list', 'tuple', 'set') and all(is_c(x) for x in b[1]):
            return True
        if t[1] in ('==', '!=', '<', '<=', '>', '>='):
            for x in (a, b):
                if not is_c(x):
                    lo, hi = self.bounds(x, st)
                    if lo is None and hi is None:
                        return False
            return True
        return False

    def _module_literal(self, dotted):
        """Value term of a module-level constant table (tuple/list/dict literal of constants and function
        references), e.g. a dispatch table introduced by a refactoring; None for anything else."""
        cache = self.__dict__.setdefault('_modlit', {})
        if dotted in cache:
            return cache[dotted]
        cache[dotted] = None
        parts = dotted.split('.')
        mname, name = '.'.join(parts[:-1]), parts[-1]
        m = self.P.modules.get(mname)
        if m is None or name not in m.assigns:
            return None
        node = m.assigns[name]
        scalar_expr = isinstance(node, (ast.BinOp, ast.Constant, ast.UnaryOp, ast.Attribute))
        if not isinstance(node, (ast.Tuple, ast.List, ast.Dict)) and not scalar_expr:
            return None
        for n in ast.walk(node):
            if not isinstance(n, (ast.Tuple, ast.List, ast.Dict, ast.Constant, ast.Name, ast.Attribute, ast.Load,
                                  ast.UnaryOp, ast.USub, ast.BinOp, ast.Mult, ast.Div, ast.Add, ast.Sub, ast.Pow)):
                return None
        if scalar_expr:
            # a module-level numeric constant (`_TWO_PI = 2 * np.pi`): only when the name is bound once in the module
            nbind = sum(1 for st_ in m.tree.body if isinstance(st_, (ast.Assign, ast.AugAssign, ast.AnnAssign))
                        for t_ in (st_.targets if isinstance(st_, ast.Assign) else [st_.target])
                        for x_ in ast.walk(t_) if isinstance(x_, ast.Name) and x_.id == name) if hasattr(m, 'tree') else 1
            if nbind != 1 or any(isinstance(n, ast.Name) and n.id not in ('np', 'numpy', 'math') for n in ast.walk(node)):
                return None
        try:
            outs = self._ev(node, State(), m, None, self.max_depth)
        except AnalysisError:
            return None
        if len(outs) == 1 and outs[0][2] == 'ok':
            cache[dotted] = outs[0][0]
        return cache[dotted]

    def _ev_n(self, exprs, st, mod, fi, depth, mk):
        """Evaluate several sub-expressions left to right, combine with mk."""
        partial = [([], st)]
        out = []
        for e in exprs:
            nxt = []
            for ts, s in partial:
                for t, s2, k in self._ev(e, s, mod, fi, depth):
                    if k == 'raise':
                        out.append((t, s2, 'raise'))
                    else:
                        nxt.append((ts + [t], s2))
            partial = nxt
        for ts, s in partial:
            out.append((mk(ts), s, 'ok'))
        return out

    def _comp_static(self, e, st, mod, fi, depth):
        """[E(v) for v in <static items> if <decidable>]  ->  the literal list (None when not static)."""
        if not isinstance(e, (ast.ListComp, ast.GeneratorExp)):
            return None
        out = []
        budget = [4 * self.unroll_limit]

        def rec(gi, s):
            g = e.generators[gi]
            if g.is_async:
                return False
            outs = self._ev(g.iter, s, mod, fi, depth + self.max_depth)
            if len(outs) != 1 or outs[0][2] != 'ok':
                return False
            items = _static_items(outs[0][0])
            if items is None or len(items) > self.unroll_limit:
                return False
            for item in items:
                budget[0] -= 1
                if budget[0] < 0:
                    return False
                s2 = self._assign(g.target, item, outs[0][1].copy(), mod, fi, depth, e.lineno)
                keep = True
                for c in g.ifs:
                    co = self._ev(c, s2, mod, fi, depth + self.max_depth)
                    if len(co) != 1 or co[0][2] != 'ok':
                        return False
                    tr = self.truth(co[0][0], s2)
                    if tr is None:
                        return False
                    if not tr:
                        keep = False
                        break
                if not keep:
                    continue
                if gi + 1 < len(e.generators):
                    if not rec(gi + 1, s2):
                        return False
                else:
                    el = self._ev(e.elt, s2, mod, fi, depth + self.max_depth)
                    if len(el) != 1 or el[0][2] != 'ok':
                        return False
                    out.append(el[0][0])
            return True
        self._nofork = getattr(self, '_nofork', 0) + 1
        try:
            n_eff = len(st.effects)
            ok = rec(0, st.copy())
        finally:
            self._nofork -= 1
        if not ok:
            return None
        return [(('list', tuple(out)), st, 'ok')]

    def _comp(self, e, st, mod, fi, depth):
        static = self._comp_static(e, st, mod, fi, depth)
        if static is not None:
            return static
        s = st.copy()
        gens = []
        for g in e.generators:
            outs = self._ev(g.iter, s, mod, fi, depth)
            it, s, _ = outs[0]
            s = s.copy()
            var = self._bv(g.target, g.lineno if hasattr(g, 'lineno') else e.lineno)
            s = self._assign(g.target, var, s, mod, fi, depth, e.lineno)
            conds = []
            for c in g.ifs:
                co = self._ev(c, s, mod, fi, depth)
                conds.append(co[0][0])
            gens.append((var, it, tuple(conds)))
        self._nofork = getattr(self, '_nofork', 0) + 1
        try:
            if isinstance(e, ast.DictComp):
                kt = self._ev(e.key, s, mod, fi, depth + self.max_depth)
                vt = self._ev(e.value, s, mod, fi, depth + self.max_depth)
                t = ('comp', 'dict', ('tuple', (kt[0][0], vt[0][0])), tuple(gens))
                return [(t, st, 'ok')]
            elt = self._ev(e.elt, s, mod, fi, depth + self.max_depth)   # no inlining inside comprehensions
        finally:
            self._nofork -= 1
        kind = {ast.ListComp: 'list', ast.GeneratorExp: 'gen', ast.SetComp: 'set'}[type(e)]
        t = ('comp', kind, elt[0][0], tuple(gens))
        # effects inside the element expression are kept on the outer state
        st.effects.extend(x for x in elt[0][1].effects[len(st.effects):])
        return [(t, st, 'ok')]

    def _bv(self, target, ln):
        if isinstance(target, ast.Name):
            return ('bv', target.id)
        if isinstance(target, (ast.Tuple, ast.List)):
            return ('tuple', tuple(self._bv(x, ln) for x in target.elts))
        return ('bv', '?')

    # ------------------------------------------------------------------- calls
    def _call(self, e, st, mod, fi, depth):
        # evaluate arguments
        pos_nodes = list(e.args)
        kw_nodes = [k.value for k in e.keywords]
        n = len(pos_nodes)
        results = []
        is_method_on_value = False
        callee = self.P.resolve_callee(mod, fi, e.func) if not _rooted_in_env_call(e.func, st, fi) else None
        if (callee is None or callee.kind == 'unknown') and isinstance(e.func, ast.Attribute) \
                and isinstance(e.func.value, ast.Name) and e.func.value.id not in ('self', 'cls') and fi is not None:
            # obj.method(...) where obj was built in this method as cls() / ClassName(): a method of the own class
            f_ = fi
            while f_ is not None and f_.cls is None:
                f_ = f_.parent
            t_ = st.env.get(e.func.value.id)
            if f_ is not None and t_ is not None and t_[0] in ('callv', 'call'):
                made = t_[1]
                own = made in (S('cls'), 'cls', ('ref', '%s.%s' % (mod.name, f_.cls)), '%s.%s' % (mod.name, f_.cls))
                q_ = '%s.%s.%s' % (mod.name, f_.cls, e.func.attr)
                if own and q_ in self.P.funcs:
                    from .model import Callee
                    callee = Callee('repo', q_, self.P.funcs[q_])
        base_nodes = []
        if callee is None or callee.kind == 'unknown':
            if isinstance(e.func, ast.Attribute):
                is_method_on_value = True
                base_nodes = [e.func.value]
            elif callee is None or callee.dotted is None:
                base_nodes = [e.func]
        for ts, s2, k in self._ev_n_raw(base_nodes + pos_nodes + kw_nodes, st, mod, fi, depth):
            if k == 'raise':
                results.append((ts, s2, 'raise'))
                continue
            bt = ts[0] if base_nodes else None
            off = len(base_nodes)
            pos = ts[off:off + n]
            kws = []
            for kw, t in zip(e.keywords, ts[off + n:]):
                kws.append((kw.arg if kw.arg is not None else '**', t))
            res = self._apply(e, callee, bt, is_method_on_value, pos, kws, s2, mod, fi, depth)
            if self.observer is not None:
                for t, s3, k in res:
                    if k == 'ok':
                        self.observer(e, t, s3)
            results.extend(res)
        return results

    def _ev_n_raw(self, exprs, st, mod, fi, depth):
        partial = [([], st)]
        out = []
        for e in exprs:
            nxt = []
            for ts, s in partial:
                for t, s2, k in self._ev(e, s, mod, fi, depth):
                    if k == 'raise':
                        out.append((t, s2, 'raise'))
                    else:
                        nxt.append((ts + [t], s2))
            partial = nxt
        out.extend((ts, s, 'ok') for ts, s in partial)
        return out

    def _apply(self, e, callee, bt, is_method, pos, kws, st, mod, fi, depth):
        ln = e.lineno
        # expand *[literal sequence] / *[one-element comprehension results folded to a literal]
        if any(x[0] == 'starred' and x[1][0] in ('list', 'tuple') for x in pos):
            pos2 = []
            for x in pos:
                if x[0] == 'starred' and x[1][0] in ('list', 'tuple'):
                    pos2.extend(x[1][1])
                else:
                    pos2.append(x)
            pos = pos2
        # expand **{literal dict}
        kws2 = []
        for name, t in kws:
            if name == '**' and t[0] == 'dict' and all(is_c(k) and isinstance(k[1], str) for k, _ in t[1]):
                kws2.extend((k[1], v) for k, v in t[1])
            else:
                kws2.append((name, t))
        kws = kws2
        if is_method:
            name = e.func.attr
            if name == 'pop' and bt[0] == 'dict' and len(pos) >= 1 and is_c(pos[0]):
                # pop on a literal dict: the value, and the variable keeps the remaining literal
                hit = [(k, v) for k, v in bt[1] if k == pos[0]]
                if hit:
                    key = _lvalue_key(e.func.value)
                    if key:
                        st.env[key] = ('dict', tuple((k, v) for k, v in bt[1] if k != pos[0]))
                    return [(hit[0][1], st, 'ok')]
            if name == 'copy' and bt[0] in ('dict', 'list') and not pos:
                return [(bt, st, 'ok')]
            if name == 'setdefault' and len(pos) == 2 and not kws and is_c(pos[0]) and _lvalue_key(e.func.value) \
                    and not getattr(self, '_nofork', 0):
                # d.setdefault(k, v):  d[k] if k in d, else d[k] = v and v  (one path per case, like the if-form)
                key = _lvalue_key(e.func.value)
                cond = ('cmp', 'in', pos[0], bt)
                tr = self.truth(cond, st)
                outs_ = []
                for case in ((True, False) if tr is None else (tr,)):
                    s_ = st.copy() if tr is None else st
                    if tr is None:
                        self.assume(cond, case, s_, ln)
                        s_.trace.append('%d:setdefault %s present=%s' % (ln, show(pos[0]), case))
                    if case:
                        outs_.append((_mk_sub(bt, pos[0]), s_, 'ok'))
                    else:
                        if bt[0] == 'dict':
                            new = ('dict', tuple(bt[1]) + ((pos[0], pos[1]),))
                        else:
                            new = ('setitem', bt, pos[0], pos[1])
                        s_.effects.append(('setitem', bt, pos[0], pos[1], ln, key))
                        s_.env[key] = new
                        outs_.append((pos[1], s_, 'ok'))
                return outs_
            if is_c(bt) and isinstance(bt[1], str) and not kws and all(is_c(x) for x in pos) \
                    and name in ('split', 'rsplit', 'strip', 'lstrip', 'rstrip', 'lower', 'upper', 'startswith',
                                 'endswith', 'count', 'find', 'replace', 'partition', 'rpartition'):
                # a method of a literal string (a key fixed by the evaluation context)
                try:
                    v = getattr(bt[1], name)(*[x[1] for x in pos])
                except Exception:
                    v = None
                if isinstance(v, (str, bool, int)):
                    return [(C(v), st, 'ok')]
                if isinstance(v, list):
                    return [(('list', tuple(C(x) for x in v)), st, 'ok')]
                if isinstance(v, tuple):
                    return [(('tuple', tuple(C(x) for x in v)), st, 'ok')]
            msig = METH_SIGS.get(name)
            if msig is not None and pos and len(pos) <= len(msig) and not ({k for k, _ in kws} & set(msig[:len(pos)])) \
                    and bt[0] not in ('dict', 'list', 'tuple', 'set') and not any(x[0] == 'starred' for x in pos):
                kws = list(kws) + list(zip(msig, pos))       # x.sum(1) == x.sum(axis=1)
                pos = []
            if name in ('all', 'any') and not pos and bt[0] not in ('list', 'tuple', 'dict', 'set', 'c') \
                    and all(k_ in ('axis', 'keepdims') for k_, _ in kws):
                # x.all() / x.any() on an array expression is np.all(x) / np.any(x)
                return [(('call', 'numpy.' + name, (bt,), tuple(sorted(kws, key=lambda x: x[0]))), st, 'ok')]
            t = ('meth', name, bt, tuple(pos), tuple(sorted(kws, key=lambda x: x[0])))
            if name in MUTATING_METHODS:
                key = _lvalue_key(e.func.value)
                st.effects.append(('mutcall', name, bt, tuple(pos), ln, key))
                if key:
                    new = ('mut', name, bt, tuple(pos))
                    if key in st.alias:
                        # the object is changed in place: every other name bound to it sees the change
                        for n, g in list(st.alias.items()):
                            if g == st.alias[key] and n != key and st.env.get(n) == bt:
                                st.env[n] = new
                                st.trace.append('%d:in-place %s() on %s also changes its alias %s' % (ln, name, key, n))
                    st.env[key] = new
            self.stats['calls_unresolved'] += 1
            # a term that is a function reference / partial called as a value
            return [(t, st, 'ok')]
        if callee is None or callee.kind == 'unknown':
            self.stats['calls_unresolved'] += 1
            if bt is not None and bt[0] in ('func', 'ref') and bt[1] in self.P.funcs:
                # a function value (nested def, or a repo function passed as an argument) called through a variable
                from .model import Callee
                callee = Callee('repo', bt[1], self.P.funcs[bt[1]])
            elif bt is not None and bt[0] == 'ref' and not bt[1].startswith('emd.'):
                # a library function passed as a value
                return [(('call', bt[1], tuple(pos), tuple(sorted(kws, key=lambda x: x[0]))), st, 'ok')]
            elif bt is not None:
                return [(('callv', bt, tuple(pos), tuple(sorted(kws, key=lambda x: x[0]))), st, 'ok')]
            else:
                d = callee.dotted if callee is not None and callee.dotted else unparse(e.func)
                return [(('call', d, tuple(pos), tuple(sorted(kws, key=lambda x: x[0]))), st, 'ok')]
        self.stats['calls_resolved'] += 1
        if callee.kind == 'lib':
            if callee.dotted in ('builtins.list', 'builtins.tuple') and len(pos) == 1 and not kws \
                    and pos[0][0] in ('list', 'tuple'):
                return [((callee.dotted.split('.')[-1], pos[0][1]), st, 'ok')]
            if callee.dotted == 'builtins.len' and len(pos) == 1 and not kws and pos[0][0] in ('list', 'tuple', 'dict'):
                return [(C(len(pos[0][1])), st, 'ok')]
            if callee.dotted == 'builtins.len' and len(pos) == 1 and not kws and _closed_vec(pos[0]) is not None:
                return [(C(len(_closed_vec(pos[0]))), st, 'ok')]
            if callee.dotted == 'builtins.isinstance' and len(pos) == 2 and not kws \
                    and pos[0][0] in ('list', 'tuple', 'dict'):
                # isinstance of a literal container
                tys = pos[1][1] if pos[1][0] == 'tuple' else (pos[1],)
                if tys and all(x[0] == 'ref' and x[1].startswith('builtins.') for x in tys):
                    return [(C(('builtins.' + pos[0][0]) in {x[1] for x in tys}), st, 'ok')]
            if callee.dotted == 'builtins.isinstance' and len(pos) == 2 and not kws and is_c(pos[0]):
                # isinstance of a literal (a parameter fixed by the evaluation context) against builtin types
                BT = {'builtins.int': int, 'builtins.float': float, 'builtins.str': str, 'builtins.bool': bool,
                      'builtins.list': list, 'builtins.tuple': tuple, 'builtins.dict': dict, 'builtins.bytes': bytes,
                      'builtins.complex': complex, 'builtins.set': set}
                tys = pos[1][1] if pos[1][0] == 'tuple' else (pos[1],)
                if is_c(pos[1]) or any(is_c(x) for x in tys):
                    # the second argument is not a type: TypeError for every input
                    return [(('call', 'builtins.TypeError', (C('isinstance() arg 2 must be a type'),), ()), st, 'raise')]
                if all(x[0] == 'ref' for x in tys):
                    known = [BT.get(x[1]) for x in tys]
                    if any(k is not None and isinstance(pos[0][1], k) for k in known):
                        return [(C(True), st, 'ok')]
                    if all(k is not None or x[1] in ('numpy.ndarray', 'numpy.generic') or x[1].startswith('emd.')
                           for k, x in zip(known, tys)):
                        return [(C(False), st, 'ok')]
            if callee.dotted == 'builtins.dict' and all(k != '**' for k, _ in kws) \
                    and (not pos or (len(pos) == 1 and pos[0][0] == 'dict')):
                # dict(a=1, b=2) / dict({...}, a=1): the literal with those entries
                items = list(pos[0][1]) if pos else []
                for k, v in kws:
                    items = [(kk, vv) for kk, vv in items if kk != C(k)] + [(C(k), v)]
                return [(('dict', tuple(items)), st, 'ok')]
            if callee.dotted.startswith(IMPURE_PREFIXES) and callee.dotted not in PURE_EXCEPTIONS:
                # every evaluation of a sampler is a distinct draw: tag the term so two draws never compare equal
                kws = list(kws) + [('#draw', C(next(self._fresh)))]
                st.effects.append(('rng', callee.dotted, ln))
            # positional spellings of well-known optional parameters become keywords (rules read keywords)
            sig = LIB_SIGS.get(callee.dotted)
            if sig is not None and len(pos) > sig[0] and not any(x[0] == 'starred' for x in pos):
                extra = pos[sig[0]:]
                if len(extra) <= len(sig[1]) and not ({k for k, _ in kws} & set(sig[1][:len(extra)])):
                    kws = list(kws) + list(zip(sig[1], extra))
                    pos = pos[:sig[0]]
            dfl = LIB_DEFAULTS.get(callee.dotted)
            if dfl:
                kws = [(k, v) for k, v in kws if not (k in dfl and v == C(dfl[k]))]    # explicit defaults dropped
            # one spelling for "indices where a 1-D condition holds":
            #   np.nonzero(c) == np.where(c) ;  np.flatnonzero(c) == np.where(c)[0]
            _UF = {'numpy.equal': '==', 'numpy.not_equal': '!=', 'numpy.greater': '>', 'numpy.less': '<',
                   'numpy.greater_equal': '>=', 'numpy.less_equal': '<='}
            if callee.dotted in _UF and len(pos) == 2 and not kws:
                # np.equal(a, b) is a == b
                return [(canon_cmp(_UF[callee.dotted], pos[0], pos[1]), st, 'ok')]
            if callee.dotted == 'numpy.dot' and len(pos) == 2 and not kws:
                # np.dot(a, b) is a.dot(b)
                return [(('meth', 'dot', pos[0], (pos[1],), ()), st, 'ok')]
            if callee.dotted == 'numpy.transpose' and len(pos) == 1 and not kws:
                # np.transpose(x) == np.asarray(x).T
                x = pos[0]
                if x[0] in ('comp', 'list', 'tuple'):
                    x = ('call', 'numpy.array', (x,), ())
                return [(('attr', x, 'T'), st, 'ok')]
            if callee.dotted == 'numpy.nonzero' and len(pos) == 1 and not kws:
                return [(('call', 'numpy.where', tuple(pos), ()), st, 'ok')]
            if callee.dotted == 'numpy.flatnonzero' and len(pos) == 1 and not kws:
                return [(('sub', ('call', 'numpy.where', tuple(pos), ()), C(0)), st, 'ok')]
            return [(('call', callee.dotted, tuple(pos), tuple(sorted(kws, key=lambda x: x[0]))), st, 'ok')]
        # repo function or class: bind to formals
        f = callee.func
        if f is None:
            return [(('call', callee.dotted, tuple(pos), tuple(sorted(kws, key=lambda x: x[0]))), st, 'ok')]
        bound, star, errs = self._bind_terms(callee, pos, kws, st, mod, fi, depth)
        if self.callee_hook is not None:
            r = self.callee_hook(callee, bound, star, st, e)
            if r is not None:
                return r
        if callee.kind == 'repo' and depth < self.max_depth and not star and not errs \
                and self.inline(f.qualname, depth):
            self.stats['inlined'] += 1
            gen = _simple_generator(f)
            if gen is not None:
                # def g(a): for v in IT: if c: yield E     is the generator expression (E for v in IT if c)
                gs = State()
                for formal in f.all_formals():
                    if formal in bound:
                        gs.env[formal] = bound[formal]
                    elif formal in f.defaults:
                        o_ = self._ev(f.defaults[formal], self._mini_state(), f.module, f.parent, depth)
                        gs.env[formal] = o_[0][0] if len(o_) == 1 and o_[0][2] == 'ok' else S('%s.default' % formal)
                    else:
                        gs.env[formal] = S(formal)
                go = self._ev(gen, gs, f.module, f, depth + 1)
                if len(go) == 1 and go[0][2] == 'ok':
                    return [(go[0][0], st, 'ok')]
            out = []
            sub = st.copy()
            saved_env = sub.env
            saved_alias = dict(sub.alias)
            closure = None
            if f.parent is not None and fi is not None and (f.parent is fi):
                closure = {k: v for k, v in saved_env.items() if not k.startswith('closure:')}
            elif f.parent is not None:
                # a nested function handed to a helper and called there: its free variables are those of the frame
                # that defined it, which is suspended further up the inlining chain
                for fr_fi, fr_env in reversed(getattr(self, '_frames', [])):
                    if fr_fi is f.parent:
                        closure = {k: v for k, v in fr_env.items() if not k.startswith('closure:')}
                        break
            inherit = None
            same_self = bool(getattr(f, 'is_method', False)) and isinstance(e.func, ast.Attribute) \
                and isinstance(e.func.value, ast.Name) and e.func.value.id == 'self'
            recv = None
            if not same_self and bool(getattr(f, 'is_method', False)) and isinstance(e.func, ast.Attribute) \
                    and isinstance(e.func.value, ast.Name) and e.func.value.id != 'self':
                recv = e.func.value.id       # obj.helper(): the helper's `self.x` is the caller's `obj.x`
            if same_self:
                inherit = {k_: v_ for k_, v_ in saved_env.items() if k_.startswith('self.')}
            elif recv is not None:
                inherit = {'self.' + k_[len(recv) + 1:]: v_ for k_, v_ in saved_env.items() if k_.startswith(recv + '.')}
            if not hasattr(self, '_frames'):
                self._frames = []
            self._frames.append((fi, saved_env))
            try:
                exits = self.run(f, args=bound, state=sub, depth=depth + 1, closure=closure, inherit=inherit)
            finally:
                self._frames.pop()
            for x in exits:
                s2 = x.state
                callee_env = s2.env
                s2.env = dict(saved_env)
                s2.alias = dict(saved_alias)
                # attribute stores made by a helper method on the same object (self.x = ... inside self._helper()) are
                # visible to the caller afterwards
                if same_self:
                    for k_, v_ in callee_env.items():
                        if k_.startswith('self.') and saved_env.get(k_) != v_:
                            s2.env[k_] = v_
                elif recv is not None:
                    for k_, v_ in callee_env.items():
                        if k_.startswith('self.') and saved_env.get(recv + k_[4:]) != v_:
                            s2.env[recv + k_[4:]] = v_
                # an array handed to the helper and updated there in place (element stores, in-place methods, also
                # inside its loops) is updated for the caller too: every caller variable holding that argument now
                # holds the updated value
                for formal, argt in bound.items():
                    if not isinstance(argt, tuple) or is_c(argt):
                        continue
                    newv = callee_env.get(formal)
                    if newv is None or newv == argt:
                        continue
                    if _inplace_update_of(newv, argt, s2.loops):
                        hit = False
                        for name_, val_ in list(s2.env.items()):
                            if val_ == argt:
                                s2.env[name_] = newv
                                hit = True
                        if not hit and argt[0] == 'sub' and _basic_index_term(argt[2]):
                            # the argument is a view X[idx] of a caller array: X[idx] now holds the updated elements
                            for name_, val_ in list(s2.env.items()):
                                if val_ == argt[1] and not name_.startswith('closure:'):
                                    content = newv
                                    if newv[0] == 'setitem' and newv[1] == argt and newv[2] in (
                                            ('slice', NONE, NONE, NONE), C(Ellipsis)):
                                        content = newv[3]       # v[:] = e  replaces the whole view: X[idx] = e
                                    s2.env[name_] = ('setitem', val_, argt[2], content)
                                    s2.effects.append(('setitem', val_, argt[2], content, ln, name_))
                                    s2.trace.append('%d:%s updates its argument, a view of %s, in place' % (ln, f.name, name_))
                s2.trace.append('%d:<- %s' % (ln, f.name))
                out.append((x.value, s2, 'raise' if x.kind == 'raise' else 'ok'))
            if len(out) > 1:
                self._count(len(out) - 1)
            return out
        items = list(bound.items())
        for s_ in star:
            items.append(('**', s_))
        t = ('call', callee.dotted if callee.kind == 'repo' else callee.dotted,
             (), tuple(sorted(items, key=lambda x: x[0])))
        return [(t, st, 'ok')]

    def _bind_terms(self, callee, pos, kws, st, mod, fi, depth):
        """Bind evaluated actuals to callee formals (dict formal->term)."""
        f = callee.func
        formals = list(f.params)
        if (f.is_method or f.is_classmethod or callee.kind == 'class') and formals:
            formals = formals[1:]
        bound = {}
        errs = []
        star = []
        pre_pos = []
        for a in callee.pre_args:
            o = self._ev(a, st, mod, fi, depth)
            pre_pos.append(o[0][0])
        allpos = pre_pos + list(pos)
        i = 0
        for t in allpos:
            if t[0] == 'starred':
                star.append(('*', t[1]))
                continue
            if i < len(formals):
                bound[formals[i]] = t
            else:
                errs.append('too many positional')
            i += 1
        allkw = []
        for k, a in callee.pre_kwargs:
            o = self._ev(a, st, mod, fi, depth)
            allkw.append((k, o[0][0]))
        for a in callee.pre_star:
            o = self._ev(a, st, mod, fi, depth)
            t = o[0][0]
            if t[0] == 'dict' and all(is_c(k) and isinstance(k[1], str) for k, _ in t[1]):
                allkw.extend((k[1], v) for k, v in t[1])
            else:
                star.append(t)
        for k, t in kws:
            if k == '**':
                star.append(t)
            else:
                allkw.append((k, t))
        for k, t in allkw:
            if k in bound and k in formals[:len(allpos)]:
                errs.append('multiple values for %s' % k)
            bound[k] = t
            if k not in f.params and k not in f.kwonly and f.kwarg is None:
                errs.append('unexpected keyword %s' % k)
        if self.fill_defaults:
            for name, d in f.defaults.items():
                if name not in bound and isinstance(d, ast.Constant):
                    bound[name] = C(d.value)
        return bound, star, errs


# ---------------------------------------------------------------------- helpers

def _as_load(node):
    import copy
    n = copy.deepcopy(node)
    for m in ast.walk(n):
        if hasattr(m, 'ctx'):
            m.ctx = ast.Load()
    return n


def _root_name(n):
    while isinstance(n, (ast.Attribute, ast.Subscript)):
        n = n.value
    return n.id if isinstance(n, ast.Name) else None


def _lvalue_key(n):
    """'x' for Name x, 'self.store' for attribute chains rooted in a Name."""
    if isinstance(n, ast.Name):
        return n.id
    if isinstance(n, ast.Attribute):
        b = _lvalue_key(n.value)
        return (b + '.' + n.attr) if b else None
    return None


def _rooted_in_env(e, st):
    r = _root_name(e)
    return r is not None and r in st.env


def _rooted_in_env_call(fexpr, st, fi):
    """A call through a local *value* (p.starmap, imfs.mean): the root is a local
    variable holding a term, unless it is an alias the resolver can follow."""
    r = _root_name(fexpr)
    if r is None:
        return True
    if isinstance(fexpr, ast.Name):
        return False          # resolver follows local aliases / params with defaults
    if r in ('self', 'cls'):
        return False
    return r in st.env


def _is_array_expr(t):
    """Values that are certainly arrays (never None): arithmetic results, numpy
    constructors/samplers and basic slices of those."""
    if t[0] == 'bin':
        return True
    if t[0] == 'call' and t[1].startswith(('numpy.random.', 'numpy.zeros', 'numpy.ones', 'numpy.array',
                                           'numpy.arange', 'numpy.linspace', 'numpy.concatenate')):
        return True
    if t[0] == 'sub' and (t[2][0] in ('tuple', 'slice')) and _is_array_expr(t[1]):
        return True
    # np.where(cond) / np.nonzero(cond) is a tuple of index arrays; its elements are arrays
    if t[0] == 'call' and t[1] in ('numpy.where', 'numpy.nonzero', 'numpy.flatnonzero', 'numpy.argwhere') and len(t[2]) == 1:
        return True
    if t[0] == 'sub' and is_c(t[2]) and t[1][0] == 'call' and t[1][1] in ('numpy.where', 'numpy.nonzero') and len(t[1][2]) == 1:
        return True
    return False


def _expand_any_all(t):
    """any(E(v) for v in (a, b, ..))  ->  E(a) or E(b) or ..   (all -> and) for a short literal sequence."""
    if t[0] == 'call' and t[1] in ('builtins.any', 'builtins.all') and len(t[2]) == 1 and not t[3]:
        c = t[2][0]
        if c[0] == 'comp' and len(c[3]) == 1 and not c[3][0][2] and c[3][0][1][0] in ('tuple', 'list') \
                and 1 <= len(c[3][0][1][1]) <= 4:
            var, it, _ = c[3][0]
            return ('or' if t[1].endswith('any') else 'and', tuple(substitute(c[2], {var: x}) for x in it[1]))
        if c[0] in ('tuple', 'list') and 1 <= len(c[1]) <= 4:
            return ('or' if t[1].endswith('any') else 'and', tuple(c[1]))
    return t


# library callable -> (number of leading positional parameters kept, names of the following optional parameters)
_AX = (1, ('axis',))
LIB_SIGS = {'scipy.signal.argrelextrema': (2, ('axis', 'order', 'mode')),
            'numpy.mean': _AX, 'numpy.sum': _AX, 'numpy.nansum': _AX, 'numpy.nanmean': _AX, 'numpy.median': _AX,
            'numpy.std': _AX, 'numpy.max': _AX, 'numpy.min': _AX, 'numpy.all': _AX, 'numpy.any': _AX,
            'numpy.cumsum': _AX, 'numpy.argmax': _AX, 'numpy.argmin': _AX, 'numpy.concatenate': _AX,
            'numpy.diff': (1, ('n', 'axis')), 'numpy.pad': (2, ('mode',)), 'numpy.digitize': (2, ('right',)),
            'scipy.interpolate.interp1d': (2, ('kind', 'axis', 'copy', 'bounds_error', 'fill_value', 'assume_sorted')),
            'yaml.load': (1, ('Loader',)), 'yaml.load_all': (1, ('Loader',))}
LIB_DEFAULTS = {'scipy.signal.argrelextrema': {'axis': 0, 'order': 1, 'mode': 'clip'}}
METH_SIGS = {'sum': ('axis',), 'mean': ('axis',), 'std': ('axis',), 'max': ('axis',), 'min': ('axis',),
             'all': ('axis',), 'any': ('axis',), 'cumsum': ('axis',), 'argmax': ('axis',), 'argmin': ('axis',)}
_SYNTH = {}


def synth_count_loop(P, fi, s):
    """(init statement, while loop) equivalent to `for v in itertools.count(k): body`, or None.  One synthetic loop
    node per source loop (rules compare loop nodes by identity across evaluator runs)."""
    if not (isinstance(s, ast.For) and isinstance(s.iter, ast.Call)
            and P.resolve(fi.module, s.iter.func, fi) == 'itertools.count'
            and len(s.iter.args) <= 1 and not s.iter.keywords and isinstance(s.target, ast.Name) and not s.orelse
            and (not s.iter.args or isinstance(s.iter.args[0], ast.Constant))):
        return None
    if s not in _SYNTH:
        cn = '__count_%d' % s.lineno
        start = s.iter.args[0] if s.iter.args else ast.Constant(value=0)
        init = ast.Assign(targets=[ast.Name(id=cn, ctx=ast.Store())], value=start)
        take = ast.Assign(targets=[ast.Name(id=s.target.id, ctx=ast.Store())], value=ast.Name(id=cn, ctx=ast.Load()))
        step = ast.AugAssign(target=ast.Name(id=cn, ctx=ast.Store()), op=ast.Add(), value=ast.Constant(value=1))
        loop = ast.While(test=ast.Constant(value=True), body=[take, step] + list(s.body), orelse=[])
        for n_ in (init, take, step, loop):
            ast.copy_location(n_, s)
            ast.fix_missing_locations(n_)
        _SYNTH[s] = (init, loop)
    return _SYNTH[s]


def _pure_test(e):
    """A boolean combination of comparisons only (no names or calls whose value, not truth, would be the result)."""
    if isinstance(e, ast.BoolOp):
        return all(_pure_test(v) for v in e.values)
    if isinstance(e, ast.UnaryOp) and isinstance(e.op, ast.Not):
        return _pure_test(e.operand)
    if isinstance(e, ast.Compare):
        # scalar comparisons only: `is`, or against a literal / a name (array comparisons stay symbolic masks)
        return all(isinstance(op, (ast.Is, ast.IsNot, ast.Eq, ast.NotEq, ast.Lt, ast.LtE, ast.Gt, ast.GtE))
                   for op in e.ops) and all(isinstance(c, (ast.Constant, ast.Name)) for c in [e.left] + e.comparators)
    return False


def res_has_exit(res, loopnode):
    """Did an iteration of this loop leave by return / raise (then the loop is not a plain accumulation)?"""
    for e in res:
        if e.node is not None and any(x is e.node for x in ast.walk(loopnode)):
            return True
    return False


def _neighbour_pairs(it):
    """X when `it` is zip(X[:-1], X[1:]) (consecutive pairs of one sequence), else None."""
    if it[0] == 'call' and it[1] == 'builtins.zip' and len(it[2]) == 2 and not it[3]:
        a, b = it[2]
        if a[0] == 'sub' and b[0] == 'sub' and a[1] == b[1] \
                and a[2] == ('slice', C(None), C(-1), C(None)) and b[2] == ('slice', C(1), C(None), C(None)):
            return a[1]
    return None


VIEW_METHODS = {'reshape', 'view', 'squeeze', 'swapaxes', 'transpose', 'ravel'}
VIEW_FUNCS = {'atleast_1d', 'atleast_2d', 'atleast_3d', 'expand_dims', 'squeeze', 'reshape', 'asarray', 'asanyarray',
              'transpose', 'swapaxes', 'moveaxis', 'ravel', 'broadcast_to'}


def _view_root(e, allow_names=False):
    """Name of the local variable `e` is a numpy view of (basic indexing, new axes, reshape, .T, np.expand_dims, ...;
    also `v if c else x` with both arms views of / the same variable); None when e is not such an expression."""
    def root(x, top):
        if isinstance(x, ast.Name):
            return None if top else x.id
        if isinstance(x, ast.Subscript):
            def basic(i):
                if isinstance(i, ast.Tuple):
                    return all(basic(j) for j in i.elts)
                if isinstance(i, ast.Slice):
                    return True
                if isinstance(i, ast.Constant):
                    return i.value is None or i.value is Ellipsis or (isinstance(i.value, int) and not isinstance(i.value, bool))
                if isinstance(i, ast.Attribute) and i.attr == 'newaxis':
                    return True
                if isinstance(i, ast.UnaryOp) and isinstance(i.op, ast.USub) and isinstance(i.operand, ast.Constant):
                    return True
                if allow_names and isinstance(i, ast.Name):
                    return True         # an index variable (over-approximation: used only to widen modified sets)
                return False
            return root(x.value, False) if basic(x.slice) else None
        if isinstance(x, ast.Attribute) and x.attr == 'T':
            return root(x.value, False)
        if isinstance(x, ast.Call) and isinstance(x.func, ast.Attribute):
            if x.func.attr in VIEW_METHODS and not isinstance(x.func.value, ast.Name):
                return root(x.func.value, False)
            if x.func.attr in VIEW_METHODS and isinstance(x.func.value, ast.Name) and x.func.value.id not in ('np', 'numpy'):
                return x.func.value.id
            if x.func.attr in VIEW_FUNCS and isinstance(x.func.value, ast.Name) and x.func.value.id in ('np', 'numpy') and x.args:
                return root(x.args[0], False)
        if isinstance(x, ast.IfExp):
            a, b = root(x.body, False), root(x.orelse, False)
            return a if a is not None and a == b else None
        return None
    return root(e, True)


def _basic_index_term(idx):
    """slices / integers / loop variables / None / Ellipsis only: numpy returns a view"""
    items = idx[1] if idx[0] == 'tuple' else (idx,)
    for it in items:
        if it[0] == 'slice' or it[0] in ('s', 'bv') or (is_c(it) and (it[1] is None or it[1] is Ellipsis or isinstance(it[1], int))):
            continue
        return False
    return True


def _inplace_update_of(newv, argt, loops, depth=0):
    """Is `newv` the object `argt` after in-place updates (x[i] = v, x.sort(), ... possibly inside loops)?"""
    if depth > 12:
        return False
    if newv == argt:
        return True
    if newv[0] == 'setitem':
        return _inplace_update_of(newv[1], argt, loops, depth + 1)
    if newv[0] == 'mut':
        return _inplace_update_of(newv[2], argt, loops, depth + 1)
    if newv[0] == 's' and '@F' in newv[1]:
        # a loop-carried variable: in place if it entered the loop as the argument (or an in-place update of it) and
        # every value it takes in the body is an in-place update of the loop head
        name = newv[1].split('@')[0]
        tag = newv[1].split('@')[1]
        if tag.endswith('post'):
            tag = tag[:-4]
        stack = list(loops)
        seen = set()
        while stack:
            ls = stack.pop()
            if id(ls) in seen:
                continue
            seen.add(id(ls))
            for kind, b in ls.body_states:
                stack.extend(b.loops)
            head = ls.head_env.get(name)
            if head is None or head[0] != 's' or head[1] != '%s@%s' % (name, tag):
                continue
            ent = ls.entry_env.get(name)
            if ent is None or not _inplace_update_of(ent, argt, loops, depth + 1):
                return False
            vals = [b.env.get(name) for kind, b in ls.body_states if b.env.get(name) is not None]
            return bool(vals) and all(_inplace_update_of(v, head, loops, depth + 1) for v in vals)
        return False
    return False


_CMP_MIRROR = {'<': '>', '>': '<', '<=': '>=', '>=': '<=', '==': '==', '!=': '!=', 'is': 'is', 'isnot': 'isnot'}


def _cmp_key(t):
    if is_c(t) or (t[0] == 'un' and t[1] == '-' and is_c(t[2])):
        return (2, '')
    if t[0] == 'bv' or (t[0] == 's' and '@' in t[1]):
        return (1, show(t))
    return (0, show(t))


def canon_cmp(op, a, b):
    """One orientation for every comparison, whichever way the source spells it: constants on the right, loop / bound
    variables right of other operands, otherwise by the printed form.  `1 == x`, `x == 1`;  `n < len(v)`,
    `len(v) > n` are the same term.  Rules build their expected comparisons with this function too."""
    if op in _CMP_MIRROR:
        ka, kb = _cmp_key(a), _cmp_key(b)
        if ka > kb:
            return ('cmp', _CMP_MIRROR[op], b, a)
    return ('cmp', op, a, b)


def _mk_attr(base, name):
    # the fields of a slice object built with slice(a, b[, c])
    if name in ('start', 'stop', 'step') and base[0] == 'call' and base[1] == 'builtins.slice' and not base[3] \
            and 1 <= len(base[2]) <= 3:
        a_ = base[2]
        full = (NONE, a_[0], NONE) if len(a_) == 1 else (a_[0], a_[1], a_[2] if len(a_) == 3 else NONE)
        return full[('start', 'stop', 'step').index(name)]
    # the shape of a fresh allocation with a literal shape tuple is that tuple; element stores keep it
    if name == 'shape':
        b = base
        while b[0] == 'setitem':
            b = b[1]
        if b[0] == 'call' and b[1] in ('numpy.zeros', 'numpy.empty', 'numpy.ones', 'numpy.full') and b[2] \
                and b[2][0][0] == 'tuple' and not any(x[0] == 'starred' for x in b[2][0][1]):
            return b[2][0]
    return ('attr', base, name)


_CLOSED_CACHE = {}


def _closed_vec(t):
    """The value (python list of scalars) of a *closed* 1-D array term: built from literal lists of constants by the
    numpy fragment that orderval interprets, with no symbol in it.  None otherwise.  (Rules enumerate small inputs as
    literal lists; this lets loops over arrays derived from them unroll.)"""
    if t[0] in ('s', 'c', 'bv', 'ref', 'tuple', 'list', 'dict', 'attr'):
        return None
    if t[0] not in ('call', 'meth', 'sub', 'setitem', 'bin', 'cmp', 'un'):
        return None
    if t in _CLOSED_CACHE:
        return _CLOSED_CACHE[t]
    res = None
    lit = False
    ok = True
    for x in subterms(t):
        if x[0] in ('s', 'bv', 'callv', 'fault', 'closure', 'lambda'):
            ok = False
            break
        if x[0] == 'list' and all(is_c(y) for y in x[1]):
            lit = True
    if ok and lit:
        from .orderval import OrderEval
        try:
            v = OrderEval({}).ev(t)
            if isinstance(v, list) and all(isinstance(y, (bool, int, float)) for y in v):
                res = list(v)
        except Exception:
            res = None
    if len(_CLOSED_CACHE) > 20000:
        _CLOSED_CACHE.clear()
    _CLOSED_CACHE[t] = res
    return res


def _enumerated_comp(it, target):
    """(comprehension, counted?) when `it` is enumerate(<comp over range(n)>) with a two-name target, or the bare
    comprehension over a range with a single-name target; None otherwise"""
    def over_range(c):
        return c[0] == 'comp' and c[1] in ('gen', 'list') and len(c[3]) == 1 and not c[3][0][2] and c[3][0][0][0] == 'bv' \
            and c[3][0][1][0] == 'call' and c[3][0][1][1] == 'builtins.range' and len(c[3][0][1][2]) == 1 \
            and not c[3][0][1][3]
    if it[0] == 'call' and it[1] == 'builtins.enumerate' and len(it[2]) == 1 and not it[3] and over_range(it[2][0]) \
            and isinstance(target, (ast.Tuple, ast.List)) and len(target.elts) == 2 \
            and isinstance(target.elts[0], ast.Name):
        return it[2][0], True
    if over_range(it) and isinstance(target, ast.Name):
        return it, False
    return None


def _simple_generator(f):
    """The generator expression a generator function of the shape
        [docstring]  for v in IT: [if c:] yield E
    abbreviates, or None."""
    cache = _simple_generator.__dict__.setdefault('cache', {})
    if f.qualname in cache:
        return cache[f.qualname]
    cache[f.qualname] = None
    body = [s_ for s_ in f.node.body if not (isinstance(s_, ast.Expr) and isinstance(s_.value, ast.Constant))]
    if len(body) != 1 or not isinstance(body[0], ast.For) or body[0].orelse:
        return None
    loop = body[0]
    inner = loop.body
    conds = []
    while len(inner) == 1 and isinstance(inner[0], ast.If) and not inner[0].orelse:
        conds.append(inner[0].test)
        inner = inner[0].body
    if len(inner) != 1 or not isinstance(inner[0], ast.Expr) or not isinstance(inner[0].value, ast.Yield) \
            or inner[0].value.value is None:
        return None
    if sum(isinstance(n_, (ast.Yield, ast.YieldFrom)) for n_ in ast.walk(f.node)) != 1:
        return None
    g = ast.GeneratorExp(elt=inner[0].value.value,
                         generators=[ast.comprehension(target=loop.target, iter=loop.iter, ifs=conds, is_async=0)])
    ast.copy_location(g, loop)
    ast.fix_missing_locations(g)
    cache[f.qualname] = g
    return g


def _slice_index(idx):
    # a slice object built with slice(a, b) and used as an index is the index a:b
    def one(t):
        if t[0] == 'call' and t[1] == 'builtins.slice' and 1 <= len(t[2]) <= 3 and not t[3]:
            p_ = t[2]
            if len(p_) == 1:
                return ('slice', NONE, p_[0], NONE)
            return ('slice', p_[0], p_[1], p_[2] if len(p_) == 3 else NONE)
        return t
    if idx[0] == 'tuple':
        new = tuple(one(x) for x in idx[1])
        return ('tuple', new) if new != idx[1] else idx
    return one(idx)


def _mk_sub(base, idx):
    idx = _slice_index(idx)
    if base[0] == 'cmp' and base[1] in ('==', '!=', '<', '<=', '>', '>=') and idx[0] != 'cmp':
        # (A == k)[i]  is  A[i] == k  for a scalar k (a literal or a loop index)
        def scalar(t):
            return is_c(t) or t[0] == 'bv' or (t[0] == 's' and '@F' in t[1])
        if scalar(base[3]) and not scalar(base[2]):
            return canon_cmp(base[1], _mk_sub(base[2], idx), base[3])
    if base[0] in ('tuple', 'list') and idx[0] == 'slice' and not any(x[0] == 'starred' for x in base[1]) \
            and all(x == NONE or (is_c(x) and type(x[1]) is int) for x in idx[1:4]):
        sl = slice(*[None if x == NONE else x[1] for x in idx[1:4]])
        try:
            return (base[0], tuple(base[1][sl]))
        except ValueError:
            pass
    if is_c(idx) and type(idx[1]) is int and base[0] in ('call', 'meth', 'sub', 'setitem', 'bin', 'cmp', 'un'):
        v = _closed_vec(base)
        if v is not None and -len(v) <= idx[1] < len(v):
            return C(v[idx[1]])
    if base[0] in ('tuple', 'list') and is_c(idx) and isinstance(idx[1], int) \
            and -len(base[1]) <= idx[1] < len(base[1]):
        return base[1][idx[1]]
    if base[0] == 'dict' and is_c(idx):
        for k, v in base[1]:
            if k == idx:
                return v
    if base[0] == 'tuple' and is_c(idx) and isinstance(idx[1], int) and not isinstance(idx[1], bool) \
            and not any(x[0] == 'starred' for x in base[1]):
        # element k of a literal tuple with fewer elements: IndexError whenever the expression is evaluated
        return ('fault', 'IndexError', 'element %d of a %d-tuple' % (idx[1], len(base[1])))
    return ('sub', base, idx)


def _static_items(it):
    """Elements of an iteration space that is known statically (literal sequences, enumerate/range of those)."""
    if it[0] in ('list', 'tuple'):
        return list(it[1])
    if it[0] == 'dict':
        return [k for k, v in it[1]]
    if it[0] == 'meth' and it[1] in ('items', 'keys', 'values') and it[2][0] == 'dict' and not it[3]:
        if it[1] == 'keys':
            return [k for k, v in it[2][1]]
        if it[1] == 'values':
            return [v for k, v in it[2][1]]
        return [('tuple', (k, v)) for k, v in it[2][1]]
    if it[0] == 'call' and it[1] == 'builtins.enumerate' and len(it[2]) == 1 and not it[3]:
        inner = _static_items(it[2][0])
        if inner is not None:
            return [('tuple', (C(i), x)) for i, x in enumerate(inner)]
    if it[0] == 'call' and it[1] == 'builtins.range' and not it[3] and it[2] \
            and all(is_c(a) and type(a[1]) is int for a in it[2]):
        r = range(*[a[1] for a in it[2]])
        if len(r) <= 8:
            return [C(i) for i in r]
    if it[0] == 'call' and it[1] == 'builtins.zip' and it[2] and not it[3]:
        cols = [_static_items(a) for a in it[2]]
        if all(c is not None for c in cols):
            return [('tuple', tuple(x)) for x in zip(*cols)]
    v = _closed_vec(it)
    if v is not None and len(v) <= 8:
        return [C(x) for x in v]
    return None


def _fold(op, a, b):
    """Fold integer arithmetic on literals (keeps counters readable)."""
    if is_c(a) and is_c(b) and type(a[1]) is int and type(b[1]) is int and op in ('+', '-', '*'):
        return C({'+': a[1] + b[1], '-': a[1] - b[1], '*': a[1] * b[1]}[op])
    # one spelling for the commutative cases that involve a numeric literal:  1 + x == x + 1,  x * 2 == 2 * x
    # (`+` with a number on one side is numeric addition; `*` by a number commutes for arrays, numbers and sequences)
    def _num(t):
        return is_c(t) and isinstance(t[1], (int, float)) and not isinstance(t[1], bool)
    if op == '+' and _num(a) and not _num(b):
        return ('bin', '+', b, a)
    if op == '*' and _num(b) and not _num(a):
        return ('bin', '*', b, a)
    if op == '+' and (a[0] == 'tuple' or b[0] == 'tuple'):
        # tuple concatenation with literal tuples / slices of a shape:  (n,) + x.shape[1:]  ==  (n, *x.shape[1:])
        def parts(t):
            if t[0] == 'tuple':
                return list(t[1])
            if t[0] == 'sub' and t[1][0] == 'attr' and t[1][2] == 'shape' and t[2][0] == 'slice':
                return [('starred', t)]
            if t[0] == 'call' and t[1] == 'builtins.tuple' and len(t[2]) == 1 and not t[3]:
                return parts(t[2][0])
            return None
        pa, pb = parts(a), parts(b)
        if pa is not None and pb is not None:
            return ('tuple', tuple(pa + pb))
    return ('bin', op, a, b)


def _add(a, b):
    return None if a is None or b is None else a + b


def _sub(a, b):
    return None if a is None or b is None else a - b


def _mul(a, b):
    return None if a is None or b is None else a * b


def _cmp_bounds(op, la, ha, lb, hb):
    def lt(x, y):
        return x is not None and y is not None and x < y

    def le(x, y):
        return x is not None and y is not None and x <= y
    if op == '<':
        if lt(ha, lb):
            return True
        if le(hb, la):
            return False
    if op == '<=':
        if le(ha, lb):
            return True
        if lt(hb, la):
            return False
    if op == '>':
        if lt(hb, la):
            return True
        if le(ha, lb):
            return False
    if op == '>=':
        if le(hb, la):
            return True
        if lt(ha, lb):
            return False
    if op == '==':
        if lt(ha, lb) or lt(hb, la):
            return False
        if la is not None and la == ha == lb == hb:
            return True
    if op == '!=':
        if lt(ha, lb) or lt(hb, la):
            return True
        if la is not None and la == ha == lb == hb:
            return False
    return None
