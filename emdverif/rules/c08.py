"""C08 - ensemble sifts average genuinely independent noise realisations."""
import ast
from fractions import Fraction

from ..model import AnalysisError, unparse, walk_local
from ..paths import Evaluator, is_c, show, C, S, NONE, subterms, substitute
from ..poly import Poly
from .common import mk_algebra, trace_tail
from .c06 import collect_sites, _decode_fref
from . import pools

PROPERTY = 'C08'
EXPLANATION = (
    "R1: for every pool dispatch in the ensemble routines the worker is evaluated with the arguments bound at the "
    "dispatch site (positional starmap tuples); a draw from the process-global numpy RNG reachable in the worker on "
    "that binding is a violation (forked workers inherit identical RNG state, nothing in the code makes the draws "
    "distinct), and a bound noise argument must depend on the member index and come from a parent-side matrix with "
    "one column per member. R2: member algebra on linear forms - 'single' -> sift(X + s*n), 'flip' -> "
    "1/2 sift(X + s*n) + 1/2 sift(X - s*n) with the same draw n and identical options; ensemble column i is the "
    "mean over members of column i. R3: substituting ensemble_noise = 0 folds every member to sift(X, sift_thresh, "
    "max_imfs, same carriers), and every return path of ensemble_sift delivers the member mean (or that classic sift). "
    "R1 also: the worker does not modify its arguments (jobs of one chunk share the unpickled X). R4: the complete "
    "ensemble subtracts from every noise column its own first IMF with the member axis kept for every ensemble size. "
    "Not decided: statistical independence beyond 'distinct draws'.")
RULE_TEXT = "one obligation per dispatch site / noise mode / reduction site; distinct = distinct keys"
FLOORS = {'C08.R1': 7, 'C08.R2': 4, 'C08.R3': 3, 'C08.R4': 1}
PINNED_EXPECT = [('C08.R1', 'emd.sift.ensemble_sift', 'global RNG')]

WORKER = 'emd.sift._sift_with_noise'


def run(ctx):
    ctx.assume('worker processes may be forked (default start method here); the rule does not depend on it: a worker '
               'drawing from inherited global state is reported whatever the start method')
    ctx.trust('Pool.starmap binds each tuple positionally to the worker and returns results in submission order')
    ctx.rule(rule_worker_rng, 'C08.R1')
    ctx.rule(rule_member_algebra, 'C08.R2')
    ctx.rule(rule_member_mean, 'C08.R2')
    ctx.rule(rule_zero_noise, 'C08.R3')
    ctx.rule(rule_no_shortcut, 'C08.R3')
    from . import siftcore
    ctx.rule(siftcore.rule_through_layer_loop, 'C08.R3', ctx.P.func('emd.sift.complete_ensemble_sift'),
                                     ('emd.sift._sift_with_noise',), context={'noise_mode': 'single'},
                                     allow_sift_call=True)
    ctx.rule(rule_worker_pure, 'C08.R1')
    ctx.rule(rule_noise_update, 'C08.R4')
    ctx.rule(rule_noise_mode_forwarded, 'C08.R5')


def _bound_for_site(P, fi, site):
    """Bound worker formals (terms) observed at a dispatch site, per evaluated state."""
    sites, nexits, ev = collect_sites(P, fi, context={'noise_mode': 'single'})
    for key, s in sites.items():
        if s.node is site and s.kind == 'starmap':
            return s
    return None


def rule_worker_rng(ctx, rid):
    P = ctx.P
    variants = [P.func('emd.sift.ensemble_sift'), P.func('emd.sift.complete_ensemble_sift'),
                P.func('emd.sift.get_next_imf_mask')]
    nsites = 0
    for fi in variants:
        # pool dispatches observed while evaluating the variant (helpers and nested functions are inlined, so
        # a dispatch that moved into one is still seen, with the bindings of the calling context)
        sites, nexits, _ev = collect_sites(P, fi, context={'noise_mode': 'single'})
        ds = sorted([s for s in sites.values() if s.kind == 'starmap'],
                    key=lambda s: (s.node.lineno, s.node.col_offset))
        order = {}
        for s in ds:
            call, meth, w = s.node, s.meth, P.funcs[s.callee]
            nsites += 1
            order[w.name] = order.get(w.name, 0) + 1
            tagname = '%s(%s)#%d' % (meth, w.name, order[w.name])
            if not s.states:
                ctx.undecided(rid, fi, '%s: worker binding' % tagname, 'cannot bind the dispatch tuple', node=call)
                continue
            ctx.call_sites += 1
            # evaluate the worker under each observed binding; look for RNG draws on the selected path
            drew = None
            checked = 0
            for bound, star, env, trace in s.states:
                args = {}
                for f, t in bound.items():
                    args[f] = t if is_c(t) else _opaque(f, t)
                draws = []

                def obs(node, term, st):
                    if term[0] == 'call' and term[1].startswith('numpy.random.') \
                            and term[1] not in pools.SAMPLER_EXCLUDE:
                        draws.append((node, term[1], list(st.trace)))
                ev = Evaluator(P, observer=obs)
                exits = ev.run(w, args=args)
                ctx.paths += len(exits)
                checked += 1
                if draws:
                    drew = draws[0]
                    break
                # deeper cone: callees of the worker (path-insensitive)
                for nx in sorted(P.callgraph().get(w.qualname, ())):
                    r = pools.may_draw(P, nx)
                    if r is not None:
                        drew = (call, ' -> '.join(x.split('.')[-1] for x in r), [])
                        break
                if drew:
                    break
            c = '%s: no draw from the inherited global RNG inside the worker' % tagname
            if drew:
                node, what, trace = drew
                ctx.violation(rid, fi, c,
                              'worker %s draws its noise from the process-global numpy RNG (%s) with the arguments '
                              'bound at this dispatch (%s); forked workers start from identical RNG state, so members '
                              'can receive the same realisation' % (w.name, what, _binding_text(s.states[0][0])),
                              node=call, expected='noise generated in the parent (one column per member) or a '
                              'per-member seed', found='%s reachable in %s' % (what, w.name), path=trace[-8:])
            else:
                ctx.passed(rid, fi, c, '%d binding state(s) evaluated' % checked, node=call)
            # bound noise must differ per member
            if 'noise' in w.all_formals():
                c2 = '%s: noise argument is a per-member column of a parent-side matrix' % tagname
                okn = True
                why = ''
                for bound, star, env, trace in s.states:
                    n = bound.get('noise')
                    if n is None or is_c(n):
                        okn = False
                        why = 'noise bound to %s' % (show(n) if n is not None else 'nothing')
                        break
                    idx_vars = [x for x in subterms(n) if x[0] == 'bv']
                    if not idx_vars:
                        okn = False
                        why = 'the noise argument %s does not depend on the member index' % show(n)[:60]
                        break
                if okn:
                    why = _noise_layout(s.states)
                    okn = why is None
                if okn:
                    ctx.passed(rid, fi, c2, 'indexed by the member variable', node=call)
                else:
                    ctx.violation(rid, fi, c2, 'members do not receive distinct parent-generated noise: ' + why,
                                  node=call)
    ctx.cover['dispatch_sites'] = nsites


def _noise_layout(states):
    """The member's noise is one full line of the parent-side matrix along the sample axis: the axis that is not
    indexed by the member variable is taken whole and has one entry per sample of the signal handed to the worker.
    Returns a complaint or None (also None when the construction is not of the recognised matrix form)."""
    for bound, star, env, trace in states:
        n = bound.get('noise')
        X = bound.get('X')
        if n is None or X is None:
            continue
        subs = [t for t in subterms(n) if t[0] == 'sub' and t[2][0] == 'tuple' and any(x[0] == 'bv' for x in t[2][1])]
        if not subs:
            continue
        t = subs[0]
        idx = [x for x in t[2][1] if x != NONE]
        if len(idx) != 2:
            continue
        ax = [i for i, x in enumerate(idx) if x[0] == 'bv']
        if len(ax) != 1:
            continue
        other = idx[1 - ax[0]]
        if not (other[0] == 'slice' and other[1:] == (NONE, NONE, NONE)):
            return 'the member\'s noise is %s: not a whole line of the noise matrix along the sample axis' % show(t)[:70]
        base = t[1]
        while base[0] == 'bin' and base[1] in ('*', '/', '+', '-'):
            l_draw = any(x[0] == 'call' and x[1].startswith('numpy.random.') for x in subterms(base[2]))
            base = base[2] if l_draw else base[3]
        if not (base[0] == 'call' and base[1].startswith('numpy.random.')):
            continue
        if base[1] in ('numpy.random.randn', 'numpy.random.rand'):
            shp = list(base[2])
        else:
            sz = dict(base[3]).get('size', base[2][-1] if base[2] else None)
            if sz is None or sz[0] not in ('tuple', 'list'):
                continue
            shp = list(sz[1])
        if len(shp) != 2:
            return 'the parent-side noise has shape (%s): not a samples x members matrix' % ', '.join(show(x)[:30] for x in shp)
        rows = shp[1 - ax[0]]
        # the sample count of the signal, or of any array the signal handed to the worker is computed from
        # (the running residual X - sum(imfs) has the samples of X)
        parts = set(subterms(X))
        ok_rows = (rows[0] == 'sub' and rows[2] == C(0) and rows[1][0] == 'attr' and rows[1][2] == 'shape'
                   and rows[1][1] in parts) or (rows[0] == 'call' and rows[1] == 'builtins.len' and rows[2][0] in parts)
        def is_rows(r):
            return (r[0] == 'sub' and r[2] == C(0) and r[1][0] == 'attr' and r[1][2] == 'shape' and r[1][1] in parts) \
                or (r[0] == 'call' and r[1] == 'builtins.len' and r[2][0] in parts)
        if not ok_rows and is_rows(shp[ax[0]]):
            return ('the noise matrix is laid out with the samples along axis %d but the member variable indexes that axis: '
                    'a member receives one sample of every realisation instead of one realisation' % ax[0])
        if not ok_rows:
            if any(x[0] == 'attr' and x[2] == 'shape' for x in subterms(rows)) or is_c(rows):
                return ('the noise matrix has %s entries along the sample axis, the signal has X.shape[0]: the noise added '
                        'to a member is not one value per sample' % show(rows)[:50])
    return None


def _opaque(formal, t):
    # the worker sees an arbitrary non-None value for non-literal actuals
    return ('bin', '+', S('arg:' + formal), C(0)) if t[0] in ('sub', 'bin', 'call', 'meth') else S('arg:' + formal)


def _binding_text(bound):
    return ', '.join('%s=%s' % (k, show(v)[:24]) for k, v in sorted(bound.items()) if k in ('noise', 'noise_scaling'))


def rule_member_algebra(ctx, rid):
    P = ctx.P
    w = P.func(WORKER)
    x0 = w.params[0]
    for mode in ('single', 'flip'):
        for noise_given in (True, False):
            args = {'noise': S('noise') if noise_given else NONE, 'noise_scaling': S('noise_scaling'),
                    'job_ind': NONE}
            ev = Evaluator(P)
            st = None
            exits = ev.run(w, args=args, context={'noise_mode': mode})
            ctx.paths += len(exits)
            rets = [e for e in exits if e.kind == 'return']
            c = "noise_mode=%s, noise %s: member == %s" % (
                mode, 'given' if noise_given else 'drawn',
                'sift(X + s*n)' if mode == 'single' else '1/2 sift(X + s*n) + 1/2 sift(X - s*n)')
            if not rets:
                ctx.violation(rid, w, c, 'no return path for this mode')
                continue
            bad = None
            for e in rets:
                alg = mk_algebra()
                X = alg.poly(S(x0))
                p = alg.poly(e.value)
                sifts = {}
                for a in p.atoms():
                    t = alg.atom_terms.get(a)
                    if t is not None and t[0] == 'call' and t[1] == 'emd.sift.sift':
                        kw = dict(t[3])
                        sig = kw.get('X')
                        rest = tuple(sorted((k, alg.canon(v)) for k, v in kw.items() if k != 'X'))
                        sifts[a] = (alg.poly(sig) if sig is not None else None, rest)
                if mode == 'single':
                    if len(sifts) != 1 or p != Poly.atom(next(iter(sifts))):
                        bad = (e, 'member is %s' % str(p)[:120])
                        break
                    d = next(iter(sifts.values()))[0] - X
                    if d.is_zero():
                        bad = (e, 'no noise is added to the member signal')
                        break
                else:
                    if len(sifts) != 2:
                        bad = (e, 'flip member does not combine two sifts: %s' % str(p)[:120])
                        break
                    (a1, (s1, r1)), (a2, (s2, r2)) = sorted(sifts.items())
                    want = (Poly.atom(a1) + Poly.atom(a2)).scale(Fraction(1, 2))
                    if p != want:
                        bad = (e, 'flip member is not the mean of the two sifts: %s' % str(p)[:120])
                        break
                    if r1 != r2:
                        bad = (e, 'the two halves of a flip member are sifted with different options')
                        break
                    n1, n2 = s1 - X, s2 - X
                    if not (n1 + n2).is_zero() or n1.is_zero():
                        bad = (e, 'the two halves do not use +n and -n of the same draw: %s / %s'
                               % (str(n1)[:60], str(n2)[:60]))
                        break
            if bad:
                ctx.violation(rid, w, c, bad[1], node=bad[0].node, path=trace_tail(bad[0].state))
            else:
                ctx.passed(rid, w, c, '%d return path(s)' % len(rets))


def rule_member_mean(ctx, rid):
    """Ensemble column i = mean over members of column i."""
    P = ctx.P
    fi = P.func('emd.sift.ensemble_sift')
    ev = Evaluator(P)
    exits = ev.run(fi, context={'noise_mode': 'single'})
    ctx.paths += len(exits)
    found = 0
    bad = None
    for e in exits:
        if e.kind != 'return':
            continue
        for ls in e.state.loops:
            if ls.kind != 'for':
                continue
            for kind, b in ls.body_states:
                for eff in b.effects:
                    if eff[0] != 'setitem':
                        continue
                    base, idx, val = eff[1], eff[2], eff[3]
                    if not (idx[0] == 'tuple' and len(idx[1]) == 2 and idx[1][1] == ls.var):
                        continue
                    found += 1
                    ok = _is_member_mean(val, ls.var)
                    if ok is not True:
                        bad = (b, ok)
        # all columns at once: imfs[...] = np.mean(np.array([r[:, :k] for r in res]), axis=0)
        v = e.value
        fs = _full_store(v)
        if fs is not None:
            v = fs[1]
        red = (v[0] == 'meth' and v[1] in ('mean', 'sum', 'median', 'max', 'min', 'std', 'var')) or \
            (v[0] == 'call' and v[1] in ('numpy.mean', 'numpy.average', 'numpy.sum', 'numpy.median', 'numpy.max',
                                         'numpy.min', 'numpy.nanmean'))
        if red:
            arr = v[2] if v[0] == 'meth' else (v[2][0] if v[2] else NONE)
            if arr[0] == 'call' and arr[1] in ('numpy.array', 'numpy.asarray', 'numpy.stack', 'numpy.vstack') and arr[2]:
                arr = arr[2][0]
            if arr[0] == 'comp':
                found += 1
                ok = _is_member_mean(v, None, block=True)
                if ok is not True:
                    bad = (e.state, ok)
    c = 'ensemble column i == mean over members of column i'
    if bad:
        ctx.violation(rid, fi, c, 'the per-IMF reduction over members is not a mean of the same column: %s' % bad[1],
                      path=trace_tail(bad[0]))
    elif not found:
        ctx.undecided(rid, fi, c, 'no per-column reduction over the member results found')
    else:
        ctx.passed(rid, fi, c, '%d reduction states' % found)
    # complete ensemble: mean over members of the whole member result (read from the evaluated terms, so the
    # reduction may sit in a helper or a nested function)
    fi2 = P.func('emd.sift.complete_ensemble_sift')
    seen = {}

    def unwrap(t):
        # np.array(x) / np.asarray / np.stack(x) / [r for r in x]  ->  x
        while True:
            if t[0] == 'call' and t[1] in ('numpy.array', 'numpy.asarray', 'numpy.stack') and t[2] \
                    and dict(t[3]).get('axis', C(0)) == C(0):
                t = t[2][0]
            elif t[0] == 'comp' and len(t[3]) == 1 and not t[3][0][2] and t[2] == t[3][0][0]:
                t = t[3][0][1]
            else:
                return t

    def is_members(t):
        if t[0] == 'meth' and t[1] in ('starmap', 'map') and t[3]:
            d = _decode_fref(P, t[3][0])
            return d is not None and d[0] == WORKER
        return False
    REDS = ('mean', 'sum', 'median', 'max', 'min', 'average', 'nanmean', 'nansum', 'nanmedian', 'prod', 'std', 'var')

    def obs(node, term, st):
        if term[0] == 'meth' and term[1] in REDS:
            red, arr, args, kw = term[1], term[2], term[3], dict(term[4])
        elif term[0] == 'call' and term[1].startswith('numpy.') and term[1].split('.')[-1] in REDS and term[2]:
            red, arr, args, kw = term[1].split('.')[-1], term[2][0], term[2][1:], dict(term[3])
        else:
            return
        if not is_members(unwrap(arr)):
            return
        ax = kw.get('axis', args[0] if args else None)
        ok = red in ('mean', 'average') and ax == C(0) and 'weights' not in kw
        seen.setdefault(id(node), (node, ok, term))
        if not ok:
            seen[id(node)] = (node, ok, term)
    exits2 = Evaluator(P, observer=obs).run(fi2, context={'noise_mode': 'single'})
    ctx.paths += len(exits2)
    n = len(seen)
    bad2 = [x for x in seen.values() if not x[1]]
    c = 'complete ensemble: layer component == mean over members (axis 0 of the stacked member results)'
    if bad2:
        ctx.violation(rid, fi2, c, 'member results are reduced by `%s`' % show(bad2[0][2])[:80].replace(show(unwrap(
            bad2[0][2][2] if bad2[0][2][0] == 'meth' else bad2[0][2][2][0])), '<members>'), node=bad2[0][0])
    elif n == 0:
        ctx.undecided(rid, fi2, c, 'no reduction over stacked member results found')
    else:
        ctx.passed(rid, fi2, c, '%d reduction site(s)' % n)


_ALLOCS = ('numpy.empty', 'numpy.zeros', 'numpy.ones', 'numpy.full', 'numpy.empty_like', 'numpy.zeros_like',
           'numpy.ones_like', 'numpy.full_like')


def _full_store(t):
    """A = np.empty(shape); A[...] = V  (or A[:] / A[:, :])  ->  (allocation, V): every element is replaced by V"""
    if t[0] != 'setitem' or not (t[1][0] == 'call' and t[1][1] in _ALLOCS):
        return None
    full = ('slice', NONE, NONE, NONE)
    idx = t[2]
    if idx in (C(Ellipsis), full) or (idx[0] == 'tuple' and idx[1] and all(x in (full, C(Ellipsis)) for x in idx[1])):
        return t[1], t[3]
    return None


def _is_member_mean(val, var, block=False):
    """np.array([r[:, i] for r in res]).mean(axis=0) / np.mean([r[:, i] for r in res], axis=0) with the same
    column index i."""
    if val[0] == 'meth':
        if val[1] != 'mean':
            return 'reduction is .%s' % val[1]
        arr, args, kw = val[2], val[3], dict(val[4])
    elif val[0] == 'call' and val[1].startswith('numpy.') and val[2]:
        if val[1] not in ('numpy.mean', 'numpy.average') or 'weights' in dict(val[3]):
            return 'reduction is %s' % val[1]
        arr, args, kw = val[2][0], val[2][1:], dict(val[3])
    else:
        return 'reduction is %s' % show(val)[:40]
    if kw.get('axis') != C(0) and not (args and args[0] == C(0)):
        return 'mean is not taken over the member axis (axis=0)'
    # a stack of member blocks built once and sliced per column: np.array([r[:, :k] for r in res])[:, :, i] is
    # np.array([r[:, :k][:, i] for r in res])  ==  np.array([r[:, i] for r in res])   (i runs below k)
    FULL_ = ('slice', NONE, NONE, NONE)
    if arr[0] == 'sub' and arr[2][0] == 'tuple' and len(arr[2][1]) == 3 and arr[2][1][0] == FULL_ and arr[2][1][1] == FULL_ \
            and arr[1][0] == 'call' and arr[1][1] in ('numpy.array', 'numpy.asarray', 'numpy.stack') and arr[1][2] \
            and dict(arr[1][3]).get('axis', C(0)) == C(0) and arr[1][2][0][0] == 'comp' and len(arr[1][2][0][3]) == 1:
        comp_ = arr[1][2][0]
        bv_ = comp_[3][0][0]
        elt_ = comp_[2]
        col_ = arr[2][1][2]
        if elt_ == bv_ or (elt_[0] == 'sub' and elt_[1] == bv_ and elt_[2][0] == 'tuple' and len(elt_[2][1]) == 2
                           and elt_[2][1][0] == FULL_ and elt_[2][1][1][0] == 'slice'
                           and elt_[2][1][1][1] in (NONE, C(0)) and elt_[2][1][1][3] in (NONE, C(1))):
            arr = ('comp', comp_[1], ('sub', bv_, ('tuple', (FULL_, col_))), comp_[3])
    if arr[0] == 'call' and arr[1] in ('numpy.array', 'numpy.asarray', 'numpy.stack', 'numpy.vstack') and arr[2] \
            and dict(arr[3]).get('axis', C(0)) == C(0):
        arr = arr[2][0]
    if arr[0] != 'comp':
        return 'operand is not the stacked member columns'
    comp = arr
    elt = comp[2]
    bv = comp[3][0][0]
    if block:
        # the members stacked whole, or cut to their leading columns: np.mean([r[:, :k] for r in res], axis=0)
        if elt == bv:
            return True
        if elt[0] == 'sub' and elt[1] == bv and elt[2][0] == 'tuple' and len(elt[2][1]) == 2 \
                and elt[2][1][0] == ('slice', NONE, NONE, NONE) and elt[2][1][1][0] == 'slice' \
                and elt[2][1][1][1] in (NONE, C(0)) and elt[2][1][1][3] in (NONE, C(1)):
            return True
        return 'the members are not stacked by their leading columns: %s' % show(elt)[:40]
    if not (elt[0] == 'sub' and elt[1] == bv and elt[2][0] == 'tuple' and len(elt[2][1]) == 2
            and elt[2][1][1] == var):
        return 'member column index differs from the output column index: %s' % show(elt)[:40]
    return True


def rule_zero_noise(ctx, rid):
    """ensemble_noise = 0  =>  every member is sift(X, sift_thresh, max_imfs, same carriers)."""
    P = ctx.P
    fi = P.func('emd.sift.ensemble_sift')
    w = P.func(WORKER)
    sites, nexits, _ev = collect_sites(P, fi, context={'noise_mode': 'single'})
    ds = [x for x in sites.values() if x.kind == 'starmap' and P.funcs[x.callee] is w]
    if len(ds) != 1:
        ctx.undecided(rid, fi, 'zero noise reduces to the classic sift', 'expected one dispatch of the noise worker')
        return
    s = ds[0]
    c1 = 'zero noise level: noise scaling folds to 0 and sift_thresh / max_imfs reach the worker unchanged'
    alg = mk_algebra()
    bad = None
    for bound, star, env, trace in s.states:
        ns = bound.get('noise_scaling')
        if ns is None:
            bad = 'noise_scaling not bound'
            break
        p = alg.poly(substitute(ns, {S('ensemble_noise'): C(0)}))
        if not p.is_zero():
            bad = 'noise scaling does not vanish with ensemble_noise=0: %s' % str(alg.poly(ns))[:80]
            break
        for f in ('sift_thresh', 'max_imfs'):
            if bound.get(f) != env.get(f, S(f)):
                bad = '%s of the worker is bound to %s' % (f, show(bound.get(f, NONE))[:40])
                break
        xv = bound.get(w.params[0])
        if xv is None or alg.poly(xv) != alg.poly(S(fi.params[0])):
            bad = 'worker signal is not the (canonicalised) input'
    if bad:
        ctx.violation(rid, fi, c1, bad, node=s.node)
    else:
        ctx.passed(rid, fi, c1, '%d binding states' % len(s.states), node=s.node)
    # worker with scaling 0, both modes
    for mode in ('single', 'flip'):
        ev = Evaluator(P)
        exits = ev.run(w, args={'noise_scaling': C(0), 'job_ind': NONE, 'noise': S('noise')},
                       context={'noise_mode': mode})
        c2 = 'zero noise level, noise_mode=%s: member == sift(X, sift_thresh, max_imfs, carriers)' % mode
        bad = None
        for e in exits:
            if e.kind != 'return':
                continue
            alg = mk_algebra()
            p = alg.poly(e.value)
            ats = p.atoms()
            if len(ats) != 1 or p != Poly.atom(next(iter(ats))):
                bad = 'member is %s' % str(p)[:100]
                break
            t = alg.atom_terms[next(iter(ats))]
            kw = dict(t[3]) if t[0] == 'call' and t[1] == 'emd.sift.sift' else None
            if kw is None or alg.poly(kw['X']) != alg.poly(S(w.params[0])):
                bad = 'member is not a sift of the unperturbed signal'
                break
            for f in ('sift_thresh', 'max_imfs', 'imf_opts', 'envelope_opts', 'extrema_opts'):
                if kw.get(f) != S(f):
                    bad = 'sift option %s is %s' % (f, show(kw.get(f, NONE))[:30])
        if bad:
            ctx.violation(rid, w, c2, bad)
        else:
            ctx.passed(rid, w, c2)


# ----------------------------------------------------------------------------------------------
def rule_worker_pure(ctx, rid):
    """The noise worker leaves its arguments untouched: the jobs of one chunk are unpickled together in the worker, so
    members dispatched in the same chunk share one X object; adding the noise in place leaks one member's noise into
    the next (only visible when nensembles > 4 * nprocesses)."""
    from ..effects import MutationAnalysis
    P = ctx.P
    w = P.func(WORKER)
    mp = MutationAnalysis(P).mutated_params(w)
    for formal in ('X', 'noise'):
        c = 'the worker does not modify its %s argument' % formal
        if formal in mp:
            ctx.violation(rid, w, c, 'the worker changes %s in place (%s): jobs sent to a worker in one chunk share the '
                          'unpickled array, so a member starts from data that already contains another member\'s noise'
                          % (formal, mp[formal][0].what), node=mp[formal][0].node)
        else:
            ctx.passed(rid, w, c)


def rule_no_shortcut(ctx, rid):
    """Every way ensemble_sift returns goes through the member mean; a shortcut that returns a classic sift directly
    must be the classic sift with the same threshold, cap and option carriers (the zero-noise clause)."""
    P = ctx.P
    fi = P.func('emd.sift.ensemble_sift')
    c = 'every return path delivers the member mean (or the classic sift with the same cap and options)'
    bad = None
    n = 0
    for e in Evaluator(P).run(fi, context={'noise_mode': 'single'}):
        if e.kind != 'return':
            continue
        n += 1
        v = e.value
        if v[0] == 's' and '@F' in v[1]:
            continue                        # accumulator filled by the per-IMF loop (C08.R2 checks its content)
        fs = _full_store(v)
        if fs is not None:
            v = fs[1]
        if _is_member_mean(v, None, block=True) is True or (
                (v[0] == 'meth' or (v[0] == 'call' and v[1].startswith('numpy.'))) and
                any(x[0] == 'comp' for x in subterms(v))):
            continue                        # a reduction of the stacked members (C08.R2 checks which)
        if v[0] == 'call' and v[1] == 'emd.sift.sift':
            kw = dict(v[3])
            missing = [f for f in ('sift_thresh', 'max_imfs', 'imf_opts', 'envelope_opts', 'extrema_opts')
                       if kw.get(f) != S(f)]
            if missing:
                bad = (e, 'a path returns the classic sift without %s: with zero noise the ensemble no longer equals '
                       'sift(X) with the same cap / options' % ', '.join(missing))
            continue
        bad = (e, 'a path returns %s instead of the mean over the members' % show(v)[:60])
    if bad:
        ctx.violation(rid, fi, c, bad[1], node=bad[0].node, path=trace_tail(bad[0].state, 6))
    elif n == 0:
        ctx.undecided(rid, fi, c, 'no return path')
    else:
        ctx.passed(rid, fi, c, '%d return path(s)' % n)


def rule_noise_update(ctx, rid):
    """Complete ensemble: after every layer each noise column loses its own first IMF:
    noise <- noise - [first column of sift(noise[:, k])  for k]  arranged samples x members, whatever the ensemble
    size (np.squeeze would drop the member axis when there is one member)."""
    P = ctx.P
    fi = P.func('emd.sift.complete_ensemble_sift')
    ev = Evaluator(P)
    ev.run(fi, context={'noise_mode': 'single'})
    c = 'noise columns lose their own first IMF, member axis kept for every ensemble size'
    vals = []
    for node, sms in ev.loops_seen.items():
        for sm in sms:
            # the noise matrix is found by role, not by name: the variable whose value is <noise> (op) <something drawn
            # from a pool map>, where <noise> is rooted in a numpy.random draw (before the loop) or is the loop-head
            # value of a variable that was (inside the loop)
            def noisy(t_, entry):
                for x in subterms(t_):
                    if x[0] == 'call' and x[1].startswith('numpy.random.'):
                        return True
                    if x[0] == 's' and '@' in x[1]:
                        ev_ = entry.get(x[1].split('@')[0])
                        if ev_ is not None and any(y[0] == 'call' and y[1].startswith('numpy.random.')
                                                   for y in subterms(ev_)):
                            return True
                return False

            def pooled(t_):
                return any(x[0] == 'meth' and x[1] in ('starmap', 'map', 'imap') for x in subterms(t_))
            for nm_, t in sorted(sm.entry_env.items()):
                if t is not None and t[0] == 'bin' and noisy(t[2], sm.entry_env) and pooled(t[3]) and not pooled(t[2]):
                    vals.append(('before the layer loop', t, sm.entry_env))
            for passno, how, e in sm.ends:
                if how == 'continue':
                    for nm_, t in sorted(e.env.items()):
                        if t is not None and t[0] == 'bin' and noisy(t[2], sm.entry_env) and pooled(t[3]) \
                                and not pooled(t[2]):
                            vals.append(('in the layer loop', t, e.env))
    n = 0
    bad = None
    wheres = set()
    for where, t, env in vals:
        is_upd = True
        wheres.add(where)
        if t[0] == 'bin' and t[1] != '-' and is_upd:
            bad = '%s: the first IMFs of the noise columns are combined with the noise by `%s`, not subtracted from it' % (where, t[1])
            break
        if not (t[0] == 'bin' and t[1] == '-'):
            continue
        n += 1
        rhs = t[3]
        sq = [x for x in subterms(rhs) if (x[0] == 'call' and x[1] == 'numpy.squeeze') or (x[0] == 'meth' and x[1] == 'squeeze')]
        if sq:
            bad = '%s: the first IMFs are stacked with np.squeeze, which drops the member axis when nensembles == 1 ' \
                  '(the update then broadcasts to N x N)' % where
            break
        core = rhs
        transposed = False
        if core[0] == 'attr' and core[2] == 'T':
            core, transposed = core[1], True
        elif core[0] == 'meth' and core[1] == 'transpose':
            core, transposed = core[2], True
        comp = None
        if core[0] == 'call' and core[1] in ('numpy.array', 'numpy.asarray', 'numpy.stack', 'numpy.vstack',
                                             'numpy.column_stack') and core[2] and core[2][0][0] == 'comp':
            comp = core[2][0]
            if core[1] == 'numpy.column_stack' or dict(core[3]).get('axis') in (C(1), C(-1)):
                transposed = not transposed
        if comp is None or len(comp[3]) != 1:
            ctx.undecided(rid, fi, c, '%s: cannot read the noise update %s' % (where, show(rhs)[:80]))
            return
        var, it, conds = comp[3][0]
        elt = comp[2]
        okelt = elt[0] == 'sub' and elt[1] == var and elt[2][0] == 'tuple' and len(elt[2][1]) == 2 \
            and elt[2][1][0][0] == 'slice' and elt[2][1][1] == C(0)
        if not okelt and elt[0] == 'sub' and elt[1] == var and elt[2][0] == 'tuple' and len(elt[2][1]) == 2 \
                and elt[2][1][0][0] == 'slice' and elt[2][1][1] == C(-1):
            # the last column is the first one when the noise sift is capped at one IMF at this dispatch
            try:
                formals = [f for f in P.func('emd.sift.sift').params]
                k = formals.index('max_imfs')
                argsc = it[3][1] if it[0] == 'meth' and len(it[3]) > 1 else None
                tup = argsc[2] if argsc is not None and argsc[0] == 'comp' else None
                if tup is not None and tup[0] in ('tuple', 'list') and len(tup[1]) > k and tup[1][k] == C(1):
                    okelt = True
            except (ValueError, IndexError, KeyError):
                pass
        okit = it[0] == 'meth' and it[1] in ('starmap', 'map') and it[3] and it[3][0] in (('ref', 'emd.sift.sift'),
                                                                                          ('func', 'emd.sift.sift'))
        if not okelt:
            bad = '%s: the column subtracted from the noise is %s, not the first IMF r[:, 0]' % (where, show(elt)[:40])
            break
        if not okit or not transposed:
            bad = '%s: the first IMFs are not those of the noise columns arranged samples x members: %s' \
                  % (where, show(rhs)[:80])
            break
    if bad:
        ctx.violation(rid, fi, c, bad)
    elif n < 2 or len(wheres) < 2:
        ctx.undecided(rid, fi, c, 'expected a noise update before and inside the layer loop, found %d (%s)'
                      % (n, ', '.join(sorted(wheres)) or 'none'))
    else:
        ctx.passed(rid, fi, c, '%d update states' % n)


def rule_noise_mode_forwarded(ctx, rid):
    """Every dispatch of the noise worker receives the caller's noise_mode: evaluated with noise_mode='flip' (the
    non-default value), every job tuple / keyword set must bind the worker's noise_mode to 'flip' - a tuple that
    omits it silently falls back to the worker's default 'single' for that dispatch only."""
    P = ctx.P
    w = P.func(WORKER)
    for q in ('emd.sift.ensemble_sift', 'emd.sift.complete_ensemble_sift'):
        fi = P.func(q)
        c = 'noise_mode reaches every dispatch of the noise worker'
        sites, nexits, _ev = collect_sites(P, fi, context={'noise_mode': 'flip'})
        ds = [x for x in sites.values() if x.kind in ('starmap', 'map', 'call', 'partial') and P.funcs.get(x.callee) is w]
        ctx.paths += nexits
        if not ds:
            ctx.undecided(rid, fi, c, 'no dispatch of the noise worker found')
            continue
        bad = None
        n = 0
        # a partial that already binds noise_mode serves the dispatches made through it
        by_partial = any(x.kind == 'partial' and all(b.get('noise_mode') == C('flip') for b, st_, env, tr in x.states)
                         for x in ds)
        for s in ds:
            if s.kind == 'partial':
                continue
            for bound, star, env, trace in s.states:
                n += 1
                got = bound.get('noise_mode')
                if got == C('flip') or (got is None and by_partial):
                    continue
                bad = (s, 'with noise_mode=\'flip\' a dispatch binds the worker\'s noise_mode to %s: these members are sifted '
                       'with a single noise realisation while the others are sign-flip pairs'
                       % (show(got)[:30] if got is not None else 'its default \'single\' (the argument is not passed)'))
        if bad:
            ctx.violation(rid, fi, c, bad[1], node=bad[0].node)
        elif n == 0:
            ctx.undecided(rid, fi, c, 'no dispatch state')
        else:
            ctx.passed(rid, fi, c, '%d dispatch state(s)' % n)
