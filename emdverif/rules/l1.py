"""L1 - library attribute resolution (shared by C05 C10 C11 C14 C19).

Every `numpy.*` / `scipy.*` attribute chain used in an analysed function must exist in the installed library.
This is the only rule that imports anything: numpy/scipy themselves (never the repository)."""
import ast
import importlib

from ..model import walk_local, unparse

_mods = {}


def _resolve_lib(dotted):
    parts = dotted.split('.')
    obj = None
    for i in range(len(parts), 0, -1):
        name = '.'.join(parts[:i])
        if name in _mods:
            obj = _mods[name]
        else:
            try:
                obj = importlib.import_module(name)
            except Exception:
                obj = None
            _mods[name] = obj
        if obj is not None:
            rest = parts[i:]
            break
    else:
        return False
    for r in rest:
        if not hasattr(obj, r):
            return False
        obj = getattr(obj, r)
    return True


def unresolved_in(P, fi):
    """[(node, dotted)] numpy/scipy attribute chains in fi that do not resolve."""
    out = []
    seen = set()
    for n in walk_local(fi.node):
        if isinstance(n, ast.Attribute):
            d = P.resolve(fi.module, n, fi)
            if d and d.split('.')[0] in ('numpy', 'scipy') and d not in seen:
                seen.add(d)
                if not _resolve_lib(d):
                    # report only the shortest failing prefix once
                    out.append((n, d))
    # keep minimal failing chains
    res = []
    for n, d in out:
        if not any(d != d2 and d.startswith(d2 + '.') for _, d2 in out):
            res.append((n, d))
    return res


def rule_lib_attrs(ctx, rid, quals, what):
    """One obligation per function: all library attributes it uses (and its repo callees use) resolve."""
    P = ctx.P
    todo = []
    seen = set()
    for q in quals:
        stack = [q]
        while stack:
            x = stack.pop()
            if x in seen or x not in P.funcs:
                continue
            seen.add(x)
            stack.extend(P.callgraph().get(x, ()))
    total = 0
    for q in sorted(seen):
        fi = P.funcs[q]
        bad = unresolved_in(P, fi)
        nattr = sum(1 for n in walk_local(fi.node) if isinstance(n, ast.Attribute))
        total += nattr
        for n, d in bad:
            ctx.violation(rid, fi, 'library attribute %s resolves' % d,
                          '%s does not exist in the installed library: every call of %s raises AttributeError '
                          '(%s cannot run)' % (d, fi.name, what), node=n, expected='attribute exists', found='missing')
    roots = [P.funcs[q] for q in quals if q in P.funcs]
    if roots:
        ctx.passed(rid, roots[0], 'library attributes of the %s cone resolve' % what,
                   '%d functions scanned' % len(seen))
    ctx.cover.setdefault('lib_attr_functions', 0)
    ctx.cover['lib_attr_functions'] += len(seen)
