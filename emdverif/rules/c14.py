"""C14 - per-cycle statistics and phase alignment use exactly each cycle's samples."""
import ast

from ..model import AnalysisError, unparse, walk_local
from ..paths import Evaluator, is_c, show, C, S, NONE, subterms
from ..indexclass import ElemEval, Pos, classes, Undecided, spec_bin
from .common import mk_algebra, trace_tail
from . import l1
from .c10 import _find_digitize, _strip_column

PROPERTY = 'C14'
EXPLANATION = (
    "R1: in get_cycle_stat_from_samples the reducing function receives vals[where(labels == i)[0]] for i over "
    "range(max(labels)+1) and its result is stored in slot i (the label lookup is inlined from map_cycle_to_samples). "
    "R2: project_cycles_to_samples starts from an all-NaN sample-length vector and writes vals[i] exactly at "
    "where(labels == i). R3: phase_align indexes phase and value with the same per-cycle index set, evaluates the "
    "interpolant on the bin centres of define_hist_bins(0, 2pi, npoints) and stores it in the column of that cycle. "
    "R4: bin_by_phase's loop covers every allocated row: for nbins in {2,3,5} every digitize class in(k), "
    "k = 1..nbins, is the content of row k-1 (last writer of a row wins), for default and supplied edges, weighted and "
    "unweighted; what is written is the mean along the sample axis of x[digitize(ip, edges) == i]; the default edges "
    "are define_hist_bins(0, 2pi, nbins); only an empty bin is skipped; the result is nbins x x.shape[1:]. R3 also: "
    "the cycles aligned are the supplied ones or the unmasked all-cycles labelling, and a cycle is skipped only when "
    "another one was requested or it has no samples. R1 also: every path through the per-label loop writes its slot "
    "once, by the route (vector / tuple of vectors) fitting the values. R5: get_cycle_stat is the support routine on "
    "the object's own labels. R6 iterator contract: the (index, samples) pairs phase_align iterates over are (i, "
    "map_cycle_to_samples(labels, i)) for i in range(max(label) + 1) - _ensure_cycle_inputs, Cycles.iterate, "
    "IterateCycles.__init__ / __iter__ / niters / iterate_cycles are checked link by link. L1: library attributes on "
    "these paths resolve. Not decided: interpolation error for non-linear profiles.")
RULE_TEXT = "one obligation per routine clause; the bin-cover rule enumerates nbins in {2,3,5} x all classes"
FLOORS = {'C14.R1': 3, 'C14.R2': 2, 'C14.R3': 4, 'C14.R4': 2, 'C14.R5': 1, 'C14.R6': 5}
PINNED_EXPECT = [('C14.R4', 'emd.cycles.bin_by_phase', 'every allocated phase bin'),
                 ('L1', 'emd.support.ensure_equal_dims', 'numpy.alltrue')]



def _inline(q, d):
    return q.startswith('emd._cycles_support.map_')


def _label_lookup(t, labels, idx):
    """t == np.where(labels == idx)[0]"""
    return t == ('sub', ('call', 'numpy.where', (('cmp', '==', labels, idx),), ()), C(0))


def run(ctx):
    ctx.rule(rule_stat, 'C14.R1')
    ctx.rule(rule_project, 'C14.R2')
    ctx.rule(rule_phase_align, 'C14.R3')
    ctx.rule(rule_align_selection, 'C14.R3')
    ctx.rule(rule_iterator_contract, 'C14.R6')
    ctx.rule(rule_stat_caller, 'C14.R5')
    ctx.rule(rule_bin_cover, 'C14.R4')
    # the phase bins and the alignment grid are define_hist_bins(0, 2pi, n): edges exactly linspace(min, max, n + 1),
    # centres their midpoints
    from . import c10
    ctx.rule(c10.rule_bins, 'C14.R7')
    # statistics are computed in floating point whatever the dtype of the observations: no result array allocated in,
    # or cast to, the dtype of an argument (an integer value vector would truncate every mean)
    from . import l2
    ctx.rule(l2.rule_inplace_input_dtype, 'C14.R8', [
        'emd._cycles_support.get_cycle_stat_from_samples', 'emd._cycles_support.get_slice_stat_from_samples',
        'emd._cycles_support.get_augmented_cycle_stat_from_samples', 'emd._cycles_support.get_subset_stat_from_samples',
        'emd._cycles_support.get_chain_stat_from_samples', 'emd._cycles_support.project_cycles_to_samples',
        'emd.cycles.bin_by_phase', 'emd.cycles.phase_align', 'emd.cycles.get_cycle_stat'])
    l1.rule_lib_attrs(ctx, 'L1', ['emd.cycles.phase_align', 'emd.cycles.bin_by_phase', 'emd.cycles.get_cycle_stat'],
                      'cycle statistics')


def _returned_names(e):
    """names of the local arrays an exit returns (read from the loop / post symbols of the returned value): the
    output array is identified by being returned, not by what it is called"""
    vals = e.value[1] if e.value is not None and e.value[0] == 'tuple' else (e.value,)
    out = set()
    for t in vals:
        while t is not None and t[0] in ('setitem', 'meth') and len(t) > 2:
            t = t[1] if t[0] == 'setitem' else t[2]
        if t is not None and t[0] == 's' and '@' in t[1]:
            out.add(t[1].split('@')[0])
    return out


def _for_stores(exits, outname=None):
    out = []
    for e in exits:
        if e.kind != 'return':
            continue
        if outname == '<returned>':
            names = _returned_names(e)
            for ls in e.state.loops:
                if ls.kind != 'for':
                    continue
                for kind, b in ls.body_states:
                    for eff in b.effects:
                        if eff[0] == 'setitem' and eff[5] in names:
                            out.append((e, ls, b, eff))
            continue
        for ls in e.state.loops:
            if ls.kind != 'for':
                continue
            for kind, b in ls.body_states:
                for eff in b.effects:
                    if eff[0] == 'setitem' and (outname is None or eff[5] == outname):
                        out.append((e, ls, b, eff))
    return out


def rule_stat(ctx, rid):
    P = ctx.P
    fi = P.func('emd._cycles_support.get_cycle_stat_from_samples')
    ev = Evaluator(P, inline=_inline, max_depth=5)
    exits = ev.run(fi)
    ctx.paths += len(exits)
    labels = S('cycle_vect')
    stores = _for_stores(exits)
    c1 = 'reducer receives exactly the samples labelled i and its result goes to slot i'
    c2 = 'one slot per label 0..max(label)'
    bad = None
    n = 0
    for e, ls, b, eff in stores:
        idx, val = eff[2], eff[3]
        n += 1
        if idx != ls.var:
            bad = 'result of cycle %s is stored at %s' % (show(ls.var), show(idx))
        # argument of the reducer
        args = val[2] if val[0] in ('call',) else (val[2] if val[0] == 'callv' else ())
        if val[0] == 'callv':
            args = val[2]
        lookups = [t for t in subterms(val) if t[0] == 'sub' and t[1][0] == 'call' and t[1][1] == 'numpy.where']
        if not lookups or not all(_label_lookup(t, labels, ls.var) for t in lookups):
            bad = 'reducer argument is not vals[where(labels == i)[0]]: %s' % show(val)[:80]
        # value vector indexed by the lookup
        ok_idx = any(t[0] == 'sub' and t[2] in lookups for t in subterms(val))
        if not ok_idx:
            bad = 'the values are not indexed by the label lookup'
        # exact argument shape: func(vals[lookup])  or, for a tuple of value vectors, func(*[v[lookup] for v in vals])
        if val[0] in ('call', 'callv') and not bad:
            fargs = val[2]
            vals_t = S(fi.params[0])
            okarg = False
            if len(fargs) == 1 and fargs[0][0] == 'sub' and fargs[0][1] == vals_t and fargs[0][2] in lookups:
                okarg = True
            if len(fargs) == 1 and fargs[0][0] == 'starred' and fargs[0][1][0] == 'comp' and len(fargs[0][1][3]) == 1:
                comp = fargs[0][1]
                var, it, conds = comp[3][0]
                if it == vals_t and not conds and comp[2][0] == 'sub' and comp[2][1] == var and comp[2][2] in lookups:
                    okarg = True
            if not okarg:
                bad = 'the reducer does not receive exactly the value vector(s) restricted to the label lookup: %s' \
                    % show(val)[:100]
    # no path through the loop body may leave the slot of its label unwritten, and the route taken (one value vector /
    # a tuple of vectors) must fit the test that selected it
    c_all = 'every path through the per-label loop writes the slot of its label exactly once, by the route fitting the values'
    skip = None
    nb = 0
    from .c15 import _tuple_route
    vals_t0 = S(fi.params[0])
    for e in exits:
        if e.kind != 'return' or not (e.value[0] == 's' and '@F' in e.value[1]):
            continue
        outn = e.value[1].split('@')[0]
        for ls in e.state.loops:
            if ls.kind != 'for':
                continue
            for kind, b in ls.body_states:
                nb += 1
                sets = [f for f in b.effects if f[0] == 'setitem' and f[5] == outn]
                if len(sets) != 1:
                    skip = (b, 'a path through the loop %s (conditions: %s)' % (
                        'leaves the slot unwritten: the statistic of that cycle keeps the initial value' if not sets
                        else 'writes the slot %d times' % len(sets),
                        '; '.join('%s=%s' % (show(cn)[:50], t) for cn, t, _ in b.conds[-2:]) or 'none'))
                    break
                tr = _tuple_route(b.conds, vals_t0)
                val = sets[0][3]
                starred = val[0] in ('call', 'callv') and len(val[2]) == 1 and val[2][0][0] == 'starred'
                if tr is True and not starred and val[0] in ('call', 'callv'):
                    skip = (b, 'a tuple of value vectors is indexed as if it were one vector')
                if tr is False and starred:
                    skip = (b, 'a single value vector is unpacked element by element as if it were a tuple of vectors')
                if any(cd[0] == 'call' and cd[1] == 'builtins.isinstance' and len(cd[2]) == 2 and cd[2][1] == vals_t0
                       for cd, t_, ln in b.conds):
                    skip = (b, 'isinstance is asked whether a type is an instance of the values (arguments swapped)')
            if skip:
                break
        if skip:
            break
    if skip:
        ctx.violation(rid, fi, c_all, skip[1], path=trace_tail(skip[0], 6))
    elif nb:
        ctx.passed(rid, fi, c_all, '%d loop-body paths' % nb)
    # every way of returning must go through that per-label loop: a shortcut that fills the result differently
    # (vectorised fast path, early return) is not "the function applied to exactly the samples of each label"
    c0 = 'every return path delivers the slot-by-slot filled result'
    short = None
    nret = 0
    for e in exits:
        if e.kind != 'return':
            continue
        nret += 1
        v = e.value
        if not (v[0] == 's' and '@F' in v[1]):
            short = (e, 'a path returns %s without the per-label loop (conditions: %s)'
                     % (show(v)[:50], '; '.join('%s=%s' % (show(cn)[:50], t) for cn, t, _ in e.state.conds[-3:])))
    if short:
        ctx.violation(rid, fi, c0, short[1], node=short[0].node, path=trace_tail(short[0].state, 6))
    elif nret:
        ctx.passed(rid, fi, c0, '%d return paths' % nret)
    if bad:
        ctx.violation(rid, fi, c1, bad)
    elif n == 0:
        ctx.undecided(rid, fi, c1, 'no per-cycle store found')
    else:
        ctx.passed(rid, fi, c1, '%d store states' % n)
    alg = mk_algebra()
    okr = False
    for e, ls, b, eff in stores:
        it = ls.iter_term
        want = ('bin', '+', ('call', 'numpy.max', (labels,), ()), C(1))
        if it[0] == 'call' and it[1] == 'builtins.range' and len(it[2]) == 1 and alg.poly(it[2][0]) == alg.poly(want):
            okr = True
        else:
            okr = False
            break
    if okr:
        ctx.passed(rid, fi, c2)
    elif stores:
        ctx.violation(rid, fi, c2, 'loop over %s' % show(stores[0][1].iter_term)[:60],
                      expected='range(max(labels) + 1)')
    else:
        ctx.undecided(rid, fi, c2, 'no loop found')


def rule_project(ctx, rid):
    P = ctx.P
    fi = P.func('emd._cycles_support.project_cycles_to_samples')
    ev = Evaluator(P, inline=_inline, max_depth=5)
    exits = ev.run(fi)
    ctx.paths += len(exits)
    labels = S('cycle_vect')
    vals = S('vals')
    stores = _for_stores(exits)
    c1 = 'projection writes vals[i] exactly at the samples labelled i'
    bad = None
    for e, ls, b, eff in stores:
        idx, val = eff[2], eff[3]
        if not _label_lookup(idx, labels, ls.var):
            bad = 'written at %s' % show(idx)[:60]
        if val != ('sub', vals, ls.var):
            bad = 'value written is %s, expected vals[i]' % show(val)[:40]
        it = ls.iter_term
        if not (it[0] == 'call' and it[1] == 'builtins.range' and it[2] == (('call', 'builtins.len', (vals,), ()),)):
            bad = 'loop runs over %s, expected range(len(vals))' % show(it)[:40]
    if bad:
        ctx.violation(rid, fi, c1, bad)
    elif not stores:
        ctx.undecided(rid, fi, c1, 'no store found')
    else:
        ctx.passed(rid, fi, c1, '%d store states' % len(stores))
    # NaN initialisation of a sample-length vector
    c2 = 'projection starts from an all-NaN vector of sample length'
    init = None
    for e in exits:
        names = _returned_names(e) if e.kind == 'return' else set()
        for ls in e.state.loops:
            for name, t in ls.entry_env.items():
                if name in names:
                    init = t
    okinit = False
    if init is not None:
        txt = show(init)
        okinit = ('numpy.nan' in txt or 'np.nan' in txt) and ('zeros_like(cycle_vect)' in txt or 'full' in txt
                                                              or 'ones_like(cycle_vect)' in txt)
    if okinit:
        ctx.passed(rid, fi, c2, show(init)[:80])
    else:
        ctx.violation(rid, fi, c2, 'initial value is %s' % (show(init)[:80] if init else 'not found'))


def rule_phase_align(ctx, rid):
    P = ctx.P
    fi = P.func('emd.cycles.phase_align')
    ev = Evaluator(P)
    exits = ev.run(fi, context={'mode': 'cycle', 'ii': None})
    ctx.paths += len(exits)
    stores = _for_stores(exits, '<returned>')
    c4 = 'interpolant has the requested kind and extrapolates (no NaN / error at the first and last bin centre)'
    bad4 = None
    c1 = 'phase and value of a cycle are taken at the same sample index set'
    c2 = 'interpolant is evaluated on the bin centres of define_hist_bins(0, 2pi, npoints)'
    c3 = 'aligned waveform of cycle i is stored in column i'
    if not stores:
        for c in (c1, c2, c3):
            ctx.undecided(rid, fi, c, 'no store into the aligned array found')
        return
    bad1 = bad2 = bad3 = None
    for e, ls, b, eff in stores:
        idx, val = eff[2], eff[3]
        var = ls.var
        cind, cinds = (var[1][0], var[1][1]) if var[0] == 'tuple' and len(var[1]) == 2 else (None, None)
        if not (idx[0] == 'tuple' and len(idx[1]) == 2 and idx[1][1] == cind):
            bad3 = 'stored at %s' % show(idx)[:40]
        # val = f(phase_bins), f = interp1d(phase_data, x_data, ...)
        if not (val[0] == 'callv' and val[1][0] == 'call' and val[1][1] == 'scipy.interpolate.interp1d'):
            bad2 = 'value is %s' % show(val)[:60]
            continue
        f = val[1]
        fkw = dict(f[3])
        kind = fkw.get('kind', f[2][2] if len(f[2]) > 2 else C('linear'))
        if kind != S('interp_kind'):
            bad4 = 'interpolation kind is %s, the caller\'s interp_kind is ignored' % show(kind)[:40]
        elif fkw.get('bounds_error', C(None)) != C(False) or fkw.get('fill_value') != C('extrapolate'):
            bad4 = 'interpolant does not extrapolate: bounds_error=%s fill_value=%s' % (
                show(fkw.get('bounds_error', C(None))), show(fkw.get('fill_value', C(None))))
        grid = val[2][0] if val[2] else None
        xs, ys = f[2][0], f[2][1]
        ip_t = e.state.env.get('ip')
        x_t = e.state.env.get('x')

        def base_idx(t):
            while t[0] == 'meth' and t[1] in ('copy',):
                t = t[2]
            if t[0] == 'sub':
                return t[1], t[2]
            return None, None
        bx, ix = base_idx(xs)
        by, iy = base_idx(ys)
        if ix != cinds or iy != cinds:
            bad1 = 'phase indexed by %s, value indexed by %s' % (show(ix)[:30] if ix else None, show(iy)[:30] if iy else None)
        if bx != ip_t or by != x_t:
            bad1 = 'interpolant is not built from (phase, value): %s / %s' % (show(bx)[:30], show(by)[:30])
        want_grid = ('sub', ('call', 'emd.spectra.define_hist_bins',
                             (), (('data_max', ('bin', '*', C(2), ('ref', 'numpy.pi'))), ('data_min', C(0)),
                                  ('nbins', S('npoints')), ('scale', C('linear')))), C(1))
        if grid != want_grid:
            bad2 = 'evaluated on %s' % show(grid)[:80]
    for c, bad in ((c1, bad1), (c2, bad2), (c3, bad3), (c4, bad4)):
        if bad:
            ctx.violation(rid, fi, c, bad)
        else:
            ctx.passed(rid, fi, c, '%d store states' % len(stores))


def rule_align_selection(ctx, rid):
    """phase_align: which cycles are aligned.  The cycle iterator is the supplied one, or the all-cycles labelling of
    the phase when none is supplied; inside the loop a cycle is skipped only when another one was requested (ii) or it
    has no samples, and every other cycle's column is written."""
    P = ctx.P
    fi = P.func('emd.cycles.phase_align')
    exits = [e for e in Evaluator(P).run(fi, context={'mode': 'cycle'}) if e.kind == 'return']
    ctx.paths += len(exits)
    c5 = 'cycles are the supplied ones, or get_cycle_vector(ip, return_good=False) when none are supplied'
    c6 = 'a cycle is skipped only if another cycle was requested or it has no samples; every other column is written'
    if not exits:
        ctx.undecided(rid, fi, c5, 'no returning path')
        return
    n5 = n6 = 0
    for e in exits:
        given = None
        for cd, tr, ln in e.state.conds:
            if cd[0] == 'cmp' and cd[2] == S('cycles') and cd[3] == NONE and cd[1] in ('is', 'isnot'):
                given = (cd[1] == 'isnot') == tr
        rv = e.value
        avg = rv[1][0] if rv[0] == 'tuple' and rv[1] else rv
        fors = [ls for ls in e.state.loops if ls.kind == 'for']
        if given is not None and len(fors) == 1 and not (avg[0] == 's' and '@F' in avg[1]) and \
                any(t[0] == 'call' and t[1] in ('numpy.zeros', 'numpy.full', 'numpy.empty') for t in subterms(avg)):
            ctx.violation(rid, fi, c6, 'the loop over cycles never writes the returned array %s: no cycle is aligned'
                          % show(avg)[:50], node=fors[0].node)
            return
        if given is None or len(fors) != 1 or not (avg[0] == 's' and '@F' in avg[1]):
            ctx.undecided(rid, fi, c5, 'path shape not recognised (%d loops)' % len(fors))
            return
        ls = fors[0]
        name = avg[1].split('@')[0]
        it = ls.iter_term
        uses_param = S('cycles') in set(subterms(it))
        gcv = [t for t in subterms(it) if t[0] == 'call' and t[1] == 'emd.cycles.get_cycle_vector']
        n5 += 1
        if given and (gcv or not uses_param):
            ctx.violation(rid, fi, c5, 'the supplied cycles are ignored: the loop runs over %s' % show(it)[:90], node=ls.node)
            return
        if not given:
            if uses_param and not gcv:
                ctx.violation(rid, fi, c5, 'cycles=None is iterated as it is (%s): no cycles are detected from the phase'
                              % show(it)[:60], node=ls.node)
                return
            if not gcv and any(t[0] == 'call' and NONE in t[2] + tuple(v for _, v in t[3]) for t in subterms(it)):
                ctx.violation(rid, fi, c5, 'cycles=None is iterated as it is (%s): no cycles are detected from the phase'
                              % show(it)[:60], node=ls.node)
                return
            if not gcv:
                ctx.undecided(rid, fi, c5, 'default cycles are %s' % show(it)[:80])
                return
            kw = dict(gcv[0][3])
            ph = kw.get('phase', NONE)
            if kw.get('return_good') != C(False) or kw.get('mask', NONE) != NONE:
                ctx.violation(rid, fi, c5, 'default cycles are get_cycle_vector(return_good=%s, mask=%s): cycles are dropped '
                              'before alignment' % (show(kw.get('return_good', NONE)), show(kw.get('mask', NONE))[:20]), node=ls.node)
                return
            if S('ip') not in set(subterms(ph)) or S('x') in set(subterms(ph)) - {t for t in subterms(ph) if t[0] == 'call'
                                                                               and t[1] == 'emd.support.ensure_vector'} and False:
                ctx.violation(rid, fi, c5, 'default cycles are detected from %s, not from the phase' % show(ph)[:60], node=ls.node)
                return
        # ---- skip discipline
        var = ls.var
        cind = var[1][0] if var[0] == 'tuple' and len(var[1]) == 2 else None
        inds = var[1][1] if var[0] == 'tuple' and len(var[1]) == 2 else None
        if cind is None:
            ctx.undecided(rid, fi, c6, 'loop variable is %s' % show(var))
            return
        for kind, b in ls.body_states:
            ii_none = same = inds_none = None
            for cd, tr, ln in b.conds:
                if cd[0] != 'cmp':
                    continue
                if cd[2] == S('ii') and cd[3] == NONE and cd[1] in ('is', 'isnot', '==', '!='):
                    ii_none = (cd[1] in ('is', '==')) == tr
                elif {cd[2], cd[3]} == {cind, S('ii')} and cd[1] in ('is', 'isnot', '==', '!='):
                    same = (cd[1] in ('is', '==')) == tr
                elif cd[2] == inds and cd[3] == NONE and cd[1] in ('is', 'isnot'):
                    inds_none = (cd[1] == 'is') == tr
            wrote = any(f[0] == 'setitem' and f[5] == name for f in b.effects)
            must_store = inds_none is False and (ii_none is True or same is True)
            must_skip = inds_none is True or (ii_none is False and same is False)
            n6 += 1
            desc = ', '.join('%s=%s' % (k, v) for k, v in (('ii is None', ii_none), ('cycle == ii', same),
                                                            ('cycle has no samples', inds_none)) if v is not None)
            if must_store and not wrote:
                ctx.violation(rid, fi, c6, 'a cycle that should be aligned is skipped (%s): its column keeps the initial value'
                              % desc, node=ls.node, path=trace_tail(b, 6))
                return
            if must_skip and wrote and inds_none is not True:
                ctx.violation(rid, fi, c6, 'a cycle other than the requested one is aligned (%s)' % desc, node=ls.node,
                              path=trace_tail(b, 6))
                return
            if not must_store and not must_skip and not wrote:
                ctx.violation(rid, fi, c6, 'a cycle is skipped under a condition the interface does not name (%s)'
                              % (desc or '; '.join(show(cd)[:40] for cd, _, _ in b.conds[-2:])), node=ls.node,
                              path=trace_tail(b, 6))
                return
    ctx.passed(rid, fi, c5, '%d returning paths' % n5)
    ctx.passed(rid, fi, c6, '%d loop-body paths' % n6)


def rule_iterator_contract(ctx, rid):
    """phase_align (and the control-point routines) walk the cycles with `for index, samples in cycles`.  The rules
    above take that pair to be (cycle i, samples labelled i) for i = 0..max(label); this rule checks the objects that
    provide it: _ensure_cycle_inputs wraps a label vector in IterateCycles(cycle_vect=that vector), a Cycles object
    hands out iterate(), IterateCycles.__iter__ serves 'cycles' with iterate_cycles, which yields (i,
    map_cycle_to_samples(labels, i)) for i in range(max(label) + 1), and niters is that same count (the number of
    columns phase_align allocates)."""
    P = ctx.P
    IT = 'emd.cycles.IterateCycles'
    sa = lambda n: ('attr', S('self'), n)       # noqa: E731
    # ---- _ensure_cycle_inputs
    fi = P.func('emd.cycles._ensure_cycle_inputs')
    c = 'a label vector is wrapped in an iterator over that same vector; a Cycles object hands out its own iterator'
    bad = None
    seen = set()
    for e in Evaluator(P).run(fi):
        ctx.paths += 1
        if e.kind != 'return':
            continue
        # the kinds of input this path serves: the isinstance tests of the path (positive and negative, single
        # types and tuples of types) narrow {label vector, Cycles, iterator, anything else}
        KINDS = {('ref', 'numpy.ndarray'), ('ref', 'emd.cycles.Cycles'), ('ref', IT)}
        live = set(KINDS) | {'other'}
        for cd, tr, ln in e.state.conds:
            if cd[0] == 'call' and cd[1] == 'builtins.isinstance' and len(cd[2]) == 2 and cd[2][0] == S('invar'):
                tys = set(cd[2][1][1]) if cd[2][1][0] == 'tuple' else {cd[2][1]}
                if not tys <= KINDS:
                    live = None
                    break
                live = (live & tys) if tr else (live - tys)
        if live is None:
            continue
        v = e.value
        for kind in sorted(live - {'other'}):
            bad = _ensure_kind(kind, v, IT)
            if bad:
                break
            seen.add({('ref', 'numpy.ndarray'): 'vector', ('ref', 'emd.cycles.Cycles'): 'object', ('ref', IT): 'iterator'}[kind])
        if bad:
            break
    if bad:
        ctx.violation(rid, fi, c, bad)
    elif seen != {'vector', 'object', 'iterator'}:
        ctx.undecided(rid, fi, c, 'input kinds recognised: %s' % sorted(seen))
    else:
        ctx.passed(rid, fi, c, 'vector / Cycles / iterator inputs')
    _iterator_rest(ctx, rid, IT, sa)


def _ensure_kind(kind, v, IT):
    bad = None
    for _once in (1,):
        if kind == ('ref', 'numpy.ndarray'):
            if not (v[0] == 'call' and v[1] == IT):
                bad = 'a label vector is turned into %s' % show(v)[:60]
                break
            kw = dict(v[3])
            cv = kw.get('cycle_vect', NONE)
            ok = cv == S('invar') or (cv[0] == 'call' and cv[1] in ('emd.support.ensure_vector', 'emd.support.ensure_1d_with_singleton')
                                      and dict(cv[3]).get('to_check') in (('list', (S('invar'),)), ('tuple', (S('invar'),))))
            if not ok:
                bad = 'the iterator is built over %s, not over the supplied label vector' % show(cv)[:60]
                break
            if kw.get('iter_through', C('cycles')) != C('cycles') or kw.get('mode', C('cycle')) != C('cycle') \
                    or kw.get('valids', NONE) != NONE:
                bad = 'the iterator over a plain label vector is configured with %s' % ', '.join(
                    '%s=%s' % (k, show(kw[k])) for k in ('iter_through', 'mode', 'valids') if k in kw)
                break
        elif kind == ('ref', 'emd.cycles.Cycles'):
            if not (v[0] == 'meth' and v[1] == 'iterate' and v[2] == S('invar') and not v[3] and not v[4]):
                if not (v[0] == 'call' and v[1] == 'emd.cycles.Cycles.iterate'):
                    bad = 'a Cycles object is turned into %s' % show(v)[:60]
                    break
        elif kind == ('ref', IT):
            if v != S('invar'):
                bad = 'an iterator is replaced by %s' % show(v)[:60]
                break
    return bad


def _iterator_rest(ctx, rid, IT, sa):
    P = ctx.P
    # ---- Cycles.iterate: built over the object's own vectors
    fi = P.func('emd.cycles.Cycles.iterate')
    c = "the container's iterator runs over the container's own label vector and phase"
    bad = None
    n = 0
    for e in Evaluator(P).run(fi):
        if e.kind != 'return':
            continue
        n += 1
        v = e.value
        if not (v[0] == 'call' and v[1] == IT):
            bad = 'returns %s' % show(v)[:60]
            break
        kw = dict(v[3])
        for k in ('cycle_vect', 'subset_vect', 'chain_vect', 'phase'):
            if kw.get(k) != sa(k):
                bad = '%s=%s' % (k, show(kw.get(k, NONE))[:40])
        if kw.get('iter_through', C('cycles')) != S('through') or kw.get('mode', C('cycle')) != S('mode'):
            bad = 'through / mode are not forwarded: %s / %s' % (show(kw.get('iter_through', NONE)), show(kw.get('mode', NONE)))
    if bad:
        ctx.violation(rid, fi, c, bad)
    elif n == 0:
        ctx.undecided(rid, fi, c, 'no return')
    else:
        ctx.passed(rid, fi, c, '%d return paths' % n)
    # ---- IterateCycles: constructor state, dispatch, generator, count
    init = P.func(IT + '.__init__')
    c = 'the iterator keeps the label vector it was given and counts max(label) + 1 cycles'
    bad = None
    n = 0
    for e in Evaluator(P).run(init):
        if e.kind != 'return':
            continue
        if _cond_is(e, ('cmp', 'isnot', S('cycle_vect'), NONE)) is False:
            continue
        n += 1
        env = e.state.env
        if env.get('self.cycle_vect') != S('cycle_vect'):
            bad = 'self.cycle_vect = %s' % show(env.get('self.cycle_vect', NONE))[:40]
        nc = env.get('self.ncycles')
        oks = [('bin', '+', ('meth', 'max', S('cycle_vect'), (), ()), C(1)), ('bin', '+', ('call', 'numpy.max', (S('cycle_vect'),), ()), C(1))]
        if nc not in oks:
            bad = 'self.ncycles = %s' % show(nc if nc is not None else NONE)[:50]
        if _cond_is(e, ('cmp', 'is', S('valids'), NONE)) is True and env.get('self.iter_through') != S('iter_through'):
            bad = 'without a selection the iterator walks %s' % show(env.get('self.iter_through', NONE))
        if env.get('self.mode') != S('mode'):
            bad = 'self.mode = %s' % show(env.get('self.mode', NONE))
        if bad:
            break
    if bad:
        ctx.violation(rid, init, c, bad)
    elif n == 0:
        ctx.undecided(rid, init, c, 'no constructor path with a label vector')
    else:
        ctx.passed(rid, init, c, '%d constructor paths' % n)
    it = P.func(IT + '.__iter__')
    c = "iteration through 'cycles' is served by iterate_cycles, whose count is niters"
    bad = None
    ok = False
    for e in Evaluator(P).run(it):
        if e.kind == 'return' and _cond_is(e, ('cmp', '==', sa('iter_through'), C('cycles'))) is True:
            v = e.value
            if (v[0] == 'call' and v[1] == IT + '.iterate_cycles') or (v[0] == 'meth' and v[1] == 'iterate_cycles'):
                ok = True
            else:
                bad = "'cycles' is served by %s" % show(v)[:50]
    ni = P.func(IT + '.niters')
    okn = False
    for e in Evaluator(P).run(ni):
        if e.kind == 'return' and _cond_is(e, ('cmp', '==', sa('iter_through'), C('cycles'))) is True:
            v = e.value
            if v in (('bin', '+', ('meth', 'max', sa('cycle_vect'), (), ()), C(1)), sa('ncycles'),
                     ('bin', '+', ('call', 'numpy.max', (sa('cycle_vect'),), ()), C(1))):
                okn = True
            else:
                bad = "niters for 'cycles' is %s: phase_align allocates that many columns" % show(v)[:50]
    if bad:
        ctx.violation(rid, it, c, bad)
    elif not (ok and okn):
        ctx.undecided(rid, it, c, 'dispatch found: %s, count found: %s' % (ok, okn))
    else:
        ctx.passed(rid, it, c)
    gen = P.func(IT + '.iterate_cycles')
    c = "in mode 'cycle' the generator yields (i, map_cycle_to_samples(labels, i)) for i in range(ncycles), every i once"
    bad = None
    n = 0
    for e in Evaluator(P).run(gen, args={}, context=None):
        if e.kind != 'return':
            continue
        fors = [ls for ls in e.state.loops if ls.kind == 'for']
        if len(fors) != 1:
            ctx.undecided(rid, gen, c, '%d loops' % len(fors))
            return
        ls = fors[0]
        itt = ls.iter_term
        if itt not in (('call', 'builtins.range', (sa('ncycles'),), ()),
                       ('call', 'builtins.range', (('bin', '+', ('meth', 'max', sa('cycle_vect'), (), ()), C(1)),), ())):
            bad = 'the generator walks %s' % show(itt)[:50]
            break
        for kind, b in ls.body_states:
            md = None
            for cd, tr, ln in b.conds:
                if cd == ('cmp', '==', sa('mode'), C('cycle')):
                    md = tr
            if md is not True:
                continue
            n += 1
            ys = [f for f in b.effects if f[0] == 'yield']
            if len(ys) != 1:
                bad = "mode 'cycle': %d yields on one path through the loop" % len(ys)
                break
            y = ys[0][1]
            want = ('call', 'emd._cycles_support.map_cycle_to_samples', (), (('cycle_vect', sa('cycle_vect')), ('ii', ls.var)))
            if not (y[0] == 'tuple' and len(y[1]) == 2 and y[1][0] == ls.var and y[1][1] == want):
                bad = "mode 'cycle' yields %s" % show(y)[:80]
                break
        if bad:
            break
    if bad:
        ctx.violation(rid, gen, c, bad)
    elif n == 0:
        ctx.undecided(rid, gen, c, "no path for mode 'cycle'")
    else:
        ctx.passed(rid, gen, c, '%d loop path(s)' % n)


def _cond_is(e, cond):
    for cd, tr, ln in e.state.conds:
        if cd == cond:
            return tr
    return None


def _mean_axis0(t, allow_weights=False):
    """('mean', operand) when t is the arithmetic mean of `operand` along axis 0 in a recognised spelling;
    ('bad', reason) when it is a recognised reduction that is not that mean; None otherwise."""
    red = None
    if t[0] == 'call' and t[1] in ('numpy.average', 'numpy.mean', 'numpy.nanmean', 'numpy.sum', 'numpy.median',
                                   'numpy.nansum', 'numpy.max', 'numpy.min', 'numpy.std', 'numpy.var') and t[2]:
        red, arg, kw = t[1].split('.')[1], t[2][0], dict(t[3])
        if len(t[2]) > 1 and 'axis' not in kw:
            kw['axis'] = t[2][1]
    elif t[0] == 'meth' and t[1] in ('mean', 'sum', 'max', 'min', 'std', 'var'):
        red, arg, kw = t[1], t[2], dict(t[4])
        if t[3] and 'axis' not in kw:
            kw['axis'] = t[3][0]
    if red is None:
        # sum / count
        if t[0] == 'bin' and t[1] == '/':
            m = _mean_axis0(t[2], allow_weights)
            if m and m[0] == 'bad' and m[2] == 'sum0':
                return ('ratio', m[3], t[3])
        return None
    wts = kw.get('weights', NONE)
    if wts != NONE and not allow_weights:
        return ('bad', 'a weighted average', None, arg)
    ax = kw.get('axis', NONE)
    if red in ('average', 'mean'):
        if ax == C(0):
            return ('mean', arg) if wts == NONE else ('wmean', arg, wts)
        return ('bad', 'the mean %s (for a 2-D value array every column must be averaged separately along the '
                'sample axis)' % ('over all elements' if ax == NONE else 'along axis %s' % show(ax)), None, arg)
    if red == 'sum' and ax == C(0):
        return ('bad', 'the sum', 'sum0', arg)
    return ('bad', 'np.%s' % red, None, arg)


def rule_bin_cover(ctx, rid):
    P = ctx.P
    fi = P.func('emd.cycles.bin_by_phase')
    ev = Evaluator(P)
    exits = ev.run(fi, context={'variance_metric': 'variance'})
    ctx.paths += len(exits)
    alg = mk_algebra()
    c = 'bin loop fills every allocated phase bin (classes 1..nbins -> rows 0..nbins-1)'
    c2 = 'every iteration of the bin loop writes the bin mean unless the bin is empty'
    c3 = 'a bin is filled with the mean along the sample axis of exactly the values whose phase falls in it'
    c4 = 'default bins are define_hist_bins(0, 2 pi, nbins); supplied edges are used as given'
    c5 = 'the result has one row per bin and the trailing dimensions of the values'
    rets = [e for e in exits if e.kind == 'return']
    if not rets:
        ctx.undecided(rid, fi, c, 'no returning path')
        return
    x_t, ip_t, edges_param = S('x'), S('ip'), S('bin_edges')
    want_default = ('call', 'emd.spectra.define_hist_bins',
                    (), (('data_max', ('bin', '*', C(2), ('ref', 'numpy.pi'))), ('data_min', C(0)),
                         ('nbins', S('nbins')), ('scale', C('linear'))))
    seen = set()

    def unwrap(t):
        while True:
            if t[0] == 'call' and t[1] in ('emd.support.ensure_vector', 'emd.support.ensure_1d_with_singleton'):
                lst = dict(t[3]).get('to_check')
                if lst is not None and lst[0] in ('list', 'tuple') and len(lst[1]) == 1:
                    t = lst[1][0]
                    continue
            if t[0] == 'call' and t[1] in ('numpy.asarray', 'numpy.array', 'numpy.ravel', 'numpy.squeeze') and t[2]:
                t = t[2][0]
                continue
            if t[0] == 'meth' and t[1] in ('ravel', 'flatten', 'squeeze', 'copy'):
                t = t[2]
                continue
            return t

    def says_empty(conds, sel):
        """do the path conditions say that no sample falls in the bin?"""
        sums = [('meth', 'sum', sel, (), ()), ('call', 'numpy.sum', (sel,), ()), ('call', 'numpy.count_nonzero', (sel,), ())]
        anys = [('meth', 'any', sel, (), ()), ('call', 'numpy.any', (sel,), ())]
        for cn, tr, _ in conds:
            if cn in anys and not tr:
                return True
            if cn[0] == 'cmp' and cn[2] in sums and cn[3] == C(0):
                if (cn[1] == '>' and not tr) or (cn[1] == '==' and tr) or (cn[1] == '!=' and not tr) or (cn[1] == '<=' and tr):
                    return True
            if cn[0] == 'cmp' and cn[2] in sums and cn[3] == C(1) and ((cn[1] == '>=' and not tr) or (cn[1] == '<' and tr)):
                return True
        return False
    for e in rets:
        which = None
        for cd, tr, ln in e.state.conds:
            if cd[0] == 'cmp' and cd[2] == edges_param and cd[3] == NONE and cd[1] in ('is', 'isnot'):
                which = 'default' if (cd[1] == 'is') == tr else 'given'
        weighted = None
        for cd, tr, ln in e.state.conds:
            if cd[0] == 'cmp' and cd[2] == S('weights') and cd[3] == NONE and cd[1] in ('is', 'isnot'):
                weighted = (cd[1] == 'isnot') == tr
        if which is None or weighted is None:
            ctx.undecided(rid, fi, c4, 'a path is not selected by `bin_edges is None` / `weights is None`')
            return
        seen.add((which, weighted))
        tag = ' (%s edges, %s)' % (which, 'weighted' if weighted else 'unweighted')
        rv = e.value
        if not (rv[0] == 'tuple' and len(rv[1]) == 3):
            ctx.undecided(rid, fi, c, 'returns %s' % show(rv)[:60])
            return
        avg = rv[1][0]
        fors = [ls for ls in e.state.loops if ls.kind == 'for']
        if not (avg[0] == 's' and '@F' in avg[1] and avg[1].endswith('post')):
            if fors or any(t[0] == 'call' and t[1] in ('numpy.zeros', 'numpy.full', 'numpy.empty') for t in subterms(avg)) \
                    and not any(t[0] in ('setitem',) for t in subterms(avg)):
                ctx.violation(rid, fi, c2, 'the returned average %s is never written: every bin stays NaN' % show(avg)[:60],
                              node=e.node)
                return
            ctx.undecided(rid, fi, c, 'returned average is %s' % show(avg)[:60])
            return
        name = avg[1].split('@')[0]
        stores = [(ls, b, eff) for ls in fors for kind, b in ls.body_states for eff in b.effects
                  if eff[0] == 'setitem' and eff[5] == name]
        if not stores:
            ctx.violation(rid, fi, c2, 'the bin loop never writes the returned average: every bin stays NaN' + tag, node=e.node)
            return
        def infeasible(b_):
            # inside the loop `weights is None` is asked again after weights was normalised by ensure_*: the evaluator
            # cannot decide it, the outer condition can
            for cn, tr, _ in b_.conds:
                if cn[0] == 'cmp' and cn[3] == NONE and cn[1] in ('is', 'isnot') and cn[2][0] == 'call' \
                        and cn[2][1].startswith('emd.support.ensure_') and ((cn[1] == 'is') == tr):
                    return True
                if cn[0] == 'cmp' and cn[3] == NONE and cn[1] in ('is', 'isnot') and cn[2] == S('weights') \
                        and ((cn[1] == 'isnot') == tr) != weighted:
                    return True
            return False
        stores = [(ls, b, eff) for ls, b, eff in stores if not infeasible(b)]
        uniq = []
        for ls, b, eff in stores:
            if not any(eff[2] == u[2][2] and eff[3] == u[2][3] for u in uniq):
                uniq.append((ls, b, eff))
        if not uniq:
            ctx.undecided(rid, fi, c2, 'no feasible store' + tag)
            return
        for ls, b, eff in uniq:
            idx, val = eff[2], eff[3]
            rowt = idx[1][0] if idx[0] == 'tuple' else idx
            # ---- what is written
            m = _mean_axis0(val, allow_weights=weighted)
            if m is None:
                ctx.undecided(rid, fi, c3, 'bin value is %s' % show(val)[:80])
                return
            if m[0] == 'bad':
                ctx.violation(rid, fi, c3, 'a bin is filled with %s of its samples, not their mean%s' % (m[1], tag), node=ls.node,
                              found=show(val)[:100])
                return
            operand = m[1]
            if not (operand[0] == 'sub' and operand[1] == x_t):
                ctx.violation(rid, fi, c3, 'the averaged samples are %s, not a selection of the value array x' % show(operand)[:60] + tag,
                              node=ls.node)
                return
            sel = operand[2]
            if sel[0] == 'tuple':
                rest = sel[1][1:]
                sel = sel[1][0]
                if not all(r == ('c', Ellipsis) or (r[0] == 'slice' and r[1:] == (NONE, NONE, NONE)) for r in rest):
                    ctx.violation(rid, fi, c3, 'the selection of x also restricts trailing axes: %s' % show(operand[2])[:60] + tag,
                                  node=ls.node)
                    return
            if m[0] == 'ratio':
                cnt = m[2]
                oks = [('call', 'numpy.sum', (sel,), ()), ('meth', 'sum', sel, (), ()),
                       ('call', 'numpy.count_nonzero', (sel,), ())]
                if cnt not in oks:
                    ctx.violation(rid, fi, c3, 'sum of the bin divided by %s, not by the number of its samples' % show(cnt)[:50] + tag,
                                  node=ls.node)
                    return
            if not (sel[0] == 'cmp' and ls.var in set(subterms(sel))):
                ctx.undecided(rid, fi, c3, 'bin membership is %s' % show(sel)[:80])
                return
            if m[0] == 'wmean':
                wsrc = [t for t in subterms(m[2]) if t[0] == 'sub' and t[2] == sel]
                if not any(unwrap(t[1]) == S('weights') for t in wsrc):
                    ctx.violation(rid, fi, c3, 'the weights of a bin are %s, not the weights of its own samples' % show(m[2])[:70] + tag,
                                  node=ls.node)
                    return
            dg = _find_digitize(sel)
            if dg is None:
                ctx.undecided(rid, fi, c, 'bin selection does not use np.digitize')
                return
            if len(dg[2]) < 2 or (dict(dg[3]).get('right', C(False)) != C(False)):
                ctx.undecided(rid, fi, c3, 'digitize call %s' % show(dg)[:80])
                return
            src, edges = dg[2][0], dg[2][1]

            want_edges = ('sub', want_default, C(0)) if which == 'default' else edges_param
            if unwrap(src) != ip_t:
                if unwrap(edges) == ip_t:
                    ctx.violation(rid, fi, c3, 'np.digitize is called with (edges, phase): the phase vector is used as the bin '
                                  'edges' + tag, node=ls.node, found=show(dg)[:100])
                else:
                    ctx.violation(rid, fi, c3, 'bin membership is computed from %s, not from the phase ip' % show(src)[:60] + tag,
                                  node=ls.node)
                return
            if edges != want_edges:
                ctx.violation(rid, fi, c4, 'phase is digitised against %s%s' % (show(edges)[:110], tag), node=ls.node,
                              expected=show(want_edges)[:110])
                return
            # ---- class cover: concrete enumeration
            selc = None
            for t in subterms(sel):
                if t[0] == 'cmp' and ls.var in set(subterms(t)) and _find_digitize(t) is not None:
                    selc = t
            it = ls.iter_term
            problem = None
            try:
                for nb in ((2, 3, 4, 5, 8, 12, 16) if ctx.tier == 'thorough' else (2, 3, 5)):
                    E = nb + 1
                    bind0 = {S('nbins'): nb}
                    el0 = ElemEval(E, bind0, edges_terms=(edges,))
                    bounds = [el0.ev(a) for a in it[2]]
                    rng = range(*bounds)
                    # rows are written in loop order, the last writer of a row determines its content
                    writer = {}
                    for ii in rng:
                        el = ElemEval(E, dict(bind0, **{}), edges_terms=(edges,))
                        el.bind[ls.var] = ii
                        r = el.ev(rowt)
                        if not isinstance(r, int) or not -nb <= r < nb:
                            problem = 'nbins=%d: iteration %s writes row %s of %d' % (nb, ii, r, nb)
                            break
                        writer[r % nb] = ii
                    if problem:
                        break
                    for pz in classes(E, with_nan=False):
                        hits = []
                        for r, ii in sorted(writer.items()):
                            bind = dict(bind0)
                            bind[src] = pz
                            bind[ls.var] = ii
                            el = ElemEval(E, bind, edges_terms=(edges,))
                            if el.ev(_strip_column(selc)):
                                hits.append(r)
                        sb = spec_bin(pz, E)
                        want = [sb] if sb is not None else []
                        if hits != want:
                            problem = ('nbins=%d: phase class %s is %s, expected %s'
                                       % (nb, pz, 'averaged into row %s' % hits if hits else 'never averaged (row stays NaN)',
                                          'row %d' % want[0] if want else 'ignored'))
                            break
                    if problem:
                        break
            except Undecided as u:
                ctx.undecided(rid, fi, c, 'index expression outside the class domain: %s' % u)
                return
            if problem:
                ctx.violation(rid, fi, c, problem + tag, node=ls.node, expected='loop index covers 1..nbins', found=show(it))
                return
            ctx.passed(rid, fi, c, 'nbins in {2,3,5}, all classes' + tag, node=ls.node)
            ctx.passed(rid, fi, c3, 'np.digitize(ip, edges) == i selects rows of x; mean along axis 0' + tag, node=ls.node)
            ctx.passed(rid, fi, c4, show(want_edges)[:80] + tag, node=ls.node)
        # ---- no skipping path
        skips = []
        for kind, b2 in ls.body_states:
            if infeasible(b2):
                continue
            wrote = any(f[0] == 'setitem' and f[5] == name for f in b2.effects)
            if wrote and says_empty(b2.conds, sel):
                skips.append((b2, [(cn, t) for cn, t, _ in b2.conds if ls.var in set(subterms(cn))]))
                continue
            if not wrote and says_empty(b2.conds, sel):
                continue    # an empty bin stays NaN
            if not wrote:
                conds = [(cn, t) for cn, t, _ in b2.conds if ls.var in set(subterms(cn))]
                skips.append((b2, conds))
        if skips:
            b2, conds = skips[0]
            ctx.violation(rid, fi, c2, 'a path through the loop body %s under %s: bins that contain '
                          'samples stay NaN' % ('averages an empty bin and skips the occupied ones' if says_empty(b2.conds, sel)
                                                else 'leaves the bin unwritten', '; '.join('%s == %s' % (show(cn)[:60], t) for cn, t in conds) or 'some condition'),
                          node=ls.node, path=trace_tail(b2, 6))
            return
        ctx.passed(rid, fi, c2, '%d body paths, all writing%s' % (len(ls.body_states), tag), node=ls.node)
        # ---- allocation: rows x trailing dims of x
        alloc = ls.entry_env.get(name)
        rows_want = S('nbins') if which == 'default' else ('bin', '-', ('call', 'builtins.len', (edges_param,), ()), C(1))
        shp = None
        if alloc is not None:
            for t in subterms(alloc):
                if t[0] == 'call' and t[1] in ('numpy.zeros', 'numpy.full', 'numpy.empty', 'numpy.ones') and (t[2] or t[3]):
                    shp = t[2][0] if t[2] else dict(t[3]).get('shape')
        tail_want = ('sub', ('attr', x_t, 'shape'), ('slice', C(1), NONE, NONE))
        verdict = None
        if shp is not None:
            while shp[0] == 'call' and shp[1] in ('builtins.list', 'builtins.tuple') and len(shp[2]) == 1:
                shp = shp[2][0]
            if shp[0] in ('list', 'tuple') and len(shp[1]) == 2 and shp[1][1][0] == 'starred':
                r, tl = shp[1][0], shp[1][1][1]
                try:
                    okr = alg.poly(r) == alg.poly(rows_want)
                except Exception:
                    okr = r == rows_want
                if not okr:
                    verdict = 'allocates %s rows for %s bins' % (show(r)[:40], show(rows_want)[:40])
                elif tl != tail_want:
                    if tl[0] == 'sub' and tl[1] == ('attr', x_t, 'shape'):
                        verdict = 'trailing dimensions are %s, not x.shape[1:]' % show(tl)[:40]
                    else:
                        verdict = None if tl is None else '?'
                else:
                    verdict = 'ok'
        if verdict == 'ok':
            ctx.passed(rid, fi, c5, show(shp)[:60] + tag)
        elif verdict in (None, '?'):
            ctx.undecided(rid, fi, c5, 'allocation is %s' % (show(alloc)[:80] if alloc is not None else None))
        else:
            ctx.violation(rid, fi, c5, verdict + tag, found=show(shp)[:80])
        # ---- valid input is not rejected: the length agreement of ip and x is checked on the sample axis
        for f in e.state.effects:
            if f[0] == 'expr' and f[1][0] == 'call' and f[1][1] == 'emd.support.ensure_equal_dims':
                kw = dict(f[1][3])
                c6 = 'the input check compares phase and values on the sample axis'
                if kw.get('dim', C(0)) != C(0):
                    ctx.violation(rid, fi, c6, 'ensure_equal_dims(..., dim=%s): valid inputs (2-D values, 1-D phase) are '
                                  'rejected or mismatched lengths accepted' % show(kw.get('dim')), node=e.node)
                else:
                    ctx.passed(rid, fi, c6, tag)
    if {w for w, _ in seen} != {'default', 'given'} or {w for _, w in seen} != {True, False}:
        ctx.undecided(rid, fi, c4, 'paths found: %s' % sorted(seen))


def rule_stat_caller(ctx, rid):
    """emd.cycles.get_cycle_stat: per mode the statistic is the support routine applied to (values, labels[, phase]) of
    the cycles object, and out='samples' is project_cycles_to_samples of exactly that statistic on the same labels."""
    P = ctx.P
    fi = P.func('emd.cycles.get_cycle_stat')
    exits = Evaluator(P).run(fi)
    ctx.paths += len(exits)
    STAT = {'cycle': 'emd._cycles_support.get_cycle_stat_from_samples',
            'augmented': 'emd._cycles_support.get_augmented_cycle_stat_from_samples'}
    seen = set()
    bad = None
    for e in exits:
        if e.kind != 'return':
            continue
        mode = None
        samples = None
        for cd, truth, ln in e.state.conds:
            if cd[0] == 'cmp' and cd[1] == '==' and cd[2] == S('mode') and is_c(cd[3]) and truth:
                mode = cd[3][1]
            if cd[0] == 'cmp' and cd[1] == '==' and cd[2] == S('out') and cd[3] == C('samples'):
                samples = truth
        if mode not in STAT or samples is None:
            bad = (e, 'a return path is not selected by mode / out: %s' % show(e.value)[:60])
            break
        v = e.value
        labels = None
        if samples:
            if not (v[0] == 'call' and v[1] == 'emd._cycles_support.project_cycles_to_samples'):
                bad = (e, "out='samples' (mode=%s) is not project_cycles_to_samples of the statistic: %s"
                       % (mode, show(v)[:80]))
                break
            kw = dict(v[3])
            labels = kw.get('cycle_vect')
            v = kw.get('vals')
        if not (v is not None and v[0] == 'call' and v[1] == STAT[mode]):
            bad = (e, 'mode=%s: the statistic is %s' % (mode, show(v)[:80] if v else None))
            break
        kw = dict(v[3])
        lab2 = kw.get('cycle_vect')
        if not (lab2 is not None and lab2[0] == 'attr' and lab2[2] == 'cycle_vect') or (labels is not None and labels != lab2):
            bad = (e, 'mode=%s: statistic and projection use different label vectors: %s / %s'
                   % (mode, show(lab2)[:40], show(labels)[:40] if labels else None))
            break
        if kw.get('func') != S('func') or S('values') not in set(subterms(kw.get('vals', NONE))):
            bad = (e, 'mode=%s: the statistic is not func over the supplied values' % mode)
            break
        seen.add((mode, samples))
    c = "per-cycle statistic and its 'samples' projection are the support routines on the object's own labels"
    if bad:
        ctx.violation(rid, fi, c, bad[1], node=bad[0].node, path=trace_tail(bad[0].state, 6))
    elif seen != {('cycle', True), ('cycle', False), ('augmented', True), ('augmented', False)}:
        ctx.undecided(rid, fi, c, 'modes x outputs found: %s' % sorted(seen))
    else:
        ctx.passed(rid, fi, c, '4 mode x output paths')
