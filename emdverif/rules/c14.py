"""C14 - per-cycle statistics and phase alignment use exactly each cycle's samples."""
import ast

from ..model import AnalysisError, unparse, walk_local
from ..paths import Evaluator, is_c, show, C, S, NONE, subterms
from ..indexclass import ElemEval, Pos, classes, Undecided, spec_bin
from .common import mk_algebra, trace_tail
from . import l1
from .c10 import _find_digitize, _strip_column

PROPERTY = 'C14'
EXPLANATION = (
    "R1: in get_cycle_stat_from_samples the reducing function receives vals[where(labels == i)[0]] for i over "
    "range(max(labels)+1) and its result is stored in slot i (the label lookup is inlined from map_cycle_to_samples). "
    "R2: project_cycles_to_samples starts from an all-NaN sample-length vector and writes vals[i] exactly at "
    "where(labels == i). R3: phase_align indexes phase and value with the same per-cycle index set, evaluates the "
    "interpolant on the bin centres of define_hist_bins(0, 2pi, npoints) and stores it in the column of that cycle. "
    "R4: bin_by_phase's loop covers every allocated row: for nbins in {2,3,5} every digitize class in(k), "
    "k = 1..nbins, is selected by exactly one loop index and written to row k-1. L1: library attributes on these "
    "paths resolve. Not decided: interpolation error for non-linear profiles.")
RULE_TEXT = "one obligation per routine clause; the bin-cover rule enumerates nbins in {2,3,5} x all classes"
FLOORS = {'C14.R1': 3, 'C14.R2': 2, 'C14.R3': 4, 'C14.R4': 2, 'C14.R5': 1}
PINNED_EXPECT = [('C14.R4', 'emd.cycles.bin_by_phase', 'every allocated phase bin'),
                 ('L1', 'emd.support.ensure_equal_dims', 'numpy.alltrue')]



def _inline(q, d):
    return q.startswith('emd._cycles_support.map_')


def _label_lookup(t, labels, idx):
    """t == np.where(labels == idx)[0]"""
    return t == ('sub', ('call', 'numpy.where', (('cmp', '==', labels, idx),), ()), C(0))


def run(ctx):
    ctx.rule(rule_stat, 'C14.R1')
    ctx.rule(rule_project, 'C14.R2')
    ctx.rule(rule_phase_align, 'C14.R3')
    ctx.rule(rule_stat_caller, 'C14.R5')
    ctx.rule(rule_bin_cover, 'C14.R4')
    l1.rule_lib_attrs(ctx, 'L1', ['emd.cycles.phase_align', 'emd.cycles.bin_by_phase', 'emd.cycles.get_cycle_stat'],
                      'cycle statistics')


def _for_stores(exits, outname=None):
    out = []
    for e in exits:
        if e.kind != 'return':
            continue
        for ls in e.state.loops:
            if ls.kind != 'for':
                continue
            for kind, b in ls.body_states:
                for eff in b.effects:
                    if eff[0] == 'setitem' and (outname is None or eff[5] == outname):
                        out.append((e, ls, b, eff))
    return out


def rule_stat(ctx, rid):
    P = ctx.P
    fi = P.func('emd._cycles_support.get_cycle_stat_from_samples')
    ev = Evaluator(P, inline=_inline)
    exits = ev.run(fi)
    ctx.paths += len(exits)
    labels = S('cycle_vect')
    stores = _for_stores(exits)
    c1 = 'reducer receives exactly the samples labelled i and its result goes to slot i'
    c2 = 'one slot per label 0..max(label)'
    bad = None
    n = 0
    for e, ls, b, eff in stores:
        idx, val = eff[2], eff[3]
        n += 1
        if idx != ls.var:
            bad = 'result of cycle %s is stored at %s' % (show(ls.var), show(idx))
        # argument of the reducer
        args = val[2] if val[0] in ('call',) else (val[2] if val[0] == 'callv' else ())
        if val[0] == 'callv':
            args = val[2]
        lookups = [t for t in subterms(val) if t[0] == 'sub' and t[1][0] == 'call' and t[1][1] == 'numpy.where']
        if not lookups or not all(_label_lookup(t, labels, ls.var) for t in lookups):
            bad = 'reducer argument is not vals[where(labels == i)[0]]: %s' % show(val)[:80]
        # value vector indexed by the lookup
        ok_idx = any(t[0] == 'sub' and t[2] in lookups for t in subterms(val))
        if not ok_idx:
            bad = 'the values are not indexed by the label lookup'
        # exact argument shape: func(vals[lookup])  or, for a tuple of value vectors, func(*[v[lookup] for v in vals])
        if val[0] in ('call', 'callv') and not bad:
            fargs = val[2]
            vals_t = S(fi.params[0])
            okarg = False
            if len(fargs) == 1 and fargs[0][0] == 'sub' and fargs[0][1] == vals_t and fargs[0][2] in lookups:
                okarg = True
            if len(fargs) == 1 and fargs[0][0] == 'starred' and fargs[0][1][0] == 'comp' and len(fargs[0][1][3]) == 1:
                comp = fargs[0][1]
                var, it, conds = comp[3][0]
                if it == vals_t and not conds and comp[2][0] == 'sub' and comp[2][1] == var and comp[2][2] in lookups:
                    okarg = True
            if not okarg:
                bad = 'the reducer does not receive exactly the value vector(s) restricted to the label lookup: %s' \
                    % show(val)[:100]
    # every way of returning must go through that per-label loop: a shortcut that fills the result differently
    # (vectorised fast path, early return) is not "the function applied to exactly the samples of each label"
    c0 = 'every return path delivers the slot-by-slot filled result'
    short = None
    nret = 0
    for e in exits:
        if e.kind != 'return':
            continue
        nret += 1
        v = e.value
        if not (v[0] == 's' and v[1].startswith('out@F')):
            short = (e, 'a path returns %s without the per-label loop (conditions: %s)'
                     % (show(v)[:50], '; '.join('%s=%s' % (show(cn)[:50], t) for cn, t, _ in e.state.conds[-3:])))
    if short:
        ctx.violation(rid, fi, c0, short[1], node=short[0].node, path=trace_tail(short[0].state, 6))
    elif nret:
        ctx.passed(rid, fi, c0, '%d return paths' % nret)
    if bad:
        ctx.violation(rid, fi, c1, bad)
    elif n == 0:
        ctx.undecided(rid, fi, c1, 'no per-cycle store found')
    else:
        ctx.passed(rid, fi, c1, '%d store states' % n)
    alg = mk_algebra()
    okr = False
    for e, ls, b, eff in stores:
        it = ls.iter_term
        want = ('bin', '+', ('call', 'numpy.max', (labels,), ()), C(1))
        if it[0] == 'call' and it[1] == 'builtins.range' and len(it[2]) == 1 and alg.poly(it[2][0]) == alg.poly(want):
            okr = True
        else:
            okr = False
            break
    if okr:
        ctx.passed(rid, fi, c2)
    elif stores:
        ctx.violation(rid, fi, c2, 'loop over %s' % show(stores[0][1].iter_term)[:60],
                      expected='range(max(labels) + 1)')
    else:
        ctx.undecided(rid, fi, c2, 'no loop found')


def rule_project(ctx, rid):
    P = ctx.P
    fi = P.func('emd._cycles_support.project_cycles_to_samples')
    ev = Evaluator(P, inline=_inline)
    exits = ev.run(fi)
    ctx.paths += len(exits)
    labels = S('cycle_vect')
    vals = S('vals')
    stores = _for_stores(exits)
    c1 = 'projection writes vals[i] exactly at the samples labelled i'
    bad = None
    for e, ls, b, eff in stores:
        idx, val = eff[2], eff[3]
        if not _label_lookup(idx, labels, ls.var):
            bad = 'written at %s' % show(idx)[:60]
        if val != ('sub', vals, ls.var):
            bad = 'value written is %s, expected vals[i]' % show(val)[:40]
        it = ls.iter_term
        if not (it[0] == 'call' and it[1] == 'builtins.range' and it[2] == (('call', 'builtins.len', (vals,), ()),)):
            bad = 'loop runs over %s, expected range(len(vals))' % show(it)[:40]
    if bad:
        ctx.violation(rid, fi, c1, bad)
    elif not stores:
        ctx.undecided(rid, fi, c1, 'no store found')
    else:
        ctx.passed(rid, fi, c1, '%d store states' % len(stores))
    # NaN initialisation of a sample-length vector
    c2 = 'projection starts from an all-NaN vector of sample length'
    init = None
    for e in exits:
        for ls in e.state.loops:
            for name, t in ls.entry_env.items():
                if name == 'out':
                    init = t
    okinit = False
    if init is not None:
        txt = show(init)
        okinit = ('numpy.nan' in txt or 'np.nan' in txt) and ('zeros_like(cycle_vect)' in txt or 'full' in txt
                                                              or 'ones_like(cycle_vect)' in txt)
    if okinit:
        ctx.passed(rid, fi, c2, show(init)[:80])
    else:
        ctx.violation(rid, fi, c2, 'initial value is %s' % (show(init)[:80] if init else 'not found'))


def rule_phase_align(ctx, rid):
    P = ctx.P
    fi = P.func('emd.cycles.phase_align')
    ev = Evaluator(P)
    exits = ev.run(fi, context={'mode': 'cycle', 'ii': None})
    ctx.paths += len(exits)
    stores = _for_stores(exits, 'avg')
    c4 = 'interpolant has the requested kind and extrapolates (no NaN / error at the first and last bin centre)'
    bad4 = None
    c1 = 'phase and value of a cycle are taken at the same sample index set'
    c2 = 'interpolant is evaluated on the bin centres of define_hist_bins(0, 2pi, npoints)'
    c3 = 'aligned waveform of cycle i is stored in column i'
    if not stores:
        for c in (c1, c2, c3):
            ctx.undecided(rid, fi, c, 'no store into the aligned array found')
        return
    bad1 = bad2 = bad3 = None
    for e, ls, b, eff in stores:
        idx, val = eff[2], eff[3]
        var = ls.var
        cind, cinds = (var[1][0], var[1][1]) if var[0] == 'tuple' and len(var[1]) == 2 else (None, None)
        if not (idx[0] == 'tuple' and len(idx[1]) == 2 and idx[1][1] == cind):
            bad3 = 'stored at %s' % show(idx)[:40]
        # val = f(phase_bins), f = interp1d(phase_data, x_data, ...)
        if not (val[0] == 'callv' and val[1][0] == 'call' and val[1][1] == 'scipy.interpolate.interp1d'):
            bad2 = 'value is %s' % show(val)[:60]
            continue
        f = val[1]
        fkw = dict(f[3])
        kind = fkw.get('kind', f[2][2] if len(f[2]) > 2 else C('linear'))
        if kind != S('interp_kind'):
            bad4 = 'interpolation kind is %s, the caller\'s interp_kind is ignored' % show(kind)[:40]
        elif fkw.get('bounds_error', C(None)) != C(False) or fkw.get('fill_value') != C('extrapolate'):
            bad4 = 'interpolant does not extrapolate: bounds_error=%s fill_value=%s' % (
                show(fkw.get('bounds_error', C(None))), show(fkw.get('fill_value', C(None))))
        grid = val[2][0] if val[2] else None
        xs, ys = f[2][0], f[2][1]
        ip_t = e.state.env.get('ip')
        x_t = e.state.env.get('x')

        def base_idx(t):
            while t[0] == 'meth' and t[1] in ('copy',):
                t = t[2]
            if t[0] == 'sub':
                return t[1], t[2]
            return None, None
        bx, ix = base_idx(xs)
        by, iy = base_idx(ys)
        if ix != cinds or iy != cinds:
            bad1 = 'phase indexed by %s, value indexed by %s' % (show(ix)[:30] if ix else None, show(iy)[:30] if iy else None)
        if bx != ip_t or by != x_t:
            bad1 = 'interpolant is not built from (phase, value): %s / %s' % (show(bx)[:30], show(by)[:30])
        want_grid = ('sub', ('call', 'emd.spectra.define_hist_bins',
                             (), (('data_max', ('bin', '*', C(2), ('ref', 'numpy.pi'))), ('data_min', C(0)),
                                  ('nbins', S('npoints')), ('scale', C('linear')))), C(1))
        if grid != want_grid:
            bad2 = 'evaluated on %s' % show(grid)[:80]
    for c, bad in ((c1, bad1), (c2, bad2), (c3, bad3), (c4, bad4)):
        if bad:
            ctx.violation(rid, fi, c, bad)
        else:
            ctx.passed(rid, fi, c, '%d store states' % len(stores))


def rule_bin_cover(ctx, rid):
    P = ctx.P
    fi = P.func('emd.cycles.bin_by_phase')
    ev = Evaluator(P)
    exits = ev.run(fi, context={'weights': None, 'bin_edges': None, 'variance_metric': 'variance'})
    ctx.paths += len(exits)
    stores = _for_stores(exits, 'avg')
    c = 'bin loop fills every allocated phase bin (classes 1..nbins -> rows 0..nbins-1)'
    if not stores:
        ctx.undecided(rid, fi, c, 'no store into the average array found')
        return
    e, ls, b, eff = stores[0]
    idx, val = eff[2], eff[3]
    rowt = idx[1][0] if idx[0] == 'tuple' else idx
    dg = _find_digitize(val)
    if dg is None:
        ctx.undecided(rid, fi, c, 'bin selection does not use np.digitize')
        return
    edges = dg[2][1]
    sel = None
    for t in subterms(val):
        if t[0] == 'cmp' and ls.var in set(subterms(t)) and _find_digitize(t) is not None:
            sel = t
    it = ls.iter_term
    # allocation: rows of avg
    alloc = None
    for n in walk_local(fi.node):
        if isinstance(n, ast.Assign) and any(isinstance(t, ast.Name) and t.id == 'out_dims' for t in n.targets):
            alloc = n
    problem = None
    try:
        for nb in ((2, 3, 4, 5, 8, 12, 16) if ctx.tier == 'thorough' else (2, 3, 5)):
            E = nb + 1
            el0 = ElemEval(E, {S('nbins'): nb}, edges_terms=(edges,))
            bounds = [el0.ev(a) for a in it[2]]
            rng = range(*bounds)
            rows_written = set()
            for p in classes(E, with_nan=False):
                hits = []
                for ii in rng:
                    el = ElemEval(E, {S('nbins'): nb, S('ip'): p, ls.var: ii}, edges_terms=(edges,))
                    if el.ev(_strip_column(sel)):
                        r = el.ev(rowt)
                        hits.append(r)
                        rows_written.add(r)
                sb = spec_bin(p, E)
                want = [sb] if sb is not None else []
                if hits != want:
                    problem = ('nbins=%d: phase class %s is %s, expected %s'
                               % (nb, p, 'averaged into row %s' % hits if hits else 'never averaged (row stays NaN)',
                                  'row %d' % want[0] if want else 'ignored'))
                    break
            if problem:
                break
    except Undecided as u:
        ctx.undecided(rid, fi, c, 'index expression outside the class domain: %s' % u)
        return
    if problem:
        ctx.violation(rid, fi, c, problem, node=ls.node, expected='loop index covers 1..nbins', found=show(it))
    else:
        ctx.passed(rid, fi, c, 'nbins in {2,3,5}, all classes', node=ls.node)
    # without weights, every iteration of the bin loop must write the mean: a path through the body that skips the
    # store leaves a bin that contains samples unfilled
    c2 = 'every iteration of the bin loop writes the bin mean (no skipping path, unweighted case)'
    skips = []
    for kind, b in ls.body_states:
        wrote = any(eff[0] == 'setitem' and eff[5] == 'avg' for eff in b.effects)
        if not wrote:
            conds = [(cn, t) for cn, t, _ in b.conds if ls.var in set(subterms(cn))]
            skips.append((b, conds))
    if skips:
        b, conds = skips[0]
        ctx.violation(rid, fi, c2, 'a path through the loop body leaves the bin unwritten under %s: bins that contain '
                      'samples stay NaN' % ('; '.join('%s == %s' % (show(cn)[:60], t) for cn, t in conds) or 'some condition'),
                      node=ls.node, path=trace_tail(b, 6))
    else:
        ctx.passed(rid, fi, c2, '%d body paths, all writing' % len(ls.body_states), node=ls.node)


def rule_stat_caller(ctx, rid):
    """emd.cycles.get_cycle_stat: per mode the statistic is the support routine applied to (values, labels[, phase]) of
    the cycles object, and out='samples' is project_cycles_to_samples of exactly that statistic on the same labels."""
    P = ctx.P
    fi = P.func('emd.cycles.get_cycle_stat')
    exits = Evaluator(P).run(fi)
    ctx.paths += len(exits)
    STAT = {'cycle': 'emd._cycles_support.get_cycle_stat_from_samples',
            'augmented': 'emd._cycles_support.get_augmented_cycle_stat_from_samples'}
    seen = set()
    bad = None
    for e in exits:
        if e.kind != 'return':
            continue
        mode = None
        samples = None
        for cd, truth, ln in e.state.conds:
            if cd[0] == 'cmp' and cd[1] == '==' and cd[2] == S('mode') and is_c(cd[3]) and truth:
                mode = cd[3][1]
            if cd[0] == 'cmp' and cd[1] == '==' and cd[2] == S('out') and cd[3] == C('samples'):
                samples = truth
        if mode not in STAT or samples is None:
            bad = (e, 'a return path is not selected by mode / out: %s' % show(e.value)[:60])
            break
        v = e.value
        labels = None
        if samples:
            if not (v[0] == 'call' and v[1] == 'emd._cycles_support.project_cycles_to_samples'):
                bad = (e, "out='samples' (mode=%s) is not project_cycles_to_samples of the statistic: %s"
                       % (mode, show(v)[:80]))
                break
            kw = dict(v[3])
            labels = kw.get('cycle_vect')
            v = kw.get('vals')
        if not (v is not None and v[0] == 'call' and v[1] == STAT[mode]):
            bad = (e, 'mode=%s: the statistic is %s' % (mode, show(v)[:80] if v else None))
            break
        kw = dict(v[3])
        lab2 = kw.get('cycle_vect')
        if not (lab2 is not None and lab2[0] == 'attr' and lab2[2] == 'cycle_vect') or (labels is not None and labels != lab2):
            bad = (e, 'mode=%s: statistic and projection use different label vectors: %s / %s'
                   % (mode, show(lab2)[:40], show(labels)[:40] if labels else None))
            break
        if kw.get('func') != S('func') or S('values') not in set(subterms(kw.get('vals', NONE))):
            bad = (e, 'mode=%s: the statistic is not func over the supplied values' % mode)
            break
        seen.add((mode, samples))
    c = "per-cycle statistic and its 'samples' projection are the support routines on the object's own labels"
    if bad:
        ctx.violation(rid, fi, c, bad[1], node=bad[0].node, path=trace_tail(bad[0].state, 6))
    elif seen != {('cycle', True), ('cycle', False), ('augmented', True), ('augmented', False)}:
        ctx.undecided(rid, fi, c, 'modes x outputs found: %s' % sorted(seen))
    else:
        ctx.passed(rid, fi, c, '4 mode x output paths')
