"""C02 - sifting commutes with rescaling, sign flip and time reversal."""
import ast

from ..model import AnalysisError, unparse, walk_local
from ..paths import Evaluator, is_c, show, C, S, NONE, subterms, substitute
from ..boolnorm import nnf, show_nnf
from ..degree import DegreeAnalysis, ANY, HOM, TOP
from .common import mk_algebra
from . import siftcore, c05

PROPERTY = 'C02'
EXPLANATION = (
    "R1 homogeneity typing (dimensional analysis under X -> s*X, s > 0): every value in the call cone of "
    "get_next_imf, sift, mask_sift (ratio modes), get_next_imf_mask and get_mask_freqs is given a homogeneity degree "
    "(signal 1, options 0) by abstract evaluation of all paths with interprocedural summaries; every sum, comparison "
    "and branch condition must combine equal degrees, the returned components must have degree 1 and flags / "
    "frequencies / locations degree 0. The absolute sift threshold (three documented sites) is the only accepted "
    "scale-dependent decision. R2 negation conjugacy: trough search is peak search of -X with re-negated magnitudes; "
    "the two envelopes of an iterate are computed with identical options; the SD and Rilling predicates are invariant "
    "under (U, L, x, x1) -> (-L, -U, -x, -x1) in normal form (|-a| = |a|, (-a)^2 = a^2). R3 two-sided symmetry: "
    "padding is applied with one width to both ends and to both arrays, the re-padding loop stops exactly under "
    "{max >= N, min < 0}, the extrema search is the symmetric strict comparison of order 1, and no "
    "direction-sensitive primitive occurs in the extraction cone. Not decided: bit-exactness for +-2^k; exact "
    "reversal equality of scipy's spline solvers; the guard band around thresholds.")
RULE_TEXT = "R1: one obligation per entry point x context plus one per scale-dependent construct found; R2/R3 per clause"
FLOORS = {'C02.R1': 9, 'C02.R2': 4, 'C02.R3': 3}

CONE = ['emd.sift.get_next_imf', 'emd.sift.interp_envelope', 'emd.sift.get_padded_extrema', 'emd.sift._find_extrema',
        'emd.sift.compute_parabolic_extrema', 'emd.sift.sd_stop', 'emd.sift.rilling_stop', 'emd.sift.fixed_stop',
        'emd.sift._energy_difference']
DIRECTIONAL = {'numpy.cumsum', 'scipy.signal.lfilter', 'numpy.roll', 'numpy.cumprod', 'numpy.gradient',
               'scipy.signal.filtfilt', 'numpy.diff', 'numpy.convolve', 'numpy.correlate'}


def _threshold_site(issue):
    """`reduce(|component|) < sift_thresh`: the absolute threshold the property itself carves out."""
    t = issue.term
    if issue.kind != 'scale-dependent comparison' or t[0] != 'cmp':
        return False
    sides = (t[2], t[3])
    if S('sift_thresh') not in sides:
        return False
    other = sides[0] if sides[1] == S('sift_thresh') else sides[1]
    txt = show(other)
    return (txt.startswith('np.abs(') or txt.startswith('np.sum(np.abs(')) and \
        (txt.endswith('.sum()') or txt.endswith('.mean()') or txt.startswith('np.sum('))


def run(ctx):
    ctx.trust('degree table of the numpy/scipy primitives used in the cone (abs, sum, mean, std, pad with the default '
              'tables, diff, sign, angle, argrelextrema, splrep/splev/Pchip linear in the ordinates, log10 as an '
              'additive shift, ...); a primitive missing from the table is TOP and fails the obligation')
    ctx.assume("'abs' mask amplitude mode is not homogeneous by design and is outside the statement (ratio modes only)")
    ctx.rule(rule_homogeneity, 'C02.R1')
    ctx.rule(rule_conjugacy, 'C02.R2')
    ctx.rule(rule_symmetry, 'C02.R3')


def rule_homogeneity(ctx, rid):
    P = ctx.P
    entries = [
        ('emd.sift.get_next_imf', {'X': 1}, {'stop_method': 'sd'}, ('tup', (1, 0))),
        ('emd.sift.get_next_imf', {'X': 1}, {'stop_method': 'rilling'}, ('tup', (1, 0))),
        ('emd.sift.get_next_imf', {'X': 1}, {'stop_method': 'fixed'}, ('tup', (1, 0))),
        ('emd.sift.sift', {'X': 1}, {}, 1),
        ('emd.sift.get_next_imf_mask', {'X': 1, 'amp': 1}, {}, ('tup', (1, 0))),
        ('emd.sift.get_mask_freqs', {'X': 1}, {'first_mask_mode': 'zc'}, 0),
        ('emd.sift.get_mask_freqs', {'X': 1}, {'first_mask_mode': 'if'}, 0),
        ('emd.sift.mask_sift', {'X': 1}, {'mask_amp_mode': 'ratio_imf', 'ret_mask_freq': False}, 1),
        ('emd.sift.mask_sift', {'X': 1}, {'mask_amp_mode': 'ratio_sig', 'ret_mask_freq': False}, 1),
        ('emd.sift.zero_crossing_count', {'X': 1}, {}, 0),
    ]
    D = DegreeAnalysis(P, whitelist=_threshold_site, overrides={'emd.utils.amplitude_normalise': 0})
    ctx.assume('amplitude_normalise returns a degree-0 signal under the path condition "the envelope exists" '
               '(its normalisation core is checked by C09.R3)')
    whitelisted = []
    Dw = DegreeAnalysis(P, overrides={'emd.utils.amplitude_normalise': 0})
    for q, argdeg, context, want in entries:
        fi = P.func(q)
        n0 = len(D.issues)
        got = D.summary(q, argdeg, context)
        ctx.contexts.append({'function': q, 'context': context, 'degrees': str(got)})
        c = 'scaling X by s>0 scales the result of %s%s as degree %s' % (
            fi.name, ' [%s]' % ', '.join('%s=%s' % kv for kv in sorted(context.items())) if context else '',
            _fmt(want))
        if got == want:
            ctx.passed(rid, fi, c, 'degrees %s' % _fmt(got))
        else:
            ctx.violation(rid, fi, c, 'result has homogeneity %s, expected %s' % (_fmt(got), _fmt(want)),
                          expected=_fmt(want), found=_fmt(got))
    ctx.paths += D.paths
    ctx.cover['degree_functions_evaluated'] = sorted(D.evaluated)
    for i in D.issues:
        fi = P.funcs.get(i.function)
        target = fi if fi is not None else i.function
        ctx.violation(rid, target, '%s: %s' % (i.kind, show(i.term)[:80]),
                      'a decision or sum in the sifting cone is not scale-free: %s' % i.detail,
                      found=show(i.term)[:160])
    # the three whitelisted sites must exist (informational count)
    Dw.summary('emd.sift.sift', {'X': 1}, {})
    Dw.summary('emd.sift.mask_sift', {'X': 1}, {'mask_amp_mode': 'ratio_sig', 'ret_mask_freq': False})
    sites = {(i.function) for i in Dw.issues if _threshold_site(i)}
    ctx.cover['absolute_threshold_sites'] = sorted(sites)


def _fmt(d):
    if isinstance(d, tuple) and d and d[0] == 'tup':
        return '(' + ', '.join(_fmt(x) for x in d[1]) + ')'
    return str(d)


def rule_conjugacy(ctx, rid):
    P = ctx.P
    c05.rule_conjugate(ctx, rid)
    gni = P.func('emd.sift.get_next_imf')
    siftcore.rule_iterate_algebra(ctx, rid, gni)
    # stop metrics even under (U, L, a, b) -> (-L, -U, -a, -b)
    alg = mk_algebra()
    for q, swap in (('emd.sift.sd_stop', None), ('emd.sift.rilling_stop', True)):
        fi = P.func(q)
        exits = [e for e in Evaluator(P).run(fi) if e.kind == 'return']
        vals = {e.value[1][0] if e.value[0] == 'tuple' else e.value for e in exits}
        c = '%s is invariant under the sign flip of its signal arguments' % fi.name
        if len(vals) != 1:
            ctx.undecided(rid, fi, c, '%d forms of the stop value' % len(vals))
            continue
        v = next(iter(vals))
        a, b = S(fi.params[0]), S(fi.params[1])
        if swap:
            mp = {a: ('un', '-', b), b: ('un', '-', a)}
        else:
            mp = {a: ('un', '-', a), b: ('un', '-', b)}
        flipped = _subst_simul(v, mp)
        if nnf(v, alg) == nnf(flipped, alg):
            ctx.passed(rid, fi, c, show_nnf(nnf(v, alg))[:120])
        else:
            ctx.violation(rid, fi, c, 'the stop metric changes when the signal is negated',
                          expected=show_nnf(nnf(v, alg))[:200], found=show_nnf(nnf(flipped, alg))[:200])


def _subst_simul(t, mp):
    if not isinstance(t, tuple) or not t:
        return t
    if t in mp:
        return mp[t]
    return tuple(_subst_simul(x, mp) if isinstance(x, tuple) else x for x in t)


def rule_symmetry(ctx, rid):
    P = ctx.P
    c05.rule_padding(ctx, rid)
    c05.rule_strict_search(ctx, rid)
    c = 'no direction-sensitive primitive in the extraction cone'
    bad = None
    n = 0
    for q in CONE:
        fi = P.func(q)
        for call in P.calls_in(fi):
            d = P.resolve(fi.module, call.func, fi)
            n += 1
            if d in DIRECTIONAL:
                bad = (fi, call, d)
    if bad:
        ctx.violation(rid, bad[0], c, '%s treats the two time directions differently: reversing the signal no longer '
                      'reverses the IMFs' % bad[2], node=bad[1])
    else:
        ctx.passed(rid, P.func(CONE[0]), c, '%d calls in %d functions scanned' % (n, len(CONE)))
    # pad widths are scalars (applied to both ends)
    gpe = P.func('emd.sift.get_padded_extrema')
    c = 'np.pad is called with a scalar width (both ends padded alike)'
    badw = None
    for call in P.calls_in(gpe):
        if P.resolve(gpe.module, call.func, gpe) == 'numpy.pad' and len(call.args) >= 2:
            if isinstance(call.args[1], (ast.Tuple, ast.List)):
                badw = call
    if badw is not None:
        ctx.violation(rid, gpe, c, 'asymmetric pad width %s' % unparse(badw.args[1]), node=badw)
    else:
        ctx.passed(rid, gpe, c)
    ctx.note(rid, gpe, 'coverage test under parabolic refinement',
             'with refined (real-valued) locations the mirror image of `min < 0` is `max > N-1`, not `max >= N`; '
             'parabolic refinement is outside the quantifier of C02')
