"""C06 - every sift option takes effect at the stage it configures, in every variant."""
import ast

from ..model import AnalysisError, unparse, walk_local
from ..paths import Evaluator, is_c, show, C, S, subterms
from .common import trace_tail

PROPERTY = 'C06'
EXPLANATION = (
    "Option-carrier flow decided on the resolved call graph with full argument binding. R1: for every function "
    "that has a carrier formal (imf_opts / envelope_opts / extrema_opts) and every call, partial construction or "
    "pool dispatch in it whose callee is the carrier's stage (get_next_imf / interp_envelope / get_padded_extrema) "
    "or reaches that stage, the callee's carrier formal is bound to the caller's carrier on every evaluated path "
    "(keyword, positional, ** unpacking, functools.partial pre-binding, positional starmap tuples); a callee that "
    "reaches the stage but has no formal to receive the carrier is a violation. R2: a carrier is only ever replaced "
    "by the defaulting idiom, with literals equal to the stage's signature defaults. R3: the configuration routes "
    "(get_config keys, SiftConfig.get_func partial) deliver keys that are formals of the variant / stage and do "
    "not collide with explicit keywords at the ** sites. R4 sibling agreement: an option a function forwards to a helper "
    "at one call site is forwarded at every call of that helper (peak / trough, upper / lower envelope). R5: every stop_method dispatches to its stop function with the supplied thresholds on the formals they configure (sd_thresh, rilling_thresh[0..2], max_iters). Not decided: how much an option changes the numbers.")
RULE_TEXT = ("one obligation per (caller, call/dispatch site, carrier); distinct = distinct keys; all evaluated "
             "paths of the caller must bind the carrier for a PASS")
FLOORS = {'C06.R1': 40, 'C06.R2': 10, 'C06.R3': 6, 'C06.R4': 3, 'C06.R5': 3}
PINNED_EXPECT = [('C06.R1', 'emd.sift.get_next_imf_mask', 'envelope_opts'),
                 ('C06.R1', 'emd.sift.get_next_imf_mask', 'extrema_opts'),
                 ('C06.R1', 'emd.sift.complete_ensemble_sift', 'starmap(sift)#1 / imf_opts'),
                 ('C06.R1', 'emd.sift.complete_ensemble_sift', 'starmap(sift)#2 / envelope_opts'),
                 ('C06.R1', 'emd.sift.mask_sift', 'get_mask_freqs#1 / envelope_opts')]

STAGES = {'imf_opts': 'emd.sift.get_next_imf',
          'envelope_opts': 'emd.sift.interp_envelope',
          'extrema_opts': 'emd.sift.get_padded_extrema'}
# A callee outside emd.sift (frequency_transform, amplitude_normalise) uses the envelope routines for its own
# amplitude estimate, not as a stage of the sift: only routes inside emd.sift count as "reaches the stage".
SIFT_MODULES = {'emd.sift'}
POOL_ORDERED = ('starmap', 'map')
POOL_ANY = ('starmap', 'map', 'imap', 'imap_unordered', 'apply', 'apply_async', 'starmap_async', 'map_async')


def run(ctx):
    ctx.rule(rule_carrier_flow, 'C06.R1')
    ctx.rule(rule_no_replacement, 'C06.R2')
    ctx.rule(rule_pad_tables, 'C06.R2')
    from .c05 import rule_pad_width
    ctx.rule(rule_pad_width, 'C06.R2')
    from .c18 import rule_config_keys
    ctx.rule(rule_config_keys, 'C06.R3')
    # ... and through a partial function: the callable of a configuration binds the options stored when it is asked for
    from .c18 import rule_get_func
    ctx.rule(rule_get_func, 'C06.R3')
    ctx.rule(rule_sibling_forwarding, 'C06.R4')
    # the IMF-extraction options themselves (stop rule, thresholds, iteration limit) govern the stop decision of the
    # extraction: each stop_method literal dispatches to its stop function with sd_thresh / rilling_thresh[0..2] /
    # max_iters on the formals they configure (the rule C04.R2 is built on; here it decides "a supplied threshold is
    # never silently replaced by another value")
    from . import siftcore
    ctx.rule(siftcore.rule_stop_dispatch, 'C06.R5', ctx.P.func('emd.sift.get_next_imf'))


# ----------------------------------------------------------------------------------------------
def _decode_fref(P, t):
    """(qualname, pre_pos terms, pre_kw dict, pre_star terms) of a function-valued term."""
    if t[0] == 'ref' and t[1] in P.funcs:
        return t[1], [], {}, []
    if t[0] == 'func' and t[1] in P.funcs:
        return t[1], [], {}, []
    if t[0] == 'call' and t[1] == 'functools.partial' and t[2]:
        inner = _decode_fref(P, t[2][0])
        if inner is None:
            return None
        q, pp, pk, ps = inner
        pp = pp + list(t[2][1:])
        pk = dict(pk)
        ps = list(ps)
        for k, v in t[3]:
            if k == '**':
                ps.append(v)
            else:
                pk[k] = v
        return q, pp, pk, ps
    return None


def _bind_positional(fi, pre_pos, pre_kw, elems):
    formals = list(fi.params)
    bound = dict(pre_kw)
    allpos = list(pre_pos) + list(elems)
    for i, t in enumerate(allpos):
        if i < len(formals):
            bound[formals[i]] = t
    return bound


class Site:
    def __init__(self, node, kind, callee_q):
        self.node = node
        self.kind = kind            # 'call' | 'partial' | 'starmap'
        self.callee = callee_q
        self.states = []            # (bound dict, star list, caller env, trace)


def collect_sites(P, fi, context=None):
    """Evaluate fi and record, per call node, how repo callees are bound."""
    sites = {}

    def note(node, kind, q, bound, star, st):
        key = (id(node), kind)
        s = sites.get(key)
        if s is None:
            s = sites[key] = Site(node, kind, q)
        # a nested function inlined from its parent sees the parent's variables (kept under 'closure:<name>')
        env = {k[8:]: v for k, v in st.env.items() if k.startswith('closure:')}
        env.update({k: v for k, v in st.env.items() if not k.startswith('closure:')})
        s.states.append((bound, star, env, list(st.trace)))

    def hook(ca, bound, star, st, e):
        if ca.kind == 'repo' and ca.func is not None:
            note(e, 'call', ca.func.qualname, dict(bound), list(star), st)
        return None

    def obs(node, term, st):
        if term[0] == 'call' and term[1] == 'functools.partial' and term[2]:
            d = _decode_fref(P, term)
            if d is not None:
                q, pp, pk, ps = d
                f = P.funcs[q]
                note(node, 'partial', q, _bind_positional(f, pp, pk, []), ps, st)
        if term[0] == 'meth' and term[1] in POOL_ANY and term[3]:
            d = _decode_fref(P, term[3][0])
            if d is None:
                return
            q, pp, pk, ps = d
            f = P.funcs[q]
            args = term[3][1] if len(term[3]) > 1 else None
            elems = None
            if args is not None and args[0] == 'comp' and args[2][0] in ('tuple', 'list'):
                elems = list(args[2][1])
                if term[1] in ('map', 'imap', 'imap_unordered', 'map_async'):
                    elems = [args[2]]
            elif args is not None and args[0] == 'comp' and term[1] in ('map', 'imap', 'imap_unordered'):
                elems = [args[2]]
            if elems is None:
                elems = []
            note(node, 'starmap', q, _bind_positional(f, pp, pk, elems), ps, st)
            sites[(id(node), 'starmap')].meth = term[1]
    ev = Evaluator(P, callee_hook=hook, observer=obs, fill_defaults=False)
    exits = ev.run(fi, context=context or {})
    return sites, len(exits), ev


def _carrier_delivered(bound, star, carrier, caller_val, at_stage):
    """How the caller's carrier reaches the callee. Returns (ok, how)."""
    if at_stage:
        # the stage receives the carrier's *contents*: **carrier (or the expanded literal default)
        for s in star:
            if s == caller_val:
                return True, '**%s' % carrier
        if caller_val[0] == 'dict':
            keys = [k[1] for k, _ in caller_val[1] if is_c(k)]
            if all(bound.get(k) == v for (kk, v), k in zip(caller_val[1], keys)):
                return True, 'expanded literal default'
        return False, 'stage called without **%s' % carrier
    v = bound.get(carrier)
    if v is None:
        # where did the value go instead?
        for formal, t in bound.items():
            if t == caller_val and formal != carrier:
                return False, "caller's %s lands in formal %r" % (carrier, formal)
        return False, 'not passed (callee falls back to its default)'
    if v == caller_val:
        return True, 'bound'
    return False, 'bound to %s instead of the caller\'s %s' % (show(v)[:60], carrier)


def rule_carrier_flow(ctx, rid, only=None):
    P = ctx.P
    carrier_funcs = [fi for q, fi in sorted(P.funcs.items())
                     if any(k in fi.all_formals() for k in STAGES) and fi.module.name in ('emd.sift', 'emd.utils',
                                                                                          'emd.spectra', 'emd.cycles')
                     and (only is None or q in only)]
    ctx.cover['carrier_functions'] = [f.qualname for f in carrier_funcs]
    total = 0
    for fi in carrier_funcs:
        try:
            sites, nexits, ev = collect_sites(P, fi)
        except AnalysisError as e:
            ctx.undecided(rid, fi, 'evaluate carrier flow', str(e))
            continue
        ctx.paths += nexits
        # stable numbering of sites per (kind, callee) in source order
        order = {}
        for key, s in sorted(sites.items(), key=lambda kv: (kv[1].node.lineno, kv[1].node.col_offset)):
            k2 = (s.kind, s.callee)
            order[k2] = order.get(k2, 0) + 1
            s.index = order[k2]
        for key, s in sorted(sites.items(), key=lambda kv: (kv[1].node.lineno, kv[1].node.col_offset)):
            g = P.funcs[s.callee]
            if g is fi:
                continue
            if g.parent is fi:
                continue        # nested function: captures the carriers by closure; its own sites are recorded inline
            ctx.call_sites += 1
            for carrier, stage in STAGES.items():
                if carrier not in fi.all_formals():
                    continue
                at_stage = (g.qualname == stage)
                if not at_stage and P.reaches(g.qualname, stage, within=SIFT_MODULES) is None:
                    continue
                name = {'call': '%s', 'partial': 'partial(%s)', 'starmap': 'starmap(%s)'}[s.kind] % g.name
                construct = '-> %s#%d / %s' % (name, s.index, carrier)
                total += 1
                if not at_stage and carrier not in g.all_formals():
                    path = P.reaches(g.qualname, stage, within=SIFT_MODULES)
                    ctx.violation(rid, fi, construct,
                                  '%s reaches %s (%s) but has no formal to receive %s: the option is dropped on '
                                  'this route' % (g.name, stage.split('.')[-1],
                                                  ' -> '.join(p.split('.')[-1] for p in path), carrier),
                                  node=s.node, expected='callee formal %s' % carrier, found='no such formal',
                                  path=[p for p in path])
                    continue
                bad = None
                how = None
                for bound, star, env, trace in s.states:
                    cv = env.get(carrier, S(carrier))
                    ok, how = _carrier_delivered(bound, star, carrier, cv, at_stage)
                    if not ok:
                        bad = (how, trace)
                        break
                if bad:
                    ctx.violation(rid, fi, construct,
                                  'option carrier %s is not delivered to %s: %s' % (carrier, g.name, bad[0]),
                                  node=s.node, expected='callee %s <- caller %s' % (carrier, carrier), found=bad[0],
                                  path=bad[1][-8:] + ['callee reaches %s' % stage])
                else:
                    ctx.passed(rid, fi, construct, '%s on %d evaluated state(s)' % (how, len(s.states)), node=s.node)
    ctx.cover['carrier_obligations'] = total


# ----------------------------------------------------------------------------------------------
def _literal(node):
    try:
        return ast.literal_eval(node)
    except Exception:
        pass
    # dict(k=v, ...) with literal values is the literal {k: v, ...}
    if isinstance(node, ast.Call) and isinstance(node.func, ast.Name) and node.func.id == 'dict' and not node.args \
            and all(k.arg is not None for k in node.keywords):
        try:
            return {k.arg: ast.literal_eval(k.value) for k in node.keywords}
        except Exception:
            return _NoLit
    return _NoLit


class _NoLit:
    pass


def rule_no_replacement(ctx, rid, only=None):
    """A carrier formal is reassigned only by the defaulting idiom, and the literal default equals the stage's
    signature defaults - so "no option" and "explicit defaults" coincide.  Option dicts (also the nested pad tables)
    are never modified in place: a key popped from the caller's dict is silently missing on the next call."""
    P = ctx.P
    from ..effects import MutationAnalysis
    ma = MutationAnalysis(P)
    from ..paths import known_functions
    for q, fi in sorted(P.funcs.items()):
        if fi.module.name != 'emd.sift' or fi.parent is not None:
            continue
        if only is not None and q not in only:
            continue
        if q not in known_functions() and fi.name.startswith('_'):
            continue      # private helpers introduced later are covered through the summaries of their callers
        opts = [f for f in fi.all_formals() if f.endswith('_opts') or f.endswith('_args')]
        if not opts:
            continue
        mp = ma.mutated_params(fi)
        for f in opts:
            c = 'option dict %s is not modified in place' % f
            if f in mp:
                mu = mp[f][0]
                ctx.violation(rid, fi, c, 'the caller\'s %s is changed (%s): options supplied once are different or '
                              'missing on the next call' % (f, mu.what), node=mu.node)
            else:
                ctx.passed(rid, fi, c)
    for q, fi in sorted(P.funcs.items()):
        if fi.module.name not in ('emd.sift', 'emd.utils', 'emd.spectra', 'emd.cycles'):
            continue
        if only is not None and q not in only:
            continue
        for carrier, stage in STAGES.items():
            if carrier not in fi.all_formals():
                continue
            stagef = P.func(stage)
            assigns = []
            for n in walk_local(fi.node):
                if isinstance(n, ast.Assign) and any(isinstance(t, ast.Name) and t.id == carrier for t in n.targets):
                    assigns.append(n)
                elif isinstance(n, (ast.AugAssign,)) and isinstance(n.target, ast.Name) and n.target.id == carrier:
                    assigns.append(n)
                elif isinstance(n, ast.Subscript) and isinstance(n.ctx, (ast.Store, ast.Del)) \
                        and isinstance(n.value, ast.Name) and n.value.id == carrier:
                    assigns.append(n)
            construct = '%s only replaced by the defaulting idiom' % carrier
            bad = None
            for a in assigns:
                why = _defaulting_ok(fi, a, carrier, stagef)
                if why:
                    bad = (a, why)
                    break
            if bad:
                ctx.violation(rid, fi, construct, 'a supplied %s is replaced or altered: %s' % (carrier, bad[1]),
                              node=bad[0], found=unparse(bad[0])[:100])
            else:
                ctx.passed(rid, fi, construct, '%d assignment(s), all defaulting idiom' % len(assigns), node=fi.node)


class _AnyDefaults:
    """stand-in for a stage whose defaults are not compared here (nested pad tables: C06.R3 / C18.R1 compare them)"""
    name = 'np.pad'

    class _D(dict):
        def get(self, k, d=None):
            return _ANY
    defaults = _D()


class _AnyNode:
    pass


_ANY = _AnyNode()


def _no_option_given(t, pol, carrier):
    """Does the guard (test t taken with polarity pol) say "no option was given"?  True / False / None (another kind
    of test).  Negations are folded, both operand orders and == / != None are read."""
    while isinstance(t, ast.UnaryOp) and isinstance(t.op, ast.Not):
        t, pol = t.operand, not pol
    if isinstance(t, ast.Name) and t.id == carrier:
        return not pol                  # `if carrier:` is "an option was given"
    if isinstance(t, ast.Compare) and len(t.ops) == 1 and isinstance(t.ops[0], (ast.Is, ast.IsNot, ast.Eq, ast.NotEq)):
        l_, r_ = t.left, t.comparators[0]
        for a_, b_ in ((l_, r_), (r_, l_)):
            if isinstance(a_, ast.Name) and a_.id == carrier and isinstance(b_, ast.Constant) and b_.value is None:
                isnone = isinstance(t.ops[0], (ast.Is, ast.Eq))
                return pol if isnone else (not pol)
    return None


def _defaulting_ok(fi, a, carrier, stagef):
    from .common import guards_of
    if not isinstance(a, ast.Assign):
        return 'in-place modification of the caller\'s dict'
    # x = {...} if x is None else x   /   x = x if x else {...}   (conditional-expression form of the idiom)
    if isinstance(a.value, ast.IfExp) and not guards_of(fi, a):
        t, body, orelse = a.value.test, a.value.body, a.value.orelse
        ng = _no_option_given(t, True, carrier)
        if ng is not None:
            none_branch_is_body = ng
            dflt, keep = (body, orelse) if none_branch_is_body else (orelse, body)
            keep_ok = (isinstance(keep, ast.Name) and keep.id == carrier) or (
                isinstance(keep, ast.Call) and unparse(keep) in ('%s.copy()' % carrier, 'dict(%s)' % carrier))
            fake = ast.Assign(targets=a.targets, value=dflt)
            v = _literal(dflt)
            if keep_ok and v is not _NoLit and isinstance(v, dict):
                for k, val in v.items():
                    d = stagef.defaults.get(k)
                    if d is None:
                        return 'default key %r is not a formal of %s' % (k, stagef.name)
                    if d is _ANY:
                        continue
                    dv = _literal(d)
                    if dv is _NoLit or dv != val:
                        return 'default %s=%r differs from the signature default %r of %s' % (k, val, dv, stagef.name)
                return None
            return 'supplied options replaced by %s' % unparse(a.value)[:60]
    guards = guards_of(fi, a)
    if not guards and isinstance(a.value, ast.BoolOp) and isinstance(a.value.op, ast.Or) and len(a.value.values) == 2 \
            and isinstance(a.value.values[0], ast.Name) and a.value.values[0].id == carrier:
        # x = x or {...}   is   if not x: x = {...}
        v = _literal(a.value.values[1])
        if v is _NoLit or not isinstance(v, dict):
            return 'default is not a literal dict'
        for k, val in v.items():
            d = stagef.defaults.get(k)
            if d is None:
                return 'default key %r is not a formal of %s' % (k, stagef.name)
            if d is _ANY:
                continue
            dv = _literal(d)
            if dv is _NoLit or dv != val:
                return 'default %s=%r differs from the signature default %r of %s' % (k, val, dv, stagef.name)
        return None
    if not guards:
        return 'unconditional reassignment'
    t, pol = guards[-1]
    nonegiven = _no_option_given(t, pol, carrier)
    if nonegiven is None:
        return 'reassigned under a condition that is not "no option given": %s' % unparse(t)[:60]
    pol = nonegiven
    if pol:
        # `if carrier is None:` / `if not carrier:` branch -> literal default
        v = _literal(a.value)
        if v is _NoLit or not isinstance(v, dict):
            return 'default is not a literal dict'
        for k, val in v.items():
            d = stagef.defaults.get(k)
            if d is None:
                return 'default key %r is not a formal of %s' % (k, stagef.name)
            if d is _ANY:
                continue
            dv = _literal(d)
            if dv is _NoLit or dv != val or type(dv) is not type(val) and not (
                    isinstance(dv, (int, float)) and isinstance(val, (int, float))):
                return 'default %s=%r differs from the signature default %r of %s' % (k, val, dv, stagef.name)
        return None
    # else-branch: defensive copy
    v = a.value
    if isinstance(v, ast.Call) and ((isinstance(v.func, ast.Attribute) and v.func.attr in ('copy',)
                                     and isinstance(v.func.value, ast.Name) and v.func.value.id == carrier)
                                    or (isinstance(v.func, ast.Name) and v.func.id == 'dict' and len(v.args) == 1
                                        and isinstance(v.args[0], ast.Name) and v.args[0].id == carrier
                                        and not v.keywords)):
        return None
    return 'supplied options replaced by %s' % unparse(v)[:60]


def rule_pad_tables(ctx, rid):
    """The nested np.pad option tables of get_padded_extrema follow the same discipline as the carriers: a supplied
    table is used as it is (or copied); only a missing / empty one is replaced by the default table.  Merging the
    defaults into a supplied table injects options the user did not ask for (stat_length=1 under mode='mean')."""
    P = ctx.P
    fi = P.func('emd.sift.get_padded_extrema')
    for name in ('loc_pad_opts', 'mag_pad_opts'):
        if name not in fi.all_formals():
            continue
        assigns = [n for n in walk_local(fi.node)
                   if isinstance(n, ast.Assign) and any(isinstance(t, ast.Name) and t.id == name for t in n.targets)]
        c = '%s only replaced by the defaulting idiom' % name
        bad = None
        for a in assigns:
            why = _defaulting_ok(fi, a, name, _AnyDefaults)
            if why:
                bad = (a, why)
                break
        if bad:
            ctx.violation(rid, fi, c, 'a supplied %s is replaced or altered: %s' % (name, bad[1]), node=bad[0],
                          found=unparse(bad[0])[:100])
        else:
            ctx.passed(rid, fi, c, '%d assignment(s), all defaulting idiom' % len(assigns))


# ----------------------------------------------------------------------------------------------
def rule_sibling_forwarding(ctx, rid):
    """Sibling call sites agree: when a function hands one of its own options (a formal passed on under the same name,
    or a ** carrier) to a helper at one call site, every other call of that helper in the function passes it too.
    (The peak and the trough branch of get_padded_extrema, the upper and the lower envelope of get_next_imf ...)"""
    P = ctx.P
    n = 0
    for q, fi in sorted(P.funcs.items()):
        if fi.module.name != 'emd.sift' or fi.parent is not None or fi.cls is not None:
            continue
        try:
            sites, nexits, ev = collect_sites(P, fi)
        except AnalysisError:
            continue
        by_callee = {}
        for key, s in sites.items():
            if s.kind != 'call':
                continue
            by_callee.setdefault(s.callee, []).append(s)
        for callee, ss in sorted(by_callee.items()):
            g = P.funcs[callee]
            if g is fi or g.module.name != 'emd.sift':
                continue
            states = [(s, st) for s in ss for st in s.states]
            if len(states) < 2:
                continue
            # options forwarded somewhere
            fwd = set()       # (** carriers are covered site by site by R1)
            for s, (bound, star, env, trace) in states:
                for o, v in bound.items():
                    if o in fi.all_formals() and v == env.get(o, S(o)) and o != fi.params[0]:
                        fwd.add(o)
            for o in sorted(fwd):
                n += 1
                c = 'every call of %s passes on %s' % (g.name, o)
                missing = [(s, trace) for s, (bound, star, env, trace) in states
                           if bound.get(o) != env.get(o, S(o))]
                if missing:
                    s, trace = missing[0]
                    ctx.violation(rid, fi, c, '%s forwards its option %s to %s at one call but not at the call on line '
                                  '%d: the option takes effect for one branch only' % (fi.name, o, g.name, s.node.lineno),
                                  node=s.node, path=trace[-6:])
                else:
                    ctx.passed(rid, fi, c, '%d call states' % len(states))
    ctx.cover['sibling_forwarding_obligations'] = n
