"""C10 - Hilbert-Huang spectrum bins every sample's energy exactly once."""
import ast

from ..model import AnalysisError, unparse, walk_local
from ..paths import Evaluator, is_c, show, C, S, NONE, subterms
from ..indexclass import ElemEval, Pos, classes, Undecided, Fault, spec_bin
from .common import mk_algebra, trace_tail
from . import l1

PROPERTY = 'C10'
EXPLANATION = (
    "R1: the row index, the keep-filter and the accumulated value of hilberthuang (and of the loop of "
    "hilberthuang_1d) are evaluated class by class over the digitize index classes {below, in(k), at-last-edge, "
    "above, nan} for E = 2, 3, 5 edges: in(k) must land in row k-1 of an (E-1)-row array, every other class must be "
    "dropped, the time/column coordinate must be the untouched time index filtered by the same mask. R2: the 2-D and "
    "1-D routines implement the same class->bin map. R3: the amplitude is squared exactly once in energy mode and "
    "not at all in amplitude mode; the dense return is .toarray() of the sparse one. R4: define_hist_bins builds "
    "nbins+1 edges (linear / log) and midpoints as centres. R5: dimension checks are called on the inputs and every "
    "library attribute on the path resolves (L1). Not decided: floating-point summation order of duplicates.")
RULE_TEXT = "one obligation per (routine, mode, E) class table / sibling pair / bin-definition clause"
FLOORS = {'C10.R1': 4, 'C10.R2': 1, 'C10.R3': 3, 'C10.R4': 3, 'C10.R5': 2, 'C10.R7': 4}
PINNED_EXPECT = [('C10.R1', 'emd.spectra.hilberthuang', 'class -> bin'),
                 ('L1', 'emd.support.ensure_equal_dims', 'numpy.alltrue')]

HH = 'emd.spectra.hilberthuang'
HH1 = 'emd.spectra.hilberthuang_1d'
ES = (2, 3, 5)
ES_THOROUGH = (2, 3, 4, 5, 7, 9, 12)


def run(ctx):
    ctx.trust('np.digitize(x, edges) with increasing edges: 0 below, k for edge_k <= x < edge_k+1, len(edges) at/above '
              'the last edge and for NaN; scipy.sparse.coo_matrix sums duplicate coordinates')
    m2 = rule_classmap_2d(ctx, 'C10.R1')
    m1 = rule_classmap_1d(ctx, 'C10.R1')
    ctx.rule(rule_siblings, 'C10.R2', m2, m1)
    ctx.rule(rule_bins, 'C10.R4')
    ctx.rule(rule_dimchecks, 'C10.R5')
    # the spectrum is computed from the arrays as canonicalised by ensure_2d: a vector becomes one column, anything
    # with two or more axes (also a single time sample of several components) is passed on unchanged, values untouched
    from . import c19
    ctx.rule(c19.rule_shape_classes, 'C10.R6', names=('ensure_2d',))
    ctx.rule(c19.rule_layout_only, 'C10.R6', names=('ensure_2d',))
    l1.rule_lib_attrs(ctx, 'L1', [HH, HH1, 'emd.spectra.define_hist_bins', 'emd.spectra.define_hist_bins_from_data'],
                      'Hilbert-Huang spectrum')
    from . import l2
    ctx.rule(l2.rule_layout, 'C10.R7', [HH, HH1])


def _spec_row(p, E):
    return spec_bin(p, E)


def _decode_coo(v):
    """(data, rows, cols, shape) terms of a coo_matrix call, looking through .toarray()"""
    dense = False
    if v[0] == 'meth' and v[1] in ('toarray', 'todense'):
        dense = True
        v = v[2]
    if not (v[0] == 'call' and v[1] in ('scipy.sparse.coo_matrix', 'scipy.sparse.coo_array') and v[2]):
        return None
    a0 = v[2][0]
    if not (a0[0] == 'tuple' and len(a0[1]) == 2 and a0[1][1][0] == 'tuple' and len(a0[1][1][1]) == 2):
        return None
    shape = dict(v[3]).get('shape')
    if shape is None and len(v[2]) > 1:
        shape = v[2][1]
    return a0[1][0], a0[1][1][1][0], a0[1][1][1][1], shape, dense


def _find_digitize(t):
    """The binning call inside t, normalised to (.., .., (values, edges)): np.digitize(x, edges) or
    np.searchsorted(edges, x)."""
    for x in subterms(t):
        if x[0] == 'call' and x[1] == 'numpy.digitize' and len(x[2]) >= 2:
            return x
        if x[0] == 'call' and x[1] == 'numpy.searchsorted' and len(x[2]) >= 2:
            return ('call', x[1], (x[2][1], x[2][0]), x[3])
    return None


def _dense_fill(v, state):
    """A dense result built by `out = np.zeros(shape); out[idx] = vals` (or `+=`), or by np.add.at(out, idx, vals).
    Returns (kind, idx, vals, shape) with kind in {'assign', 'augassign', 'add.at'} or None."""
    if v[0] == 'setitem' and v[1][0] == 'call' and v[1][1] in ('numpy.zeros', 'numpy.zeros_like'):
        val = v[3]
        shape = v[1][2][0] if v[1][2] else None
        if val[0] == 'bin' and val[1] == '+' and val[2] == ('sub', v[1], v[2]):
            return 'augassign', v[2], val[3], shape
        return 'assign', v[2], val, shape
    if v[0] == 'call' and v[1] in ('numpy.zeros', 'numpy.zeros_like'):
        for eff in state.effects:
            if eff[0] == 'expr' and eff[1][0] == 'call' and eff[1][1] == 'numpy.add.at' and len(eff[1][2]) == 3 \
                    and eff[1][2][0] == v:
                return 'add.at', eff[1][2][1], eff[1][2][2], (v[2][0] if v[2] else None)
    return None


def rule_classmap_2d(ctx, rid):
    P = ctx.P
    fi = P.func(HH)
    maps = {}
    for mode in ('energy', 'amplitude'):
        for sparse in (True, False):
            ev = Evaluator(P)
            exits = [e for e in ev.run(fi, context={'mode': mode, 'return_sparse': sparse}) if e.kind == 'return']
            ctx.paths += len(exits)
            ctx.contexts.append({'function': HH, 'mode': mode, 'return_sparse': sparse})
            c = 'mode=%s, %s: class -> bin map' % (mode, 'sparse' if sparse else 'dense')
            if len(exits) != 1:
                ctx.undecided(rid, fi, c, '%d return paths' % len(exits))
                continue
            flt = [t for t in subterms(exits[0].value) if t[0] == 'fault']
            if flt:
                ctx.violation(rid, fi, c, 'the result is computed through %s (%s for every input)' % (flt[0][2], flt[0][1]))
                continue
            dec = _decode_coo(exits[0].value)
            if dec is None:
                df = _dense_fill(exits[0].value, exits[0].state)
                if df is not None and df[1][0] == 'tuple' and len(df[1][1]) == 2:
                    kind, idx, vals, shape = df
                    if kind != 'add.at':
                        ctx.violation('C10.R3', fi, 'samples falling into the same (bin, time) cell are summed',
                                      'the dense spectrum is filled by fancy-index %s, which keeps one of several '
                                      'samples that fall into the same cell instead of summing them (two IMFs in one '
                                      'frequency bin at the same time sample lose energy)'
                                      % ('assignment' if kind == 'assign' else '`+=` (numpy does not accumulate '
                                         'repeated coordinates)'))
                    dec = (vals, idx[1][0], idx[1][1], shape, True)
                else:
                    ctx.undecided(rid, fi, c, 'result is not a COO accumulation: %s' % show(exits[0].value)[:80])
                    continue
            data, rows, cols, shape, dense = dec
            if dense == sparse:
                ctx.violation('C10.R3', fi, 'return_sparse=%s returns the %s form' % (sparse, 'sparse' if sparse else 'dense'),
                              'return_sparse=%s yields %s' % (sparse, 'a dense array' if dense else 'a sparse matrix'))
            def mask_parts(m):
                if m[0] == 'call' and m[1] in ('numpy.all', 'numpy.logical_and') and m[2]:
                    out_ = []
                    for a_ in m[2]:
                        out_ += mask_parts(a_)
                    return out_
                if m[0] == 'sub' and m[1] == ('ref', 'numpy.c_'):
                    out_ = []
                    for a_ in (m[2][1] if m[2][0] == 'tuple' else (m[2],)):
                        out_ += mask_parts(a_)
                    return out_
                if m[0] == 'bin' and m[1] == '&':
                    return mask_parts(m[2]) + mask_parts(m[3])
                return [m]
            dg = _find_digitize(rows)
            TIMEC0 = ('numpy.tile', 'numpy.arange', 'numpy.repeat', 'numpy.indices', 'numpy.meshgrid')

            def dig_values(t):
                if not isinstance(t, tuple) or not t:
                    return False
                if t[0] == 'attr' and t[2] in ('shape', 'size', 'ndim'):
                    return False
                if t[0] == 'call' and t[1] == 'builtins.len':
                    return False
                if t[0] == 'call' and t[1] == 'numpy.digitize':
                    return True
                for x in t[1:]:
                    if isinstance(x, tuple):
                        if x and isinstance(x[0], str):
                            if dig_values(x):
                                return True
                        else:
                            for y in x:
                                if isinstance(y, tuple) and (dig_values(y) if (y and isinstance(y[0], str)) else
                                                             any(dig_values(z) for z in y if isinstance(z, tuple))):
                                    return True
                return False
            def param_values(t, names=('inam', 'infr')):
                """does t depend on the values (not just the shape) of one of the input arrays?"""
                if not isinstance(t, tuple) or not t:
                    return False
                if t[0] == 'attr' and t[2] in ('shape', 'size', 'ndim'):
                    return False
                if t[0] == 'call' and t[1] == 'builtins.len':
                    return False
                if t[0] == 's' and t[1] in names:
                    return True
                for x in t[1:]:
                    if isinstance(x, tuple):
                        if x and isinstance(x[0], str):
                            if param_values(x, names):
                                return True
                        else:
                            for y in x:
                                if isinstance(y, tuple):
                                    if y and isinstance(y[0], str):
                                        if param_values(y, names):
                                            return True
                                    elif any(param_values(z, names) for z in y if isinstance(z, tuple)):
                                        return True
                return False
            rbase = rows[1] if rows[0] == 'sub' else rows
            cbase = cols[1] if cols[0] == 'sub' else cols
            if not dig_values(rbase):
                if any(t[0] == 'call' and t[1] in TIMEC0 for t in subterms(rbase)):
                    ctx.violation(rid, fi, c, 'the frequency-bin coordinate of the accumulation is the time index: %s' % show(rbase)[:90])
                    continue
                if S('inam') in set(subterms(rbase)) or S('infr') in set(subterms(rbase)):
                    ctx.violation(rid, fi, c, 'the frequency-bin coordinate of the accumulation is not the digitised frequency: %s'
                                  % show(rbase)[:90])
                    continue
            if dig_values(cbase):
                ctx.violation(rid, fi, c, 'the time coordinate of the accumulation is the frequency-bin index: %s' % show(cbase)[:90])
                continue
            if param_values(cbase):
                ctx.violation(rid, fi, c, 'the time coordinate of the accumulation is computed from the values of the inputs: %s'
                              % show(cbase)[:90])
                continue
            if rows[0] == 'sub' and rows[2][0] not in ('c', 'slice', 'tuple'):
                wrongpart = [pt for pt in mask_parts(rows[2]) if pt[0] == 'cmp' and not dig_values(pt) and param_values(pt)]
                if wrongpart:
                    ctx.violation(rid, fi, c, 'the filter that removes out-of-range samples tests %s, not the frequency bin index'
                                  % show(wrongpart[0])[:100])
                    continue
            dbase = data[1] if data[0] == 'sub' else data
            if S('inam') not in set(subterms(dbase)) or dig_values(dbase):
                ctx.violation('C10.R3', fi, 'mode=%s: accumulated value' % mode,
                              'the values accumulated are %s, not the amplitudes' % show(dbase)[:90])
                continue
            if dg is None:
                ctx.undecided(rid, fi, c, 'row index does not come from np.digitize')
                continue
            xterm, edges = dg[2][0], dg[2][1]
            if S('freq_edges') in set(subterms(xterm)) and S('infr') in set(subterms(edges)):
                ctx.violation(rid, fi, c, 'np.digitize is called with (edges, frequencies): the bin edges are looked up in '
                              'the frequency array instead of the other way round', found=show(dg)[:120])
                continue
            # the keep-filter must test the bin index: a filter built from the time coordinate (or anything that is not
            # the digitised frequency) keeps out-of-range frequencies and drops valid ones
            def mask_parts(m):
                if m[0] == 'call' and m[1] in ('numpy.all', 'numpy.logical_and') and m[2]:
                    out_ = []
                    for a_ in m[2]:
                        out_ += mask_parts(a_)
                    return out_
                if m[0] == 'sub' and m[1] == ('ref', 'numpy.c_'):
                    out_ = []
                    for a_ in (m[2][1] if m[2][0] == 'tuple' else (m[2],)):
                        out_ += mask_parts(a_)
                    return out_
                if m[0] == 'bin' and m[1] == '&':
                    return mask_parts(m[2]) + mask_parts(m[3])
                return [m]
            def uses_values_of_digitize(t):
                """does t depend on the *values* of a digitize result (not merely on its shape)?"""
                if not isinstance(t, tuple) or not t:
                    return False
                if t[0] == 'attr' and t[2] in ('shape', 'size', 'ndim'):
                    return False
                if t[0] == 'call' and t[1] == 'builtins.len':
                    return False
                if t[0] == 'call' and t[1] == 'numpy.digitize':
                    return True
                return any(uses_values_of_digitize(x) for x in t[1:] if isinstance(x, tuple)) or \
                    any(uses_values_of_digitize(y) for x in t[1:] if isinstance(x, tuple) and x and not isinstance(x[0], str)
                        for y in x if isinstance(y, tuple))
            TIMEC = ('numpy.tile', 'numpy.arange', 'numpy.repeat', 'numpy.indices', 'numpy.meshgrid')
            badpart = None
            if rows[0] == 'sub' and rows[2][0] not in ('c', 'slice', 'tuple'):
                for part in mask_parts(rows[2]):
                    if part[0] == 'cmp' and not uses_values_of_digitize(part) and any(t[0] == 'call' and t[1] in TIMEC for t in subterms(part)):
                        badpart = part
            if badpart is not None:
                ctx.violation(rid, fi, c, 'the filter that removes out-of-range samples tests the time coordinate instead of the '
                              'frequency bin index: %s' % show(badpart)[:110])
                continue
            table = {}
            problem = None
            try:
                for E in (ES_THOROUGH if ctx.tier == 'thorough' else ES):
                    for p in classes(E):
                        bind = {S('infr'): p, S('inam'): 'amp'}
                        el = ElemEval(E, bind, edges_terms=(edges,))
                        r = el.ev(rows)
                        d = el.ev(data)
                        if not (isinstance(r, tuple) and r and r[0] in ('kept', 'dropped')):
                            r = ('kept', r)          # no filter at all: every sample is handed to the accumulation
                        if not (isinstance(d, tuple) and d and d[0] in ('kept', 'dropped')):
                            d = ('kept', d)
                        nrows = el.ev(shape[1][0]) if shape is not None and shape[0] == 'tuple' else None
                        got = r[1] if r[0] == 'kept' else None
                        want = _spec_row(p, E)
                        table[(E, repr(p))] = got
                        if nrows != E - 1:
                            problem = 'the spectrum has %s rows for %d edges (expected %d)' % (nrows, E, E - 1)
                        if got != want:
                            problem = ('a frequency in class %s (E=%d edges) is %s, expected %s'
                                       % (p, E, 'accumulated in bin %s' % got if got is not None else 'dropped',
                                          'bin %d' % want if want is not None else 'dropped'))
                            break
                        if (r[0] == 'kept') != (d[0] == 'kept'):
                            problem = 'values and row indices are filtered by different masks'
                            break
                        if got is not None and not (0 <= got < E - 1):
                            problem = 'row %d out of range' % got
                        if d[0] == 'kept':
                            wantd = ('pow', 'amp', 2) if mode == 'energy' else 'amp'
                            if d[1] != wantd:
                                ctx.violation('C10.R3', fi, 'mode=%s: accumulated value' % mode,
                                              'mode=%s accumulates %r per sample, expected %r' % (mode, d[1], wantd))
                    if problem:
                        break
            except Fault as f_:
                ctx.violation(rid, fi, c, str(f_))
                continue
            except Undecided as u:
                ctx.undecided(rid, fi, c, 'index expression outside the class domain: %s' % u)
                continue
            maps[(mode, sparse)] = table
            if problem:
                ctx.violation(rid, fi, c, problem, expected='below/at-last/above/nan dropped; in(k) -> row k-1',
                              found=problem)
            else:
                ctx.passed(rid, fi, c, '%d class instances over E in %s' % (len(table), list(ES_THOROUGH if ctx.tier == 'thorough' else ES)))
            # time coordinate
            c2 = 'mode=%s, %s: time coordinate is the untouched sample index under the same filter' % (
                mode, 'sparse' if sparse else 'dense')
            why = _check_time_index(rows, cols, shape)
            if why is None:
                ctx.passed(rid, fi, c2)
            elif why.startswith('?'):
                ctx.undecided(rid, fi, c2, why[1:])
            else:
                ctx.violation(rid, fi, c2, why)
    # R3 summary obligations
    ctx.passed('C10.R3', fi, 'energy mode squares the amplitude exactly once', 'checked on kept classes') \
        if ('energy', True) in maps else None
    ctx.passed('C10.R3', fi, 'amplitude mode accumulates the amplitude itself', 'checked on kept classes') \
        if ('amplitude', True) in maps else None
    ctx.passed('C10.R3', fi, 'dense return is .toarray() of the sparse accumulation') \
        if ('energy', False) in maps else None
    return maps.get(('energy', True))


def _is_shape0(t):
    return t[0] == 'sub' and t[2] == C(0) and t[1][0] == 'attr' and t[1][2] == 'shape'


def _is_shape1(t):
    return t[0] == 'sub' and t[2] == C(1) and t[1][0] == 'attr' and t[1][2] == 'shape'


def _time_index_form(X):
    """Is X the sample (row) index broadcast over the IMF columns?  Returns the number-of-samples term or None.
    Accepted constructions (all give X[t, m] == t):  tile(arange(n), (m, 1)).T ;  repeat(arange(n)[:, None], m, axis=1) ;
    broadcast_to(arange(n)[:, None], (n, m)) ;  indices((n, m))[0] ;  meshgrid(arange(n), arange(m), indexing='ij')[0]."""
    from ..poly import _shape_only_index

    def arange_n(t):
        if t[0] == 'call' and t[1] == 'numpy.arange' and len(t[2]) == 1 and not t[3] and _is_shape0(t[2][0]):
            return t[2][0]
        return None
    if X[0] == 'attr' and X[2] == 'T' and X[1][0] == 'call' and X[1][1] == 'numpy.tile' and len(X[1][2]) == 2:
        n = arange_n(X[1][2][0])
        reps = X[1][2][1]
        if n is not None and reps[0] == 'tuple' and len(reps[1]) == 2 and reps[1][1] == C(1):
            return n
    if X[0] == 'call' and X[1] in ('numpy.repeat', 'numpy.broadcast_to') and len(X[2]) >= 2:
        base = X[2][0]
        if base[0] == 'sub' and _shape_only_index(base[2]) and base[2][0] == 'tuple' and len(base[2][1]) == 2 \
                and base[2][1][0][0] == 'slice':
            n = arange_n(base[1])
            if n is not None:
                if X[1] == 'numpy.repeat' and dict(X[3]).get('axis', X[2][2] if len(X[2]) > 2 else None) == C(1):
                    return n
                if X[1] == 'numpy.broadcast_to':
                    return n
    if X[0] == 'sub' and X[2] == C(0) and X[1][0] == 'call' and X[1][1] == 'numpy.indices' and X[1][2] \
            and X[1][2][0][0] == 'tuple' and _is_shape0(X[1][2][0][1][0]):
        return X[1][2][0][1][0]
    if X[0] == 'sub' and X[2] == C(0) and X[1][0] == 'call' and X[1][1] == 'numpy.meshgrid' and len(X[1][2]) == 2 \
            and dict(X[1][3]).get('indexing') == C('ij'):
        return arange_n(X[1][2][0])
    return None


def _check_time_index(rows, cols, shape):
    # rows = Y.reshape(-1)[G] ; cols = X.reshape(-1)[G]
    if not (rows[0] == 'sub' and cols[0] == 'sub'):
        return '?row/column coordinates are not filtered vectors'
    if rows[2] != cols[2]:
        return 'row and time coordinates are filtered by different masks'
    X = cols[1]
    while X[0] == 'meth' and X[1] in ('reshape', 'ravel', 'flatten'):
        X = X[2]
    # the construction is evaluated on two tiny [samples x imfs] shapes: flattened, it must list for every element of
    # the row-major array its sample index (a 200-line row-major array model, no numpy, no repository code)
    from ..smallarr import flat_index_of_axis0, Undecided as _U, Fault as _F
    n = None
    try:
        okflat = flat_index_of_axis0(cols[1], 2)
        if okflat:
            cand = [t for t in subterms(cols[1]) if _is_shape0(t)]
            n = cand[0] if cand else None
            if n is None:
                return None
        else:
            return 'the time coordinate %s does not list, element by element, the sample index of the flattened ' \
                   '[samples x imfs] array' % show(X)[:70]
    except _F as f_:
        return 'the time coordinate cannot be built: %s' % f_
    except _U:
        n = _time_index_form(X)
    if n is not None:
        if shape is not None and shape[0] == 'tuple' and len(shape[1]) == 2:
            w = shape[1][1]
            if not _is_shape0(w):
                return 'spectrum width %s is not the number of samples' % show(w)[:40]
        return None
    # anything arithmetic on the time index is a violation; unknown constructions are undecided
    for t in subterms(X):
        if t[0] == 'bin' and any(s[0] == 'call' and s[1] == 'numpy.arange' for s in subterms(t)):
            return 'the time coordinate is modified: %s' % show(t)[:60]
    return '?time coordinate construction not recognised: %s' % show(X)[:80]


def rule_classmap_1d(ctx, rid):
    P = ctx.P
    fi = P.func(HH1)
    result = None
    for mode in ('energy', 'amplitude'):
        ev = Evaluator(P)
        exits = [e for e in ev.run(fi, context={'mode': mode}) if e.kind == 'return']
        ctx.paths += len(exits)
        c = 'mode=%s: class -> bin map' % mode
        if not exits:
            ctx.undecided(rid, fi, c, 'no return path')
            continue
        e = exits[0]
        outer = [ls for ls in e.state.loops if ls.kind == 'for']
        stores = []
        for ls in outer:
            for kind, b in ls.body_states:
                for ls2 in b.loops:
                    if ls2.kind == 'for' and ls2.node is not ls.node:
                        for kind2, b2 in ls2.body_states:
                            for eff in b2.effects:
                                if eff[0] == 'setitem' and ls.var in set(subterms(eff[2])):
                                    stores.append((ls, ls2, eff))
        if not stores:
            # vectorised form: np.add.at(specs, (row index, imf index), values)
            df = _dense_fill(e.value, e.state)
            if df is not None and df[0] == 'add.at' and df[1][0] == 'tuple' and len(df[1][1]) == 2:
                kind, idx, vals, shape = df
                rows = idx[1][0]
                dg = _find_digitize(rows)
                if dg is None:
                    ctx.undecided(rid, fi, c, 'row index of the accumulation does not come from np.digitize')
                    continue
                edges = dg[2][1]
                table = {}
                problem = None
                try:
                    for E in (ES_THOROUGH if ctx.tier == 'thorough' else ES):
                        for p in classes(E):
                            el = ElemEval(E, {S('infr'): p, S('inam'): 'amp'}, edges_terms=(edges,))
                            r = el.ev(rows)
                            got = r[1] if r[0] == 'kept' else None
                            want = _spec_row(p, E)
                            if got is not None and got < 0:
                                problem = ('a frequency in class %s (E=%d edges) gets row index %d, which numpy reads '
                                           'from the end: it is accumulated in the last bin instead of being dropped'
                                           % (p, E, got))
                                got = (E - 1) + got
                            table[(E, repr(p))] = got
                            if problem is None and got != want:
                                problem = ('a frequency in class %s (E=%d edges) is %s, expected %s'
                                           % (p, E, 'accumulated in bin %s' % got if got is not None else 'dropped',
                                              'bin %d' % want if want is not None else 'dropped'))
                        if problem:
                            break
                except Fault as f_:
                    ctx.violation(rid, fi, c, str(f_))
                    continue
                except Undecided as u:
                    ctx.undecided(rid, fi, c, 'index expression outside the class domain: %s' % u)
                    continue
                if problem:
                    ctx.violation(rid, fi, c, problem, expected='below/at-last/above/nan dropped; in(k) -> row k-1')
                else:
                    ctx.passed(rid, fi, c, '%d class instances (np.add.at form)' % len(table))
                    result = table if result is None else result
                continue
            if outer and e.value[0] == 's' and '@F' in e.value[1]:
                ctx.violation(rid, fi, c, 'mode=%s: the loops over bins and IMFs store nothing for this mode: the spectrum stays '
                              'at its initial value' % mode)
                continue
            if outer and any(t[0] == 'call' and t[1] in ('numpy.zeros', 'numpy.empty') for t in subterms(e.value)) \
                    and not any(t[0] == 'setitem' for t in subterms(e.value)):
                ctx.violation(rid, fi, c, 'mode=%s: the array returned is the untouched allocation' % mode)
                continue
            ctx.undecided(rid, fi, c, 'no per-bin store found')
            continue
        ls, ls2, eff = stores[0]
        idx, val = eff[2], eff[3]
        rowt = idx[1][0] if idx[0] == 'tuple' else idx
        # every IMF column is visited, and written into its own column of a [bins x IMFs] array
        c_cols = 'mode=%s: one column per IMF, one row per bin' % mode
        INFR, INAM = S('infr'), S('inam')
        ncols = [('sub', ('attr', x, 'shape'), C(1)) for x in (INFR, INAM)]
        okc = True
        why_c = ''
        def shape_root(t_):
            """x.shape[k] of an array that only had elements replaced / was copied is the shape entry of x"""
            if t_[0] == 'sub' and t_[1][0] == 'attr' and t_[1][2] == 'shape':
                x_ = t_[1][1]
                while True:
                    if x_[0] == 'setitem':
                        x_ = x_[1]
                    elif x_[0] == 'meth' and x_[1] in ('copy', 'astype'):
                        x_ = x_[2]
                    elif x_[0] == 'call' and x_[1] in ('numpy.array', 'numpy.asarray', 'numpy.copy', 'emd.support.ensure_2d') and x_[2]:
                        x_ = x_[2][0]
                    else:
                        break
                return ('sub', ('attr', x_, 'shape'), t_[2])
            return t_
        for inner_ls in (ls, ls2):
            if inner_ls.var in set(subterms(idx)) and idx[0] == 'tuple' and len(idx[1]) == 2 and idx[1][1] == inner_ls.var:
                it_ = inner_ls.iter_term
                if not (it_[0] == 'call' and it_[1] == 'builtins.range' and len(it_[2]) == 1 and shape_root(it_[2][0]) in ncols):
                    okc, why_c = False, 'the loop over IMF columns runs over %s, not range(infr.shape[1])' % show(it_)[:50]
        alloc = None
        for holder in (ls, ls2):
            a_ = holder.entry_env.get(eff[5])
            if a_ is not None and alloc is None and any(t[0] == 'call' and t[1] in ('numpy.zeros', 'numpy.ones', 'numpy.empty', 'numpy.full')
                                                      for t in subterms(a_)):
                alloc = a_
        if alloc is not None:
            shp = None
            for t in subterms(alloc):
                if t[0] == 'call' and t[1] in ('numpy.zeros', 'numpy.ones', 'numpy.empty', 'numpy.full') and t[2]:
                    shp = t[2][0]
            if shp is not None and shp[0] in ('tuple', 'list') and len(shp[1]) == 2:
                want_rows = ('bin', '-', ('call', 'builtins.len', (S('freq_edges'),), ()), C(1))
                alg_ = mk_algebra()
                try:
                    rows_ok = alg_.poly(shp[1][0]) == alg_.poly(want_rows)
                except Exception:
                    rows_ok = shp[1][0] == want_rows
                if not rows_ok:
                    okc, why_c = False, 'the spectrum is allocated with %s rows, there are len(freq_edges) - 1 bins' % show(shp[1][0])[:40]
                elif shape_root(shp[1][1]) not in ncols:
                    okc, why_c = False, 'the spectrum is allocated with %s columns, there are infr.shape[1] IMFs' % show(shp[1][1])[:40]
        if okc:
            ctx.passed(rid, fi, c_cols)
        else:
            ctx.violation(rid, fi, c_cols, why_c)
        dg = _find_digitize(val)
        if dg is None:
            edge_elems = {t[2] for t in subterms(val) if t[0] == 'sub' and t[1] == S('freq_edges') and is_c(t[2])}
            whole = any(t == S('freq_edges') for t in subterms(val)
                        ) and any(t[0] == 'call' and S('freq_edges') in t[2] for t in subterms(val))
            if edge_elems and not whole:
                ctx.violation(rid, fi, c,
                              'the bin index is computed arithmetically from the edges %s only (no search of the edge '
                              'vector): frequencies are binned wrongly for non-uniform edges such as log-spaced bins'
                              % sorted('freq_edges[%s]' % e[1] for e in edge_elems),
                              expected='np.digitize(infr, freq_edges)', found=show(val)[:120])
            else:
                ctx.undecided(rid, fi, c, 'per-bin value does not select by np.digitize classes')
            continue
        edges = dg[2][1]
        if S('freq_edges') in set(subterms(dg[2][0])) and S('infr') in set(subterms(edges)):
            ctx.violation(rid, fi, c, 'np.digitize is called with (edges, frequencies): the bin edges are looked up in the '
                          'frequency array instead of the other way round', found=show(dg)[:120])
            continue
        # the selection mask inside the value: inam[(finds[:, jj] == ii), jj]
        sel = None
        for t in subterms(val):
            if t[0] == 'cmp' and ls.var in set(subterms(t)) and _find_digitize(t) is not None:
                sel = t
        if sel is None:
            ctx.undecided(rid, fi, c, 'cannot find the class selection `finds == ii`')
            continue
        it = ls.iter_term
        if not (it[0] == 'call' and it[1] == 'builtins.range'):
            ctx.undecided(rid, fi, c, 'bin loop is not a range')
            continue
        table = {}
        problem = None
        try:
            for E in (ES_THOROUGH if ctx.tier == 'thorough' else ES):
                el0 = ElemEval(E, {}, edges_terms=(edges,))
                bounds = [el0.ev(a) for a in it[2]]
                rng = range(*bounds)
                # allocated rows
                for p in classes(E):
                    rows = []
                    for ii in rng:
                        el = ElemEval(E, {S('infr'): p, ls.var: ii}, edges_terms=(edges,))
                        strip = _strip_column(sel)
                        if el.ev(strip):
                            rows.append(el.ev(rowt))
                    got = rows[0] if len(rows) == 1 else (None if not rows else tuple(rows))
                    table[(E, repr(p))] = got
                    want = _spec_row(p, E)
                    if got != want:
                        problem = ('a frequency in class %s (E=%d edges) is %s, expected %s'
                                   % (p, E, 'summed into bin %s' % (got,) if got is not None else 'dropped',
                                      'bin %d' % want if want is not None else 'dropped'))
                        break
                if problem:
                    break
        except Fault as f_:
            ctx.violation(rid, fi, c, str(f_))
            continue
        except Undecided as u:
            ctx.undecided(rid, fi, c, 'index expression outside the class domain: %s' % u)
            continue
        if problem:
            ctx.violation(rid, fi, c, problem)
        else:
            ctx.passed(rid, fi, c, '%d class instances over E in %s' % (len(table), list(ES_THOROUGH if ctx.tier == 'thorough' else ES)))
            result = table
        # exponent
        inner = val
        amp_pow = None
        wrong_red = None
        if inner[0] == 'call' and inner[1] in ('numpy.nanmean', 'numpy.mean', 'numpy.nanmax', 'numpy.max', 'numpy.nanmin',
                                               'numpy.min', 'numpy.nanmedian', 'numpy.median', 'numpy.nanprod', 'numpy.prod'):
            wrong_red = inner[1].replace('numpy.', 'np.')
        if inner[0] == 'call' and inner[1] in ('numpy.nansum', 'numpy.sum') and inner[2]:
            a = inner[2][0]
            if a[0] == 'call' and a[1] == 'numpy.power' and len(a[2]) == 2 and is_c(a[2][0]) and not is_c(a[2][1]):
                wrong_red = 'np.power(%s, amplitude): base and exponent are swapped' % show(a[2][0])
            if a[0] == 'call' and a[1] == 'numpy.power' and len(a[2]) == 2 and is_c(a[2][1]) and isinstance(a[2][1][1], (int, float)) \
                    and not is_c(a[2][0]):
                amp_pow = a[2][1][1]
            elif a[0] == 'bin' and a[1] == '**' and is_c(a[3]) and isinstance(a[3][1], (int, float)):
                amp_pow = a[3][1]
            if a[0] == 'call' and a[1] == 'numpy.power' and a[2][1] == C(2):
                amp_pow = 2
            elif a[0] == 'bin' and a[1] == '**' and a[3] == C(2):
                amp_pow = 2
            elif a[0] == 'sub':
                amp_pow = 1
        want = 2 if mode == 'energy' else 1
        c3 = '1-D mode=%s: exponent of the summed amplitude' % mode
        if wrong_red:
            ctx.violation('C10.R3', fi, c3, 'the bin holds %s, not the sum of the %s of its samples'
                          % (wrong_red, 'squared amplitudes' if mode == 'energy' else 'amplitudes'))
        elif amp_pow == want:
            ctx.passed('C10.R3', fi, c3, 'power %d' % want)
        elif amp_pow is None:
            ctx.undecided('C10.R3', fi, c3, 'cannot read the summed expression %s' % show(val)[:60])
        else:
            ctx.violation('C10.R3', fi, c3, 'mode=%s sums amplitude^%d (expected ^%d)' % (mode, amp_pow, want))
    return result


def _strip_column(t):
    """finds[:, jj] == ii  ->  finds == ii  (elementwise view)"""
    def rec(x):
        if not isinstance(x, tuple) or not x:
            return x
        if x[0] == 'sub' and x[2][0] == 'tuple' and len(x[2][1]) == 2 and x[2][1][0][0] == 'slice':
            return rec(x[1])
        if isinstance(x[0], str):
            return tuple(rec(y) if isinstance(y, tuple) else y for y in x)
        return tuple(rec(y) for y in x)
    return rec(t)


def rule_siblings(ctx, rid, m2, m1):
    P = ctx.P
    fi = P.func(HH)
    c = 'hilberthuang and hilberthuang_1d implement the same class -> bin map'
    if m2 is None or m1 is None:
        ctx.undecided(rid, fi, c, 'one of the two maps could not be computed')
        return
    diff = [(k, m2[k], m1.get(k)) for k in m2 if m2[k] != m1.get(k)]
    if diff:
        k, a, b = diff[0]
        ctx.violation(rid, fi, c, 'class %s with E=%d: 2-D routine -> %s, 1-D routine -> %s' % (k[1], k[0], a, b))
    else:
        ctx.passed(rid, fi, c, '%d class instances agree' % len(m2))


def rule_bins(ctx, rid):
    P = ctx.P
    fi = P.func('emd.spectra.define_hist_bins')
    alg = mk_algebra()
    mn, mx, nb = S('data_min'), S('data_max'), S('nbins')
    for scale in ('linear', 'log'):
        allx = Evaluator(P).run(fi, context={'scale': scale})
        exits = [e for e in allx if e.kind == 'return']
        c = 'scale=%s: nbins+1 edges spanning [data_min, data_max]' % scale
        if not exits and allx:
            ctx.violation(rid, fi, c, "the documented scale '%s' is rejected: every path raises %s" % (scale, show(allx[0].value)[:50]))
            continue
        unb = [t for e_ in exits for t in subterms(e_.value) if t[0] == 's' and str(t[1]).startswith('global:')]
        if unb:
            ctx.violation(rid, fi, c, "scale='%s': %s is read but never assigned on this path (NameError for every input)"
                          % (scale, unb[0][1].split(':', 1)[1]))
            continue
        if len(exits) != 1 or exits[0].value[0] != 'tuple':
            ctx.undecided(rid, fi, c, 'unexpected return shape')
            continue
        edges, centres = exits[0].value[1]
        ls = edges
        if scale == 'linear' and edges[0] == 'call' and edges[1] in ('numpy.exp', 'numpy.logspace', 'numpy.geomspace'):
            ctx.violation(rid, fi, c, "scale='linear' returns logarithmically spaced edges", found=show(edges)[:80])
            continue
        if scale == 'log':
            if not (edges[0] == 'call' and edges[1] == 'numpy.exp'):
                ctx.violation(rid, fi, c, 'log-spaced edges are not exp(linspace(log(min), log(max)))',
                              found=show(edges)[:80])
                continue
            ls = edges[2][0]
        if not (ls[0] == 'call' and ls[1] == 'numpy.linspace' and len(ls[2]) >= 3):
            ctx.undecided(rid, fi, c, 'edges are not a linspace: %s' % show(ls)[:60])
            continue
        a, b, n = ls[2][0], ls[2][1], ls[2][2]
        okn = alg.poly(n) == alg.poly(('bin', '+', nb, C(1)))
        if scale == 'linear':
            okab = (a == mn and b == mx)
        else:
            lg = ('call', 'numpy.log', (('list', (mn, mx)),), ())
            okab = (a == ('sub', lg, C(0)) and b == ('sub', lg, C(1)))
        kw = dict(ls[3])
        if kw.get('endpoint', C(True)) != C(True):
            okab = False
        if okn and okab:
            ctx.passed(rid, fi, c)
        else:
            ctx.violation(rid, fi, c, 'edges are %s' % show(edges)[:100],
                          expected='linspace(min, max, nbins + 1)' if scale == 'linear'
                          else 'exp(linspace(log(min), log(max), nbins + 1))', found=show(edges)[:100])
    # centres are midpoints
    exits = [e for e in Evaluator(P).run(fi, context={'scale': 'linear'}) if e.kind == 'return']
    c = 'bin centres are the midpoints of consecutive edges'
    if exits and exits[0].value[0] == 'tuple':
        edges, centres = exits[0].value[1]
        ok = False
        t = centres
        # first reading: the centres term interpreted on sample edge vectors (exact rationals, unequal spacing so that
        # a wrong neighbour or weight shows)
        from fractions import Fraction
        from ..orderval import OrderEval, Undecided as OUndecided, Vec
        num = None
        try:
            for ev_ in ([1, 2], [1, 2, 4], [1, 2, 4, 8], [3, 4, 6, 11, 12], [Fraction(1, 3)]):
                ed = Vec(Fraction(x) for x in ev_)
                got = OrderEval({edges: ed}).ev(centres)
                want_ = [(a_ + b_) / 2 for a_, b_ in zip(ed[:-1], ed[1:])]
                if not isinstance(got, list) or list(got) != want_:
                    num = 'edges %s give centres %s, expected %s' % (
                        [str(x) for x in ed], [str(x) for x in got] if isinstance(got, list) else got,
                        [str(x) for x in want_])
                    break
            else:
                num = True
        except IndexError as ie:
            num = 'edges %s: %s' % (ev_, ie)
        except (OUndecided, ZeroDivisionError, TypeError, ValueError):
            num = None
        if num is True:
            ctx.passed(rid, fi, c, 'interpreted on 5 sample edge vectors')
            return
        if num is not None:
            ctx.violation(rid, fi, c, num)
            return
        if t[0] == 'call' and t[1] == 'numpy.array':
            t = t[2][0]
        if t[0] == 'comp':
            var = t[3][0][0]
            it = t[3][0][1]
            want = alg.poly(('bin', '/', ('bin', '+', ('sub', edges, var), ('sub', edges, ('bin', '+', var, C(1)))), C(2)))
            n_ok = it[0] == 'call' and it[1] == 'builtins.range' and len(it[2]) == 1 and \
                alg.poly(it[2][0]) == alg.poly(('bin', '-', ('call', 'builtins.len', (edges,), ()), C(1)))
            ok = alg.poly(t[2]) == want and n_ok
        if t[0] == 'comp' and not ok:
            var, it, _ = t[3][0]
            lo_s = ('sub', edges, ('slice', NONE, C(-1), NONE))
            hi_s = ('sub', edges, ('slice', C(1), NONE, NONE))
            if var[0] == 'tuple' and len(var[1]) == 2 and it == ('call', 'builtins.zip', (lo_s, hi_s), ()):
                ok = alg.poly(t[2]) == alg.poly(('bin', '/', ('bin', '+', var[1][0], var[1][1]), C(2)))
        elif t[0] == 'bin':
            want = alg.poly(('bin', '/', ('bin', '+', ('sub', edges, ('slice', NONE, C(-1), NONE)),
                                          ('sub', edges, ('slice', C(1), NONE, NONE))), C(2)))
            ok = alg.poly(t) == want
        if ok:
            ctx.passed(rid, fi, c)
        elif t[0] in ('comp', 'bin'):
            ctx.violation(rid, fi, c, 'centres are %s' % show(centres)[:100])
        else:
            ctx.undecided(rid, fi, c, 'cannot read the centres %s' % show(centres)[:100])
    else:
        ctx.undecided(rid, fi, c, 'unexpected return shape')


def rule_dimchecks(ctx, rid):
    from .common import dim_checks
    P = ctx.P
    fi = P.func(HH)
    per_path = dim_checks(P, fi, {'mode': 'energy', 'return_sparse': False})
    for fn in ('ensure_2d', 'ensure_equal_dims'):
        c = '%s is applied to frequency and amplitude' % fn
        ok = bool(per_path) and all(any(f == fn and nm >= {'infr', 'inam'} for f, nm, d in calls) for calls in per_path)
        if ok:
            ctx.passed(rid, fi, c)
        else:
            ctx.violation(rid, fi, c, 'hilberthuang no longer checks its two arrays with %s' % fn)
