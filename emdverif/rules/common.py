"""Helpers shared by the rule modules."""
import ast

from ..model import AnalysisError, unparse, walk_local
from ..paths import Evaluator, is_c, show, C, S, subterms
from ..poly import Algebra

EXTRACTORS = ('emd.sift.get_next_imf', 'emd.sift.get_next_imf_mask')


def calls_to(P, fi, pred):
    """Call nodes in fi whose resolved callee satisfies pred(callee)."""
    out = []
    for c in P.calls_in(fi):
        ca = P.resolve_callee(fi.module, fi, c.func)
        if pred(ca):
            out.append((c, ca))
    return out


def enclosing_chain(fi, target):
    """List of ancestor statements of `target` inside fi (outermost first),
    each as (node, field, index) so that branch polarity can be read off."""
    path = []

    def rec(node):
        for field, value in ast.iter_fields(node):
            if isinstance(value, list):
                for i, ch in enumerate(value):
                    if isinstance(ch, ast.AST):
                        if ch is target:
                            path.append((node, field))
                            return True
                        if rec(ch):
                            path.append((node, field))
                            return True
            elif isinstance(value, ast.AST):
                if value is target:
                    path.append((node, field))
                    return True
                if rec(value):
                    path.append((node, field))
                    return True
        return False
    if not rec(fi.node):
        return []
    path.reverse()
    return path


def guards_of(fi, target, upto=None):
    """Conjunction of If-tests dominating `target` structurally:
    [(test_node, polarity)] from the outermost (inside `upto`) inwards."""
    chain = enclosing_chain(fi, target)
    out = []
    started = upto is None
    for node, field in chain:
        if node is upto:
            started = True
            continue
        if not started:
            continue
        if isinstance(node, ast.If) and field in ('body', 'orelse'):
            out.extend(atomic_guards(node.test, field == 'body'))
        elif isinstance(node, (ast.While,)) and field == 'body' and node is not upto:
            out.extend(atomic_guards(node.test, True))
    return out


_MIRROR_AST = {ast.Lt: ast.Gt, ast.Gt: ast.Lt, ast.LtE: ast.GtE, ast.GtE: ast.LtE, ast.Eq: ast.Eq, ast.NotEq: ast.NotEq,
               ast.Is: ast.Is, ast.IsNot: ast.IsNot}


def const_right(test):
    """`None is not x` -> `x is not None`: a single comparison with the constant on the left, mirrored"""
    if isinstance(test, ast.Compare) and len(test.ops) == 1 and type(test.ops[0]) in _MIRROR_AST \
            and isinstance(test.left, ast.Constant) and not isinstance(test.comparators[0], ast.Constant):
        new = ast.Compare(left=test.comparators[0], ops=[_MIRROR_AST[type(test.ops[0])]()], comparators=[test.left])
        ast.copy_location(new, test)
        ast.fix_missing_locations(new)
        return new
    return test


def atomic_guards(test, pol):
    """A test taken with polarity `pol` as a list of atomic (test, polarity) facts: negations are folded into the
    polarity, a conjunction that holds / a disjunction that fails is split into its operands, and a comparison with
    the constant on the left is mirrored (`None is not x` -> `x is not None`), so that the readers of guards see one
    spelling."""
    while isinstance(test, ast.UnaryOp) and isinstance(test.op, ast.Not):
        test, pol = test.operand, not pol
    if isinstance(test, ast.BoolOp) and ((isinstance(test.op, ast.And) and pol) or (isinstance(test.op, ast.Or) and not pol)):
        out = []
        for v in test.values:
            out.extend(atomic_guards(v, pol))
        return out
    if isinstance(test, ast.Compare) and len(test.ops) == 1 and type(test.ops[0]) in _MIRROR_AST \
            and isinstance(test.left, ast.Constant) and not isinstance(test.comparators[0], ast.Constant):
        new = ast.Compare(left=test.comparators[0], ops=[_MIRROR_AST[type(test.ops[0])]()], comparators=[test.left])
        ast.copy_location(new, test)
        ast.fix_missing_locations(new)
        test = new
    return [(test, pol)]


def find_loops(fi, kind=(ast.While, ast.For)):
    return [n for n in walk_local(fi.node) if isinstance(n, kind)]


def loop_containing_call(P, fi, pred, kind=(ast.While,)):
    """The loops of fi whose body contains a call whose callee satisfies pred."""
    res = []
    loops = list(find_loops(fi, kind))
    if ast.While in (kind if isinstance(kind, tuple) else (kind,)):
        # `for v in itertools.count(): ... break` is evaluated as a counting while loop (paths.synth_count_loop)
        from ..paths import synth_count_loop
        for f in find_loops(fi, (ast.For,)):
            sy = synth_count_loop(P, fi, f)
            if sy is not None:
                loops.append(sy[1])
    for loop in loops:
        for n in ast.walk(loop):
            if isinstance(n, ast.Call):
                ca = P.resolve_callee(fi.module, fi, n.func)
                if pred(ca):
                    res.append((loop, n, ca))
                    break
    return res


def is_name(node, name=None):
    return isinstance(node, ast.Name) and (name is None or node.id == name)


def const_value(node, default=None):
    if isinstance(node, ast.Constant):
        return node.value
    if isinstance(node, ast.UnaryOp) and isinstance(node.op, ast.USub) and isinstance(node.operand, ast.Constant):
        return -node.operand.value
    return default


def trace_tail(state, n=14):
    return state.trace[-n:]


def single_col_pred(t):
    """Terms known to denote single-column arrays [samples x 1]: the component
    returned by a single-IMF extraction, i.e. element 0 of its result."""
    if t[0] == 'sub' and is_c(t[2]) and t[2][1] == 0 and t[1][0] == 'call' and t[1][1] in EXTRACTORS:
        return True
    return False


def mk_algebra(rewrite=None):
    return Algebra(single_col=single_col_pred, rewrite=rewrite)


def count_set(op, k, maxn=64):
    """{n in 0..maxn | n op k}"""
    import operator
    f = {'==': operator.eq, '!=': operator.ne, '<': operator.lt, '<=': operator.le,
         '>': operator.gt, '>=': operator.ge}[op]
    return frozenset(n for n in range(maxn + 1) if f(n, k))


def flatten_comp(t):
    """[f(a) for a in [g(i) for i in R]]  ->  [f(g(i)) for i in R]   (with literal subscripts folded)"""
    from ..paths import substitute, _mk_sub
    if t[0] == 'comp' and len(t[3]) == 1:
        var, it, conds = t[3][0]
        it = flatten_comp(it)
        if it[0] == 'comp' and len(it[3]) == 1 and not conds and not it[3][0][2] and var[0] == 'bv':
            elt = substitute(t[2], {var: it[2]})
            elt = _fold_subs(elt)
            return ('comp', t[1], elt, it[3])
        return ('comp', t[1], t[2], ((var, it, conds),))
    return t


def unzip_comp(t):
    """[f(a, b) for a, b in zip(A, [g(v) for v in A])]  ->  [f(a, g(a)) for a in A]"""
    from ..paths import substitute
    if t[0] == 'comp' and len(t[3]) == 1:
        var, it, conds = t[3][0]
        if var[0] == 'tuple' and len(var[1]) == 2 and it[0] == 'call' and it[1] == 'builtins.zip' and len(it[2]) == 2:
            A, B = it[2]
            B = flatten_comp(B)
            if B[0] == 'comp' and len(B[3]) == 1 and not B[3][0][2] and B[3][0][1] == A:
                a, b = var[1]
                inner = substitute(B[2], {B[3][0][0]: a})
                elt = _fold_subs(substitute(t[2], {b: inner}))
                return ('comp', t[1], elt, ((a, A, conds),))
    return t


def _fold_subs(t):
    from ..paths import _mk_sub
    if not isinstance(t, tuple) or not t or not isinstance(t[0], str):
        return t
    if t[0] in ('c', 's', 'bv', 'ref'):
        return t
    t = tuple(_fold_subs(x) if isinstance(x, tuple) and x and isinstance(x[0], str) else
              (tuple(_fold_subs(y) if isinstance(y, tuple) else y for y in x) if isinstance(x, tuple) else x)
              for x in t)
    if t[0] == 'sub':
        return _mk_sub(t[1], t[2])
    return t


def dim_checks(P, fi, context=None):
    """ensure_* / ensure_equal_dims calls executed on every normal path of fi, read from the evaluated paths
    (loops over literal tuples are unrolled, helpers are inlined).  Returns a list, one entry per return path, of
    [(callee short name, set of parameter names reaching `to_check`, dim literal or None)]."""
    from ..paths import Evaluator, atoms, is_c
    out = []
    exits = Evaluator(P).run(fi, context=context or {})
    for e in exits:
        if e.kind != 'return':
            continue
        calls = []
        terms = [eff[1] for eff in e.state.effects if eff[0] == 'expr']
        terms += [v for v in e.state.env.values() if isinstance(v, tuple)]
        terms.append(e.value)
        seen = set()
        for t in terms:
            for x in subterms(t):
                if x[0] == 'call' and x[1] in ('emd.support.ensure_equal_dims', 'emd.support.ensure_2d',
                                               'emd.support.ensure_vector', 'emd.support.ensure_1d_with_singleton') \
                        and x not in seen:
                    seen.add(x)
                    kw = dict(x[3])
                    tc = kw.get('to_check')
                    names = {a for a in atoms(tc)} if tc is not None else set()
                    dim = kw.get('dim')
                    calls.append((x[1].split('.')[-1], names, dim[1] if dim is not None and is_c(dim) else None))
        out.append(calls)
    return out


def nan_vector(t, like):
    """Is `t` a float vector with one NaN per element of `like`?  True / False / None (not a recognised allocation).
    Recognised: (alloc * nan), (alloc + nan), nan * alloc, np.full(shape, nan), np.full_like(like, nan, dtype=float),
    with alloc in zeros/ones/empty[_like] of the length / shape of `like`, under astype(float) wrappers."""
    from ..paths import subterms as _sub
    NANS = (('ref', 'numpy.nan'), ('ref', 'numpy.NaN'), ('ref', 'math.nan'), ('ref', 'numpy.NAN'))

    def strip(x):
        while x[0] == 'meth' and x[1] in ('astype', 'copy'):
            x = x[2]
        return x

    def shaped(a):
        a = strip(a)
        if a[0] != 'call':
            return None
        if a[1] in ('numpy.zeros_like', 'numpy.ones_like', 'numpy.empty_like', 'numpy.full_like'):
            return bool(a[2]) and strip(a[2][0]) == like
        if a[1] in ('numpy.zeros', 'numpy.ones', 'numpy.empty', 'numpy.full'):
            shp = a[2][0] if a[2] else dict(a[3]).get('shape')
            if shp is None:
                return None
            if shp[0] in ('tuple', 'list') and len(shp[1]) == 1:
                shp = shp[1][0]
            oks = [('call', 'builtins.len', (like,), ()), ('attr', like, 'shape'), ('sub', ('attr', like, 'shape'), ('c', 0)),
                   ('attr', like, 'size')]
            return shp in oks
        return None
    t = strip(t)
    if t[0] == 'bin' and t[1] == '/' and strip(t[3]) in NANS:
        s = shaped(t[2])            # finite / nan is nan
        if s is not None:
            return s
    if t[0] == 'bin' and t[1] in ('*', '+', '-'):
        for a, b in ((t[2], t[3]), (t[3], t[2])):
            if strip(b) in NANS:
                s = shaped(a)
                if s is not None:
                    return s
        if not any(x in NANS for x in _sub(t)):
            return False if (shaped(t[2]) is not None or shaped(t[3]) is not None) else None
        return None
    if t[0] == 'call' and t[1] in ('numpy.full', 'numpy.full_like'):
        fv = t[2][1] if len(t[2]) > 1 else dict(t[3]).get('fill_value')
        s = shaped(t)
        if fv is None or s is None:
            return None
        if fv in NANS:
            return s
        return False
    if t[0] == 'call' and t[1] in ('numpy.zeros', 'numpy.ones', 'numpy.zeros_like', 'numpy.ones_like', 'numpy.empty',
                                   'numpy.empty_like'):
        return False
    return None


# ----------------------------------------------------------------------------------------------
# the "lift a 2-D array to 3-D / drop the auxiliary axis again" idiom, in its usual spellings
def strip_lift(t):
    """x[:, :, None] / x[..., None] / np.expand_dims(x, 2|-1) / np.atleast_3d(x)  ->  (x, True) ; else (t, False)"""
    from ..paths import NONE, C
    FULL = ('slice', NONE, NONE, NONE)
    ELL = ('c', Ellipsis)
    if t[0] == 'sub' and t[2] in (('tuple', (FULL, FULL, NONE)), ('tuple', (ELL, NONE))):
        return t[1], True
    if t[0] == 'call' and t[1] == 'numpy.expand_dims' and t[2]:
        ax = dict(t[3]).get('axis', t[2][1] if len(t[2]) > 1 else None)
        if ax in (C(2), C(-1)):
            return t[2][0], True
    if t[0] == 'call' and t[1] == 'numpy.atleast_3d' and len(t[2]) == 1:
        return t[2][0], True
    return t, False


def strip_unlift(t):
    """x[:, :, 0] / x[:, :, -1] / x[..., 0] / np.squeeze(x, axis=2|-1) / x.squeeze(axis=2|-1)  ->  (x, True)
    a subscript / squeeze of another form -> (t, None) (not recognised) ; anything else -> (t, False)"""
    from ..paths import NONE, C, is_c
    FULL = ('slice', NONE, NONE, NONE)
    ELL = ('c', Ellipsis)
    if t[0] == 'sub':
        if t[2] in (('tuple', (FULL, FULL, C(0))), ('tuple', (FULL, FULL, C(-1))), ('tuple', (ELL, C(0))), ('tuple', (ELL, C(-1)))):
            return t[1], True
        if t[2][0] == 'tuple' and len(t[2][1]) in (2, 3) and is_c(t[2][1][-1]) and isinstance(t[2][1][-1][1], int) \
                and all(x in (FULL, ELL) for x in t[2][1][:-1]):
            return t, ('index', t[2][1][-1][1])        # a constant element other than 0 / -1 of the last axis
        return t, None
    if t[0] == 'call' and t[1] == 'numpy.squeeze' and t[2]:
        ax = dict(t[3]).get('axis', t[2][1] if len(t[2]) > 1 else None)
        if ax in (C(2), C(-1)):
            return t[2][0], True
        return t, None
    if t[0] == 'meth' and t[1] == 'squeeze':
        ax = dict(t[4]).get('axis', t[3][0] if t[3] else None)
        if ax in (C(2), C(-1)):
            return t[2], True
        return t, None
    return t, False


def lifted_column_loops(e, result):
    """The idiom "treat a 2-D array as 3-D with a dummy last axis, visit every column (i, j), give the result back in
    the input's shape", in its two spellings:
      A (rebinding)  W = lift(X) if X.ndim == 2 ; loops store W[:, i, j] = ... ; result = unlift(W) iff X.ndim == 2
      B (view)       V = lift(W) if W.ndim == 2 else W (a view) ; loops store V[:, i, j] = ... ; result = W
    `e` is a returning exit, `result` the returned array term.
    -> ('ok', info) | ('bad', why) | ('unknown', why) | ('infeasible', '') ; info: name, is2d, entry (term the written array
    starts as, lift stripped), stores [(outer loop, inner loop, idx, value, body state)]."""
    from ..paths import subterms, show, NONE, C, S
    FULL = ('slice', NONE, NONE, NONE)
    core, unlift = strip_unlift(result)
    if isinstance(unlift, tuple):
        return 'bad', 'element %d of the auxiliary axis (length one) is taken: IndexError for every 2-D input' % unlift[1]
    if unlift is None:
        return 'unknown', 'result %s' % show(result)[:60]
    if not (core[0] == 's' and '@F' in core[1]):
        return 'unknown', 'result %s is not an array filled in a loop' % show(result)[:60]
    name = core[1].split('@')[0]
    is2d = None
    for cd, tr, ln in e.state.conds:
        if cd[0] == 'cmp' and cd[1] in ('==', '!=') and cd[3] == C(2) and cd[2][0] == 'attr' and cd[2][2] == 'ndim':
            v = (cd[1] == '==') == tr
            if is2d is not None and is2d != v:
                return 'infeasible', ''
            is2d = v
    stores = []
    wname = None
    outer_for = None
    for ls in e.state.loops:
        if ls.kind != 'for':
            continue
        for kind, b in ls.body_states:
            for l2 in b.loops:
                if l2.kind != 'for' or l2.node is ls.node:
                    continue
                for k2, b2 in l2.body_states:
                    for f in b2.effects:
                        if f[0] != 'setitem' or not f[5]:
                            continue
                        if f[5] == name or b2.alias.get('view:' + f[5]) == name:
                            stores.append((ls, l2, f[2], f[3], b2))
                            wname = f[5]
                            outer_for = ls
    if not stores:
        return 'unknown', 'no column store into %s found in a nested loop' % name
    if is2d is None:
        return 'unknown', 'no test of the number of dimensions on this path'
    ent = outer_for.entry_env.get(wname)
    if ent is None:
        return 'bad', 'the array %s is written before it is created (NameError for every input)' % wname
    ent0, lifted = strip_lift(ent)
    if ent0[0] == 'call' and ent0[1] in ('numpy.zeros_like', 'numpy.empty_like', 'numpy.ones_like',
                                          'numpy.full_like') and ent0[2]:
        # a fresh array allocated like P has the rank of P (and may be lifted itself afterwards)
        proto, pl = strip_lift(ent0[2][0])
        lifted = lifted or pl
        ent0 = ('alloc_like', proto)
    if lifted != is2d:
        return 'bad', ('a 2-D array is indexed with three indices without the auxiliary axis' if is2d
                       else 'a 3-D array is given a fourth axis')
    if wname == name:
        if unlift != is2d:
            return 'bad', ('for 2-D input the result keeps the auxiliary third axis (shape [samples, imfs, 1])' if is2d
                           else 'for 3-D input the last axis of the result is dropped')
    else:
        if unlift:
            return 'bad', 'the result was filled through a view and is then indexed [:, :, 0] although it never had a third axis'
    for ls, l2, idx, val, b2 in stores:
        if idx != ('tuple', (FULL, ls.var, l2.var)):
            return 'bad', 'column (%s, %s) is stored at %s' % (show(ls.var), show(l2.var), show(idx)[:40])
        for lsx, axn in ((ls, 1), (l2, 2)):
            it = lsx.iter_term
            okr = it[0] == 'call' and it[1] == 'builtins.range' and len(it[2]) == 1 and it[2][0][0] == 'sub' \
                and it[2][0][2] == C(axn) and it[2][0][1][0] == 'attr' and it[2][0][1][2] == 'shape'
            if not okr:
                return 'bad', 'the loop over axis %d runs over %s' % (axn, show(it)[:60])
    return 'ok', {'name': name, 'wname': wname, 'is2d': is2d, 'entry': ent0, 'stores': stores}


def loop_counters(exits, loop, alg, start=0):
    """Names of the variables that count the iterations of `loop` (an ast node): `start` at loop entry and one more at
    every back edge, read from the loop summaries of the evaluated exits.  Found by role, never by spelling."""
    found = None
    for e in exits:
        st = e.state if hasattr(e, 'state') else e
        for ls in getattr(st, 'loops', []):
            if ls.node is not loop:
                continue
            cs = set()
            for name, head in ls.head_env.items():
                if ls.entry_env.get(name) != C(start):
                    continue
                ok = True
                nb = 0
                for kind, b in ls.body_states:
                    if not kind.startswith('back'):
                        continue
                    nb += 1
                    v = b.env.get(name)
                    hd = head
                    if kind == 'back' and getattr(ls, 'kind', '') == 'while':
                        hd = C(start)          # first (peeled) iteration of a while loop starts from the entry value
                    try:
                        d = alg.poly(v) - alg.poly(hd)
                    except Exception:
                        ok = False
                        break
                    if not (d.is_const() and d.const_value() == 1):
                        ok = False
                        break
                if ok and nb:
                    cs.add(name)
            # variables that hold the iteration index throughout an iteration (`for k in itertools.count()` is
            # evaluated as `c = 0; while True: k = c; c += 1; ...`: k is such a variable)
            idx = set()
            for name in ls.head_env:
                if name in cs:
                    continue
                for cn in cs:
                    ok = True
                    nb = 0
                    for kind, b in ls.body_states:
                        if not kind.startswith('back'):
                            continue
                        nb += 1
                        want = C(start) if (kind == 'back' and getattr(ls, 'kind', '') == 'while') else ls.head_env[cn]
                        if b.env.get(name) != want:
                            ok = False
                            break
                    if ok and nb:
                        idx.add(name)
            cs |= idx
            found = cs if found is None else (found & cs)
    return found or set()


def loop_counter_heads(exits, loop, names):
    """the loop-head symbols of the named counters of `loop`"""
    out = set()
    for e in exits:
        st = e.state if hasattr(e, 'state') else e
        for ls in getattr(st, 'loops', []):
            if ls.node is loop:
                for n in names:
                    if n in ls.head_env:
                        out.add(ls.head_env[n])
    return out


_MIRROR_OP = {'<': '>', '>': '<', '<=': '>=', '>=': '<=', '==': '==', '!=': '!=', 'is': 'is', 'isnot': 'isnot'}


def cmp_views(c):
    """Both readings (op, left, right) of a comparison term: as stored and mirrored.  Rules that look for
    `counter > limit` use this instead of fixed operand positions (the evaluator stores one canonical orientation)."""
    if c[0] != 'cmp':
        return []
    out = [(c[1], c[2], c[3])]
    if c[1] in _MIRROR_OP:
        out.append((_MIRROR_OP[c[1]], c[3], c[2]))
    return out


NP_REDUCTIONS = ('sum', 'mean', 'std', 'var', 'max', 'min', 'median', 'cumsum', 'any', 'all', 'nansum', 'nanmean',
                 'prod', 'argmax', 'argmin')


def as_method(t):
    """np.sum(x, axis=1) read as x.sum(axis=1): the function form of an array reduction as the method term (rules read
    one spelling)"""
    if t[0] == 'call' and t[1].startswith('numpy.') and t[1].split('.')[-1] in NP_REDUCTIONS and t[2] \
            and t[2][0][0] not in ('list', 'tuple', 'comp'):
        return ('meth', t[1].split('.')[-1], t[2][0], tuple(t[2][1:]), tuple(t[3]))
    return t


def fold_comp_index(t, ranges=None):
    """[E(v) for v in R][k]  ->  E(k)   where k is a bound variable that itself runs over R (the generator of an
    enclosing comprehension): element k of a list built over the same iteration space"""
    from ..paths import substitute
    ranges = dict(ranges or {})
    if not isinstance(t, tuple) or not t or not isinstance(t[0], str):
        return t
    if t[0] in ('c', 's', 'bv', 'ref'):
        return t
    if t[0] == 'comp' and len(t[3]) == 1 and t[3][0][0][0] == 'bv':
        var, it, conds = t[3][0]
        it2 = fold_comp_index(it, ranges)
        r2 = dict(ranges)
        r2[var] = it2
        return ('comp', t[1], fold_comp_index(t[2], r2), ((var, it2, tuple(fold_comp_index(c, r2) for c in conds)),))
    t = tuple(fold_comp_index(x, ranges) if isinstance(x, tuple) and x and isinstance(x[0], str) else
              (tuple(fold_comp_index(y, ranges) if isinstance(y, tuple) else y for y in x) if isinstance(x, tuple) else x)
              for x in t)
    if t[0] == 'sub' and t[1][0] == 'comp' and len(t[1][3]) == 1 and not t[1][3][0][2] and t[2][0] == 'bv' \
            and ranges.get(t[2]) == t[1][3][0][1] and t[1][3][0][0][0] == 'bv':
        return fold_comp_index(substitute(t[1][2], {t[1][3][0][0]: t[2]}), ranges)
    return t
