"""C18 - sift configurations are faithful, addressable and persistable."""
import ast

from ..model import AnalysisError, unparse, walk_local
from ..paths import Evaluator, is_c, show, C, S, NONE, subterms, substitute, _mk_sub
from .common import trace_tail

PROPERTY = 'C18'
EXPLANATION = (
    "R1 default tables: the configuration built by get_config is reconstructed symbolically (keys harvested from "
    "the live signatures minus the ignore lists, plus the hard-coded pad tables) and compared with (a) the formals "
    "of each variant, (b) the formals of each stage and the explicit keywords/positionals at every ** site of that "
    "stage (no collision, no unknown key), (c) the fallback literals used when no option is given (value equality), "
    "so that unpacking the default configuration reproduces the call with no options. R2 key paths: the access "
    "tables of __getitem__/__setitem__/__delitem__ agree and have nesting depth == number of path components. "
    "R3 YAML pairing: abstract document shape of each writer vs. the destructuring of its reader; both sift_type "
    "and the option store must be recovered on both routes. R4 export purity: producing YAML does not mutate the "
    "live configuration (alias/mutation analysis). R5 registry (informational). "
    "Not decided: behaviour of the callable returned by get_func beyond the binding of its keywords.")
RULE_TEXT = "one obligation per table entry / key route / accessor arity / YAML route; distinct = distinct keys"
FLOORS = {'C18.R1': 12, 'C18.R2': 9, 'C18.R3': 4, 'C18.R4': 1, 'C18.R6': 3}
PINNED_EXPECT = [('C18.R3', 'emd.sift.SiftConfig.from_yaml_stream', 'text route'),
                 ('C18.R4', 'emd.sift.SiftConfig._get_yamlsafe_dict', 'live store')]

VARIANTS = ['sift', 'ensemble_sift', 'complete_ensemble_sift', 'mask_sift']
STAGES = {'imf_opts': 'emd.sift.get_next_imf',
          'envelope_opts': 'emd.sift.interp_envelope',
          'extrema_opts': 'emd.sift.get_padded_extrema'}


def run(ctx):
    ctx.rule(rule_config_keys, 'C18.R1')
    ctx.rule(rule_key_paths, 'C18.R2')
    ctx.rule(rule_yaml_pairing, 'C18.R3')
    ctx.rule(rule_export_purity, 'C18.R4')
    ctx.rule(rule_registry, 'C18.R5')
    ctx.rule(rule_yaml_safe, 'C18.R6')
    ctx.rule(rule_list_like_options, 'C18.R6')


# ----------------------------------------------------------------------------------------------
def simplify(t):
    """Fold subscripts of literal lists/dicts, len() of literals, identity comprehensions."""
    if not isinstance(t, tuple) or not t or not isinstance(t[0], str):
        if isinstance(t, tuple):
            return tuple(simplify(x) for x in t)
        return t
    k = t[0]
    if k in ('c', 's', 'bv', 'ref'):
        return t
    t = tuple(simplify(x) if isinstance(x, tuple) else x for x in t)
    if k == 'sub':
        return _mk_sub(t[1], t[2])
    if k == 'call' and t[1] == 'builtins.len' and len(t[2]) == 1 and t[2][0][0] in ('list', 'tuple', 'dict'):
        return C(len(t[2][0][1]))
    if k == 'call' and t[1] in ('builtins.list', 'builtins.tuple') and len(t[2]) == 1 and t[2][0][0] in ('list', 'tuple'):
        return ('list', t[2][0][1])
    if k == 'call' and t[1] == 'builtins.isinstance' and len(t[2]) == 2 and t[2][0][0] in ('list', 'tuple', 'dict') \
            and t[2][1][0] == 'ref' and t[2][1][1] in ('builtins.dict', 'builtins.list', 'builtins.tuple'):
        return C(t[2][0][0] == t[2][1][1].split('.')[-1])
    if k == 'comp' and len(t[3]) == 1 and t[2] == t[3][0][0] and not t[3][0][2]:
        it = t[3][0][1]
        return it
    return t


def term_literal(t):
    """python value of a literal term, else raises ValueError"""
    k = t[0]
    if k == 'c':
        return t[1]
    if k in ('list', 'tuple'):
        v = [term_literal(x) for x in t[1]]
        return v if k == 'list' else tuple(v)
    if k == 'dict':
        return {term_literal(a): term_literal(b) for a, b in t[1]}
    raise ValueError(show(t))


class SigDefault:
    def __init__(self, func, key, node):
        self.func, self.key, self.node = func, key, node

    def value(self):
        try:
            return ast.literal_eval(self.node)
        except Exception:
            return ('expr', unparse(self.node))

    def __repr__(self):
        return '<default of %s.%s = %s>' % (self.func.split('.')[-1], self.key, unparse(self.node))


def reconstruct_config(P, variant):
    """Symbolic result of get_config(variant): nested dict key -> SigDefault | literal | nested dict.
    Returns (config dict, info) or raises AnalysisError."""
    gc = P.func('emd.sift.get_config')
    ev = Evaluator(P)
    exits = ev.run(gc, context={gc.params[0]: variant})
    rets = [e for e in exits if e.kind == 'return']
    if len(rets) != 1:
        raise AnalysisError('get_config(%r): expected one return path, found %d (raises: %d)'
                            % (variant, len(rets), len(exits) - len(rets)))
    e = rets[0]
    info = {'ignore': {}}

    def opts_of(t):
        # _get_function_opts(func=<F>, ignore=[...]) -> {k: SigDefault}
        if t[0] == 'call' and t[1] == 'emd.sift._get_function_opts':
            kw = dict(t[3])
            f = kw.get('func')
            ign = kw.get('ignore', NONE)
            try:
                ignore = term_literal(ign) or []
            except ValueError:
                raise AnalysisError('get_config: ignore list is not a literal: %s' % show(ign))
            q = None
            if f[0] == 'ref':
                q = f[1]
            elif f[0] == 'call' and f[1] == 'builtins.getattr' and len(f[2]) == 2 and is_c(f[2][1]):
                q = 'emd.sift.' + f[2][1][1]
            if q is None or q not in P.funcs:
                raise AnalysisError('get_config: cannot resolve the harvested function %s' % show(f))
            fi = P.funcs[q]
            info['ignore'][q] = list(ignore)
            out = {}
            for name in fi.all_formals():
                if name not in ignore:
                    out[name] = SigDefault(q, name, fi.defaults.get(name)) if name in fi.defaults \
                        else SigDefault(q, name, ast.Name(id='<required>', ctx=ast.Load()))
            return out
        if t[0] == 'dict':
            return {term_literal(k): value_of(v) for k, v in t[1]}
        if t[0] == 'setitem' and is_c(t[2]):
            # <plain dict>[key] = value   (no key-path splitting on a plain dict)
            base = opts_of(t[1])
            if base is not None:
                base = dict(base)
                base[t[2][1]] = value_of(t[3])
                return base
        return None

    def value_of(t):
        o = opts_of(t)
        if o is not None:
            return o
        try:
            return term_literal(t)
        except ValueError:
            return ('term', show(t)[:80])

    def decode(t):
        if t[0] == 'setitem':
            d = decode(t[1])
            key = t[2]
            if not (is_c(key) and isinstance(key[1], str)):
                raise AnalysisError('get_config: non-literal key %s' % show(key))
            path = key[1].split('/')
            cur = d
            for p in path[:-1]:
                if not isinstance(cur.get(p), dict):
                    raise AnalysisError('get_config: nested key %r set before its parent' % key[1])
                cur = cur[p]
            cur[path[-1]] = value_of(t[3])
            return d
        if t[0] == 's' and '@F' in t[1]:
            # accumulator after `for key in <opts>: out[key] = <opts>[key]`
            for ls in e.state.loops:
                if ls.kind == 'for' and t[1].startswith(t[1].split('@')[0] + '@F%d' % ls.node.lineno):
                    src = opts_of(ls.iter_term)
                    if src is None:
                        raise AnalysisError('get_config: copy loop over %s' % show(ls.iter_term)[:60])
                    ok = False
                    for kind, b in ls.body_states:
                        v = b.env.get(t[1].split('@')[0])
                        if v is not None and v[0] == 'setitem' and v[2] == ls.var \
                                and v[3] == ('sub', ls.iter_term, ls.var):
                            ok = True
                    if not ok:
                        raise AnalysisError('get_config: copy loop body is not out[key] = opts[key]')
                    return dict(src)
            raise AnalysisError('get_config: cannot decode %s' % t[1])
        if t[0] == 'call' and t[1].endswith('SiftConfig'):
            return {}
        if t[0] == 'mut' and t[1] == 'update' and len(t[3]) == 1:
            # out.update(<opts>): same as the copy loop (SiftConfig inherits dict.update; no key-path splitting)
            d = decode(t[2])
            src = opts_of(t[3][0])
            if src is None:
                raise AnalysisError('get_config: update() from %s' % show(t[3][0])[:60])
            d.update(src)
            return d
        raise AnalysisError('get_config: cannot decode %s' % show(t)[:80])
    cfg = decode(e.value)
    # mutable module-level tables that end up inside the returned configuration (the same object in every
    # configuration ever handed out)
    shared = []
    vals = set(subterms(e.value))
    for eff in e.state.effects:
        if eff[0] == 'modref' and eff[2] in vals and eff[1] not in shared:
            shared.append(eff[1])
    info['shared'] = shared
    return cfg, info


def _star_sites(P, stage_q, carrier):
    """Explicitly bound formals at every call of `stage_q` that unpacks **carrier."""
    out = []
    for q, fi in sorted(P.funcs.items()):
        for c in P.calls_in(fi):
            ca = P.resolve_callee(fi.module, fi, c.func)
            inner = None
            if ca.kind == 'repo' and ca.dotted == stage_q:
                inner = (c.args, c.keywords, ca)
            elif ca.kind == 'lib' and ca.dotted == 'functools.partial' and c.args:
                ca2 = P.resolve_callee(fi.module, fi, c.args[0])
                if ca2.kind == 'repo' and ca2.dotted == stage_q:
                    inner = (c.args[1:], c.keywords, ca2)
            if inner is None:
                continue
            args, kws, cal = inner
            stars = [k.value for k in kws if k.arg is None]
            if not any(isinstance(s, ast.Name) and s.id == carrier for s in stars):
                continue
            stage = P.funcs[stage_q]
            explicit = set(stage.params[:max(len(args), 1)])      # the signal is always positional
            explicit |= {k.arg for k in kws if k.arg is not None}
            out.append((fi, c, explicit))
    return out


def rule_config_keys(ctx, rid):
    P = ctx.P
    gc = P.func('emd.sift.get_config')
    for v in VARIANTS:
        vf = P.func('emd.sift.' + v)
        try:
            cfg, info = reconstruct_config(P, v)
        except AnalysisError as e:
            ctx.undecided(rid, gc, 'variant %s: reconstruct default configuration' % v, str(e))
            continue
        ctx.contexts.append({'get_config': v, 'keys': sorted(cfg)})
        # (a) top-level keys are formals of the variant; the signal is not a key
        extra = sorted(k for k in cfg if k not in vf.all_formals())
        sig = vf.params[0]
        c = 'variant %s: configuration keys are formals of the variant' % v
        if extra or sig in cfg:
            ctx.violation(rid, gc, c, 'unpacking the default configuration into %s fails or shadows the signal: '
                          'unknown keys %s%s' % (v, extra, ', signal key present' if sig in cfg else ''),
                          expected='keys subset of %s minus the signal' % vf.all_formals(), found=sorted(cfg))
        else:
            ctx.passed(rid, gc, c, '%d keys' % len(cfg))
        missing = sorted(k for k in vf.all_formals() if k not in cfg and k != sig)
        c = 'variant %s: every option of the variant is in its default configuration' % v
        if missing:
            ctx.violation(rid, gc, c, 'options %s of %s are absent from its default configuration, so they cannot '
                          'be addressed or persisted' % (missing, v), found=sorted(cfg))
        else:
            ctx.passed(rid, gc, c)
        c = 'variant %s: containers of the default configuration are fresh objects' % v
        if info.get('shared'):
            ctx.violation(rid, gc, c, 'the module-level table(s) %s are stored in the returned configuration: every '
                          'configuration shares them, so editing one configuration changes the defaults of all later '
                          'ones' % ', '.join(info['shared']), expected='a new dict/list per call',
                          found=', '.join(info['shared']))
        else:
            ctx.passed(rid, gc, c)
        # top-level values are the signature defaults
        bad = [k for k, val in cfg.items() if not isinstance(val, (SigDefault, dict))]
        if bad:
            ctx.violation(rid, gc, 'variant %s: top-level values are the signature defaults' % v,
                          'keys %s carry hard-coded values' % bad)
        # (b) nested carriers
        for carrier, stage_q in STAGES.items():
            stage = P.func(stage_q)
            c = 'variant %s: %s keys valid at every ** site of %s' % (v, carrier, stage.name)
            sub = cfg.get(carrier)
            if not isinstance(sub, dict):
                ctx.violation(rid, gc, c, 'default configuration has no nested table %s' % carrier)
                continue
            unknown = sorted(k for k in sub if k not in stage.all_formals())
            if unknown:
                ctx.violation(rid, gc, c, 'keys %s are not formals of %s (TypeError when unpacked)'
                              % (unknown, stage.name), found=sorted(sub))
                continue
            sites = _star_sites(P, stage_q, carrier)
            clash = None
            for fi, call, explicit in sites:
                both = sorted(set(sub) & explicit)
                if both:
                    clash = (fi, call, both)
                    break
            if clash:
                ctx.violation(rid, gc, c, 'keys %s are also passed explicitly at %s:%d (%s): "multiple values" '
                              'TypeError with the default configuration'
                              % (clash[2], clash[0].module.relpath, clash[1].lineno, clash[0].name),
                              node=clash[1])
            else:
                ctx.passed(rid, gc, c, '%d keys, %d ** sites' % (len(sub), len(sites)))
            ctx.call_sites += len(sites)
    # (c) fallback literals == what the configuration spells out (value equality)
    try:
        cfg, info = reconstruct_config(P, 'sift')
    except AnalysisError as e:
        ctx.undecided(rid, gc, 'fallback literals', str(e))
        return
    gpe = P.func('emd.sift.get_padded_extrema')
    ie = P.func('emd.sift.interp_envelope')
    ex = cfg.get('extrema_opts', {})

    def norm(x):
        return x.value() if isinstance(x, SigDefault) else x
    # what get_padded_extrema pads with when no pad options are given: read from the np.pad calls on the evaluated
    # paths (works whether the fallback literal sits in the function or in a helper)
    used = {'loc': set(), 'mag': set()}
    exits = Evaluator(P).run(gpe, context={'mode': 'peaks', 'loc_pad_opts': None, 'mag_pad_opts': None})
    ctx.paths += len(exits)
    for e in exits:
        if e.kind != 'return' or e.value[0] != 'tuple' or len(e.value[1]) != 2:
            continue
        for which, t in (('loc', e.value[1][0]), ('mag', e.value[1][1])):
            while t[0] == 'call' and t[1] == 'numpy.pad':
                mode = t[2][2] if len(t[2]) > 2 else dict(t[3]).get('mode')
                d = {}
                undecoded = False
                if mode is not None:
                    try:
                        d['mode'] = term_literal(mode)
                    except ValueError:
                        undecoded = True
                for k, v in t[3]:
                    if k in ('mode', 'pad_width'):
                        continue
                    if k == '**':
                        undecoded = True
                        continue
                    try:
                        d[k] = term_literal(v)
                    except ValueError:
                        undecoded = True
                used[which].add(None if undecoded else _freeze(d))
                t = t[2][0]
    for which, key in (('loc', 'loc_pad_opts'), ('mag', 'mag_pad_opts')):
        text = 'get_padded_extrema %s fallback == configured %s' % (key, key)
        want = norm(ex.get(key))
        got = used[which]
        if not got or None in got:
            ctx.undecided(rid, gpe, text, 'cannot read the pad options used without user options')
        elif got == {_freeze(want)} if isinstance(want, dict) else False:
            ctx.passed(rid, gpe, text, repr(want))
        else:
            ctx.violation(rid, gpe, text, 'the pad options used when none are given differ from the configured '
                          'defaults', expected=repr(want), found=repr([_thaw(g) for g in got]))
    # interp_envelope without extrema options must call get_padded_extrema with its signature defaults
    text = 'interp_envelope extrema_opts fallback == signature defaults of get_padded_extrema'
    exits = Evaluator(P).run(ie, context={'extrema_opts': None, 'mode': 'upper', 'interp_method': 'splrep'})
    ctx.paths += len(exits)
    calls = set()
    for e in exits:
        for t in subterms(e.value) if e.kind == 'return' else ():
            if t[0] == 'call' and t[1] == 'emd.sift.get_padded_extrema':
                calls.add(t)
        for c, _, _ in e.state.conds:
            for t in subterms(c):
                if t[0] == 'call' and t[1] == 'emd.sift.get_padded_extrema':
                    calls.add(t)
    if not calls:
        ctx.undecided(rid, ie, text, 'no call of get_padded_extrema found')
    else:
        bad = {}
        for t in calls:
            for k, v in t[3]:
                if k in ('X', 'mode', '**'):
                    if k == '**':
                        bad['**'] = show(v)[:40]
                    continue
                d = gpe.defaults.get(k)
                try:
                    dv = ast.literal_eval(d) if d is not None else '<no such formal>'
                    if term_literal(v) != dv:
                        bad[k] = (term_literal(v), dv)
                except ValueError:
                    bad[k] = show(v)[:40]
        if bad:
            ctx.violation(rid, ie, text, 'fallback %s differs from the signature defaults' % bad)
        else:
            ctx.passed(rid, ie, text, '%d call form(s)' % len(calls))
    # configured nested scalar defaults equal the stage signature defaults by construction (harvested live):
    for carrier, stage_q in STAGES.items():
        sub = cfg.get(carrier, {})
        hard = sorted(k for k, val in sub.items() if not isinstance(val, SigDefault)
                      and not (carrier == 'extrema_opts' and k in ('mag_pad_opts', 'loc_pad_opts')))
        text = '%s values are harvested from the signature of %s' % (carrier, stage_q.split('.')[-1])
        if hard:
            ctx.violation(rid, gc, text, 'keys %s carry hard-coded values that can drift from the signature' % hard)
        else:
            ctx.passed(rid, gc, text, '%d keys' % len(sub))


def _fallback_literals(fi):
    """{(qualname, carrier, literal)} for `if not c: c = {literal}` / `if c is None: c = {literal}` idioms."""
    out = set()
    for n in walk_local(fi.node):
        if isinstance(n, ast.If):
            t = n.test
            name = None
            if isinstance(t, ast.UnaryOp) and isinstance(t.op, ast.Not) and isinstance(t.operand, ast.Name):
                name = t.operand.id
            elif isinstance(t, ast.Compare) and len(t.ops) == 1 and isinstance(t.ops[0], ast.Is) \
                    and isinstance(t.left, ast.Name) and isinstance(t.comparators[0], ast.Constant) \
                    and t.comparators[0].value is None:
                name = t.left.id
            if name is None:
                continue
            for s in n.body:
                if isinstance(s, ast.Assign) and len(s.targets) == 1 and isinstance(s.targets[0], ast.Name) \
                        and s.targets[0].id == name:
                    try:
                        v = ast.literal_eval(s.value)
                    except Exception:
                        continue
                    if isinstance(v, dict):
                        out.add((fi.qualname, name, _freeze(v)))
    return {(q, n, _thaw(v)) for q, n, v in out} if False else _ThawSet(out)


def _freeze(v):
    if isinstance(v, dict):
        return ('d', tuple(sorted((k, _freeze(x)) for k, x in v.items())))
    if isinstance(v, (list, tuple)):
        return ('l', tuple(_freeze(x) for x in v))
    return ('v', v)


def _thaw(f):
    if f[0] == 'd':
        return {k: _thaw(x) for k, x in f[1]}
    if f[0] == 'l':
        return [_thaw(x) for x in f[1]]
    return f[1]


class _ThawSet:
    def __init__(self, s):
        self.items = [(q, n, _thaw(v)) for q, n, v in s]

    def __or__(self, o):
        r = _ThawSet(())
        r.items = self.items + o.items
        return r

    def __iter__(self):
        return iter(self.items)


# ----------------------------------------------------------------------------------------------
def rule_key_paths(ctx, rid):
    """__getitem__/__setitem__/__delitem__ are siblings modulo read/write/delete."""
    P = ctx.P
    tables = {}
    for m in ('__getitem__', '__setitem__', '__delitem__'):
        fi = P.func('emd.sift.SiftConfig.' + m)
        ev = Evaluator(P)
        exits = ev.run(fi)
        ctx.paths += len(exits)
        table = {}
        for e in exits:
            if e.kind == 'raise':
                continue
            # the accessed location on this path
            loc = None
            if m == '__getitem__':
                loc = e.value
            else:
                for eff in e.state.effects:
                    if eff[0] == 'setitem':
                        loc = ('sub', eff[1], eff[2])
                    elif eff[0] == 'delitem':
                        loc = ('sub', eff[1], eff[2])
            cond = []
            for c, truth, ln in e.state.conds:
                cond.append((show(c), truth))
                if c[0] == 'call' and c[1] == 'builtins.isinstance' and len(c[2]) == 2 and c[2][0][0] == 'ref':
                    ctx.violation(rid, fi, '%s: the list test of the transformed key is well-formed' % m,
                                  'isinstance(%s, %s): the arguments are swapped (TypeError for every key)'
                                  % (show(c[2][0]), show(c[2][1])[:40]))
            table[tuple(cond)] = loc
        tables[m] = (fi, table)
    ref_fi, ref = tables['__getitem__']
    key0 = ('call', 'emd.sift.SiftConfig.__keytransform__', (), (('key', S('key')),))
    for m, (fi, table) in tables.items():
        # first reading: the accessor evaluated on literal key paths 'k0', 'k0/k1', 'k0/k1/k2' with the key transform
        # inlined (string methods of literals, literal slices and loops over literal lists are folded by the
        # evaluator); the syntactic reading below serves the forms this cannot decide
        sem = _key_paths_literal(ctx, rid, m, fi)
        if sem:
            continue
        # arity cases present and depth == arity
        seen = {}
        for cond, loc in table.items():
            depth, idxs = _chain(loc)
            arity = None
            for text, truth in cond:
                if 'builtins.len' in text and '== 2' in text and truth:
                    arity = 2
                elif 'builtins.len' in text and '== 3' in text and truth:
                    arity = 3
            islist = [truth for text, truth in cond if 'isinstance' in text]
            if islist and islist[0] is False:
                arity = 1
            if arity is None:
                continue
            seen[arity] = (depth, idxs, loc)
        for arity in (1, 2, 3):
            c = '%s: key path with %d component(s) addresses nesting depth %d' % (m, arity, arity)
            if arity not in seen:
                ctx.violation(rid, fi, c, '%s has no case for %d-component key paths' % (m, arity))
                continue
            depth, idxs, loc = seen[arity]
            want = ['key'] if arity == 1 else ['key[%d]' % i for i in range(arity)]
            if depth != arity or idxs != want:
                ctx.violation(rid, fi, c, 'a %d-component path accesses %s' % (arity, show(loc) if loc else None),
                              expected='store' + ''.join('[%s]' % w for w in want),
                              found=show(loc)[:120] if loc else 'nothing')
            else:
                ctx.passed(rid, fi, c, show(loc)[-60:])
    # key transform: split on '/', 1 -> plain key, 2..3 -> list, >3 raises
    kt = P.func('emd.sift.SiftConfig.__keytransform__')
    ev = Evaluator(P)
    exits = ev.run(kt)
    rets = [show(e.value) for e in exits if e.kind == 'return']
    raises = [e for e in exits if e.kind == 'raise']
    ok = any("split('/')" in r or 'split("/")' in r for r in rets) and raises
    if ok:
        ctx.passed(rid, kt, "key transform splits on '/' and rejects more than three components",
                   '%d return forms, %d raise' % (len(rets), len(raises)))
    else:
        ctx.violation(rid, kt, "key transform splits on '/' and rejects more than three components",
                      'found return forms %s and %d raise paths' % (rets[:3], len(raises)))


def _key_paths_literal(ctx, rid, m, fi):
    """The accessor evaluated on the literal keys 'k0', 'k0/k1', 'k0/k1/k2', 'k0/k1/k2/k3' with the key transform
    inlined.  Every returning path (whatever the tests on the store's content it took) must touch exactly the
    addressed entry: one read / one store of the given value / one deletion at store[k0]..[kn] and nothing else."""
    P = ctx.P
    results = []
    for arity in (1, 2, 3, 4):
        comps = ['k%d' % i for i in range(arity)]
        ev = Evaluator(P, inline=lambda q, d: q.endswith('.__keytransform__'))
        args = {'key': C('/'.join(comps))}
        exits = ev.run(fi, args=args)
        ctx.paths += len(exits)
        if not exits:
            return False
        store = ('attr', S('self'), 'store')
        want = store
        for c_ in comps:
            want = ('sub', want, C(c_))
        c = '%s: key path with %d component(s) addresses nesting depth %d' % (m, arity, arity)
        if arity == 4:
            c = '%s: a key path with more than three components is rejected' % m
            if all(e.kind == 'raise' for e in exits):
                results.append(('pass', c, '%d raise path(s)' % len(exits)))
            else:
                results.append(('bad', c, "'k0/k1/k2/k3' is accepted and accesses %s" % show(
                    [e for e in exits if e.kind != 'raise'][0].value)[:80]))
            continue
        rets = [e for e in exits if e.kind != 'raise']
        faults = [e for e in exits if e.kind == 'raise' and e.value[0] == 'fault']
        if faults:
            e = faults[0]
            results.append(('bad', c, 'key %r: %s (%s)' % (args['key'][1], e.value[1], e.value[2])))
            continue
        if not rets:
            e = exits[0]
            results.append(('bad', c, 'key %r is rejected: %s' % (args['key'][1], show(e.value)[:80])))
            continue
        verdict = None
        for e in rets:
            under = '; '.join('%s is %s' % (show(cd)[:50], tr) for cd, tr, ln in e.state.conds[:2])
            under = (' (when %s)' % under) if under else ''
            if m == '__getitem__':
                loc = e.value
            else:
                kind = 'setitem' if m == '__setitem__' else 'delitem'
                effs = [eff for eff in e.state.effects if eff[0] == kind]
                others = [eff for eff in e.state.effects if eff[0] in ('setitem', 'delitem') and eff[0] != kind]
                if not effs and not others:
                    verdict = ('bad', 'key %r: nothing is %s%s' % (args['key'][1], 'stored' if kind == 'setitem' else 'deleted', under))
                    break
                if len(effs) > 1 or others:
                    extra = [x for x in effs[1:] + others]
                    verdict = ('bad', 'key %r: besides the addressed entry the accessor also %s %s%s' % (
                        args['key'][1], 'stores into' if extra[0][0] == 'setitem' else 'deletes',
                        show(('sub', extra[0][1], extra[0][2]))[:60], under))
                    break
                loc = ('sub', effs[0][1], effs[0][2])
                if kind == 'setitem' and effs[0][3] != S('value'):
                    verdict = ('bad', 'key %r: the value stored is %s' % (args['key'][1], show(effs[0][3])[:60]))
                    break
            if loc == want:
                verdict = verdict or ('pass', show(loc)[-60:])
            elif loc is not None and _rooted_at_store(loc):
                verdict = ('bad', 'key %r accesses %s, expected %s%s' % (args['key'][1], show(loc)[:100], show(want), under))
                break
            else:
                return False
        results.append((verdict[0], c, verdict[1]))
    for verdict, c, msg in results:
        if verdict == 'pass':
            ctx.passed(rid, fi, c, msg)
        else:
            ctx.violation(rid, fi, c, msg)
    return True


def _rooted_at_store(t):
    while t is not None and t[0] == 'sub':
        if not is_c(t[2]):
            return False
        t = t[1]
    return t == ('attr', S('self'), 'store')


def _chain(loc):
    """depth and index texts of store[a][b][c] rooted at self.store"""
    idxs = []
    t = loc
    while t is not None and t[0] == 'sub':
        i = t[2]
        if i[0] == 'call' and i[1].endswith('__keytransform__'):
            idxs.append('key')
        elif i[0] == 'sub' and i[1][0] == 'call' and i[1][1].endswith('__keytransform__') and is_c(i[2]):
            idxs.append('key[%d]' % i[2][1])
        elif i == S('key'):
            idxs.append('untransformed key')          # the raw argument: 'a/b' is not split
        elif i[0] == 'sub' and i[1] == S('key') and is_c(i[2]):
            idxs.append('untransformed key[%s]' % i[2][1])      # a character of the raw string
        else:
            idxs.append(show(i)[:30])
        t = t[1]
    idxs.reverse()
    if t is None or not (t[0] == 'attr' and t[2] == 'store'):
        return -1, idxs
    return len(idxs), idxs


def rule_get_func(ctx, rid):
    """The callable built from a configuration is the configured variant with exactly the options stored at the time of
    the call (a cached partial would go on using the options of an earlier state of the configuration)."""
    P = ctx.P
    cls = 'emd.sift.SiftConfig.'
    SELF_T = ('attr', S('self'), 'sift_type')
    SELF_STORE = ('attr', S('self'), 'store')
    # the callable built from a configuration is the configured variant with exactly the stored options
    gf = P.func(cls + 'get_func')
    c = 'get_func == partial(<variant named by the own type>, **own store)'
    gexits = [e for e in Evaluator(P).run(gf) if e.kind == 'return']
    okg = bool(gexits)
    why = 'no return path'
    for e in gexits:
        v = e.value
        good = False
        if v[0] == 'call' and v[1] == 'functools.partial' and len(v[2]) == 1 and len(v[3]) == 1 and v[3][0][0] == '**':
            kw = v[3][0][1]
            while (kw[0] == 'meth' and kw[1] == 'copy') or (kw[0] == 'call' and kw[1] in ('builtins.dict', 'copy.copy',
                                                                                         'copy.deepcopy') and len(kw[2]) == 1):
                kw = kw[2] if kw[0] == 'meth' else kw[2][0]
            f = v[2][0]
            named = (f[0] == 'call' and f[1] == 'builtins.getattr' and len(f[2]) == 2 and f[2][1] == SELF_T
                     and f[2][0][0] == 'sub' and f[2][0][1] == ('ref', 'sys.modules')) \
                or (f[0] == 'sub' and f[2] == SELF_T and f[1][0] == 'call' and f[1][1] == 'builtins.globals')
            good = named and kw == SELF_STORE
        if not good:
            okg = False
            why = 'returns %s' % show(v)[:120]
    if okg:
        ctx.passed(rid, gf, c)
    else:
        ctx.violation(rid, gf, c, 'the callable of a configuration is not its own variant bound to its own options: '
                      + why, expected='functools.partial(getattr(<this module>, self.sift_type), **self.store)')


# ----------------------------------------------------------------------------------------------
def rule_yaml_pairing(ctx, rid):
    P = ctx.P
    cls = 'emd.sift.SiftConfig.'
    safe = P.func(cls + '_get_yamlsafe_dict')
    ev = Evaluator(P)
    exits = [e for e in ev.run(safe) if e.kind == 'return']
    if len(exits) != 1 or exits[0].value[0] != 'list' or len(exits[0].value[1]) != 2:
        ctx.undecided(rid, safe, 'writer payload shape', 'payload is not a two-element list: %s'
                      % [show(e.value)[:80] for e in exits])
        return
    payload = exits[0].value
    head, store_t = payload[1]
    if not (head[0] == 'dict' and len(head[1]) == 1 and head[1][0][0] == C('sift_type')):
        ctx.undecided(rid, safe, 'writer payload shape', 'first element is not {sift_type: ...}: %s' % show(head))
        return
    # the payload must carry this configuration's own type and its own option store
    SELF_T = ('attr', S('self'), 'sift_type')
    SELF_STORE = ('attr', S('self'), 'store')
    c = 'writer payload == [{sift_type: own type}, converted copy of the own store]'
    src = store_t
    converted = False
    while True:
        if src[0] == 'call' and src[1] == 'emd.sift._array_or_tuple_to_list' and dict(src[3]).get('conf') is not None:
            src = dict(src[3])['conf']
            converted = True
        elif src[0] == 'meth' and src[1] == 'copy' and not src[3]:
            src = src[2]
        elif src[0] == 'call' and src[1] in ('copy.deepcopy', 'copy.copy', 'builtins.dict') and len(src[2]) == 1:
            src = src[2][0]
        else:
            break
    if head[1][0][1] != SELF_T:
        ctx.violation(rid, safe, c, 'the sift type written to YAML is %s, not the configuration\'s own type'
                      % show(head[1][0][1])[:60], expected='self.sift_type', found=show(head[1][0][1])[:60])
    elif src != SELF_STORE:
        ctx.violation(rid, safe, c, 'the options written to YAML are %s, not (a converted copy of) the own store'
                      % show(store_t)[:80], expected='self.store', found=show(src)[:60])
    elif not converted:
        ctx.violation(rid, safe, c, 'the options are written without the YAML-safe conversion: array-valued options (mask '
                      'frequencies, thresholds given as arrays) are dumped as python-object tags that the reader\'s FullLoader '
                      'refuses', expected='_array_or_tuple_to_list(copy of self.store)', found=show(store_t)[:80])
    else:
        ctx.passed(rid, safe, c)
    rule_get_func(ctx, rid)
    T = S('T?sift_type')
    STORE = S('STORE?')
    shape = ('list', (('dict', ((C('sift_type'), T),)), STORE))
    routes = [('text route', 'to_yaml_text', 'from_yaml_stream', 'yaml.dump', 'yaml.load'),
              ('file route', 'to_yaml_file', 'from_yaml_file', 'yaml.dump_all', 'yaml.load_all')]
    for route, wname, rname, wfun, rfun in routes:
        w = P.func(cls + wname)
        r = P.func(cls + rname)
        # writer: which yaml function receives the payload
        used = None
        for c in P.calls_in(w):
            d = P.resolve(w.module, c.func, w)
            if d in ('yaml.dump', 'yaml.dump_all', 'yaml.safe_dump', 'yaml.safe_dump_all') and c.args:
                a0 = c.args[0]
                if isinstance(a0, ast.Call):
                    ca = P.resolve_callee(w.module, w, a0.func)
                    if ca.kind == 'repo' and ca.func is safe:
                        used = d
        if used is None:
            ctx.undecided(rid, w, '%s: writer' % route, 'cannot find yaml dump of the safe payload')
            continue
        multi = used.endswith('_all')
        # reader
        ev = Evaluator(P)
        rexits = ev.run(r)
        ctx.paths += len(rexits)
        verdicts = []
        for e in rexits:
            if e.kind != 'return':
                continue
            # what does the yaml call of the reader produce, given what the writer wrote?
            loads = [x for x in subterms(('tuple', tuple(v for v in e.state.env.values() if isinstance(v, tuple))))
                     if x[0] == 'call' and x[1] in ('yaml.load', 'yaml.load_all', 'yaml.safe_load', 'yaml.safe_load_all',
                                                    'yaml.full_load', 'yaml.full_load_all')]
            loads += [x for c, _, _ in e.state.conds for x in subterms(c)
                      if x[0] == 'call' and x[1].startswith('yaml.') and 'load' in x[1]]
            if not loads:
                continue
            ld = loads[0]
            rmulti = ld[1].endswith('_all')
            if ld[1] in ('yaml.load', 'yaml.load_all') and 'Loader' not in dict(ld[3]) and len(ld[2]) < 2:
                verdicts.append((False, '%s is called without a Loader: PyYAML >= 6 raises TypeError, earlier versions fall back '
                                 'to an unsafe default with a warning' % ld[1]))
                continue
            if multi and rmulti:
                doc = shape                      # list of documents == payload elements
            elif (not multi) and (not rmulti):
                doc = shape                      # one document holding the whole payload
            elif multi and not rmulti:
                verdicts.append((False, 'writer emits two documents (dump_all) but the reader loads a single one'))
                continue
            else:
                doc = ('list', (shape,))
            mp = {x: doc for x in loads}
            # keep only paths whose conditions are consistent with that document
            consistent = True
            evt = Evaluator(P)
            from ..paths import State
            for c, truth, ln in e.state.conds:
                c2 = simplify(substitute(c, mp))
                v = evt.truth(c2, State())
                if v is not None and v != truth:
                    consistent = False
            if not consistent:
                continue
            ret = e.value
            rname_var = None
            # the attributes set on the object that is returned, whatever the local variable holding it is called
            holders = [k_ for k_, v_ in e.state.env.items() if '.' not in k_ and v_ == ret
                       and (k_ + '.store') in e.state.env] or ['ret']
            hn = holders[0]
            st = simplify(substitute(e.state.env.get(hn + '.store', S('?unset')), mp))
            ty = simplify(substitute(e.state.env.get(hn + '.sift_type', S('?unset')), mp))
            ok = (st == STORE and ty == T)
            verdicts.append((ok, 'store <- %s, sift_type <- %s' % (show(st)[:60], show(ty)[:40])))
        c = '%s: %s/%s recover sift_type and the option store' % (route, wname, rname)
        if not verdicts:
            ctx.undecided(rid, r, c, 'no consistent reader path')
        elif all(v[0] for v in verdicts):
            ctx.passed(rid, r, c, '; '.join(v[1] for v in verdicts))
        else:
            bad = [v for v in verdicts if not v[0]][0]
            ctx.violation(rid, r, c, 'reading back what %s wrote does not restore the configuration: %s'
                          % (wname, bad[1]), expected='store <- STORE, sift_type <- T', found=bad[1])
        ctx.passed(rid, w, '%s: writer emits %s' % (route, 'one document per payload element' if multi
                                                    else 'one document holding [type, store]'), used)


# ----------------------------------------------------------------------------------------------
def rule_export_purity(ctx, rid):
    from ..effects import MutationAnalysis
    P = ctx.P
    ma = MutationAnalysis(P)
    safe = P.func('emd.sift.SiftConfig._get_yamlsafe_dict')
    c = 'YAML export does not modify the live store'
    res = ma.mutates_attr_of_self(safe, 'store')
    if res:
        ctx.violation(rid, safe, c, 'producing YAML changes the configuration it exports: ' + res[0],
                      node=res[1], path=res[2])
    else:
        ctx.passed(rid, safe, c, 'the payload is built from a deep-fresh copy or by a non-mutating conversion')


def rule_registry(ctx, rid):
    P = ctx.P
    gc = P.func('emd.sift.get_config')
    for n in walk_local(gc.node):
        if isinstance(n, ast.Assign) and len(n.targets) == 1 and isinstance(n.targets[0], ast.Name) \
                and n.targets[0].id == 'sift_types':
            try:
                names = ast.literal_eval(n.value)
            except Exception:
                continue
            for name in names:
                if 'emd.sift.' + name not in P.funcs:
                    ctx.note(rid, gc, 'registry name %s resolves' % name,
                             "get_config('%s') passes the registry test and then raises AttributeError" % name, node=n)


def rule_yaml_safe(ctx, rid):
    """Conversion table of the YAML-safe export: ndarray -> .tolist() (plain python scalars all the way down),
    tuple -> list, dict -> recursive conversion, anything else unchanged.  list(ndarray) keeps numpy scalars, which
    yaml.dump writes as python-object tags that FullLoader refuses to read back.  The table is read from the
    evaluated paths, so a loop with if/elif and a dict comprehension with conditional expressions look the same."""
    P = ctx.P
    fi = P.func('emd.sift._array_or_tuple_to_list')
    exits = [e for e in Evaluator(P).run(fi) if e.kind == 'return']
    ctx.paths += len(exits)
    cases = []          # ([(type name, truth)], value term, element term)

    def types_of(c):
        if c[0] == 'call' and c[1] == 'builtins.isinstance' and len(c[2]) == 2:
            ty = c[2][1]
            tys = ty[1] if ty[0] == 'tuple' else (ty,)
            return c[2][0], [t[1] for t in tys if t[0] == 'ref']
        return None, []
    for e in exits:
        for ls in e.state.loops:
            if ls.kind != 'for':
                continue
            for kind, b in ls.body_states:
                tests = []
                for c, truth, ln in b.conds:
                    el, tys = types_of(c)
                    if tys:
                        tests.append((tuple(tys), truth, el))
                for eff in b.effects:
                    if eff[0] == 'setitem':
                        cases.append((tests, eff[3]))
        v = e.value
        if v[0] == 'comp' and v[1] == 'dict':
            val = v[2][1][1]

            def walk(t, tests):
                if t[0] == 'ifexp':
                    el, tys = types_of(t[1])
                    if tys:
                        walk(t[2], tests + [(tuple(tys), True, el)])
                        walk(t[3], tests + [(tuple(tys), False, el)])
                        return
                cases.append((tests, t))
            walk(val, [])
            # ... or the value goes through a small helper with the if-chain: its return paths are the cases
            hv = val
            if hv[0] == 'call' and hv[1] in P.funcs and hv[1] != fi.qualname:
                h = P.funcs[hv[1]]
                cases[:] = [cs for cs in cases if cs[1] is not val]
                for he in Evaluator(P).run(h):
                    if he.kind != 'return':
                        continue
                    tests = []
                    for c, truth, ln in he.state.conds:
                        el, tys = types_of(c)
                        if tys:
                            tests.append((tuple(tys), truth, el))
                    cases.append((tests, he.value))
    want = {'numpy.ndarray': ('arrays are converted with .tolist()',
                              lambda el, v: v == ('meth', 'tolist', el, (), ())),
            'builtins.tuple': ('tuples become lists',
                               lambda el, v: v in (('call', 'builtins.list', (el,), ()), ('meth', 'tolist', el, (), ()))),
            'builtins.dict': ('nested dicts are converted recursively',
                              lambda el, v: v[0] == 'call' and v[1] == fi.qualname and el in set(subterms(v)))}
    KINDS = set(want)

    def live_kinds(tests):
        # which kinds of value reach this case: the isinstance tests of the path (single types or tuples of types,
        # taken or not taken) narrow {ndarray, tuple, dict, anything else}
        live = set(KINDS) | {'other'}
        for tys, truth, el in tests:
            known = set(tys) & KINDS
            if truth:
                live &= known | ({'other'} if set(tys) - KINDS else set())
            else:
                live -= known
        return live
    for ty, (text, ok) in want.items():
        c = 'YAML-safe export: ' + text
        hit = None
        for tests, val in cases:
            els = [t[2] for t in tests]
            if ty in live_kinds(tests) and els:
                if hit is None or not ok(els[0], val):
                    hit = (els[0], val)
        if hit is None:
            ctx.violation(rid, fi, c, 'no conversion for %s: such option values cannot be written / read back' % ty)
        elif ok(hit[0], hit[1]):
            ctx.passed(rid, fi, c, show(hit[1])[:60])
        else:
            ctx.violation(rid, fi, c, '%s values are converted by `%s`%s' % (
                ty, show(hit[1])[:60], ': numpy scalars survive and the YAML cannot be loaded again'
                if ty == 'numpy.ndarray' else ''), expected='val.tolist()' if ty == 'numpy.ndarray' else None,
                found=show(hit[1])[:80])


def rule_list_like_options(ctx, rid):
    """A configuration read back from YAML holds lists where the original held tuples or arrays.  A type test on an
    option that singles out np.ndarray or tuple without also accepting list makes the reloaded configuration take a
    different branch (an array of per-IMF mask amplitudes becomes a "scalar")."""
    P = ctx.P
    SEQ = {'numpy.ndarray', 'builtins.tuple'}
    n = 0
    option_names = set()
    for v in VARIANTS:
        option_names |= set(P.func('emd.sift.' + v).all_formals()[1:])
    for stage_q in STAGES.values():
        option_names |= set(P.func(stage_q).all_formals()[1:])
    for q, fi in sorted(P.funcs.items()):
        if fi.module.name != 'emd.sift' or fi.cls is not None or fi.name == '_array_or_tuple_to_list':
            continue
        formals = set(fi.all_formals()) & option_names
        for c in P.calls_in(fi):
            if not (isinstance(c.func, ast.Name) and c.func.id == 'isinstance' and len(c.args) == 2
                    and isinstance(c.args[0], ast.Name) and c.args[0].id in formals):
                continue
            tnode = c.args[1]
            tys = [P.resolve(fi.module, t, fi) for t in (tnode.elts if isinstance(tnode, ast.Tuple) else [tnode])]
            n += 1
            cst = 'type test on option %s treats list like tuple / ndarray' % c.args[0].id
            if set(tys) & SEQ and 'builtins.list' not in tys:
                ctx.violation(rid, fi, cst, 'isinstance(%s, %s) accepts %s but not list: after a YAML round trip the '
                              'option is a list and takes the other branch' % (c.args[0].id, unparse(tnode),
                                                                               ' / '.join(sorted(set(tys) & SEQ))),
                              node=c)
            else:
                ctx.passed(rid, fi, cst, unparse(tnode), node=c)
    ctx.cover['option_type_tests'] = n
