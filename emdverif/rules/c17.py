"""C17 - feature matching returns a valid one-to-one pairing (partly)."""
import ast

from ..model import AnalysisError, unparse, walk_local
from ..paths import Evaluator, is_c, show, C, S, NONE, subterms
from .common import trace_tail

PROPERTY = 'C17'
EXPLANATION = (
    "R1 index spaces: the occurrence lookup _unique_inds must return index sets in the row space of its argument; an "
    "array that was sorted (in place or by np.sort) has the index space 'positions in the sorted copy', so "
    "where(sorted == v) used as row indices of the distance / neighbour matrices is a violation. "
    "R3: within one neighbour column the rows marked as claimants are one index per unique candidate, the argmin over "
    "that candidate's occurrences (an equality test against the minimum would mark every tying row). R2 provenance and "
    "range: each entry of the final assignment is either inds[i, winner[i]] under the guard '< y.shape[0]' (cKDTree "
    "marks missing neighbours with n) or -1; x_inds = where(final > -1), y_inds = final[x_inds] (equal length by "
    "construction); K and the distance bound reach the tree query. R1 also enumerates every weak ordering of up to 4 "
    "(thorough: 5) values and interprets the return term of _unique_inds on it: distinct values, each with exactly its "
    "positions. R4: a claimant row is marked only when its candidate is a member (== summed along the candidate axis, "
    "or isin) of the column's candidates not matched earlier; that record is extended with every column's matches; "
    "the assignment vector is integer typed; the rows marked in the claim matrix are the rows whose candidates are "
    "recorded. Global injectivity then follows by composition (R3: one row per candidate and column; R4: a candidate "
    "recorded in one column is inadmissible in every later one, and everything marked is recorded; R2: a row's result "
    "is the candidate of its single marked column). Not decided: K=1 (scipy returns 1-D arrays); that the "
    "tree query itself honours k and the distance bound (trusted scipy).")
RULE_TEXT = "one obligation per clause of the matcher"
FLOORS = {'C17.R1': 2, 'C17.R2': 4, 'C17.R3': 1, 'C17.R4': 3}
PINNED_EXPECT = [('C17.R1', 'emd.cycles._unique_inds', 'row space')]

ROW_PRESERVING = {'numpy.asanyarray', 'numpy.asarray', 'numpy.array', 'numpy.ravel'}
ROW_PRESERVING_M = {'flatten', 'ravel', 'copy', 'astype', 'squeeze'}
SORTING = {'numpy.sort', 'numpy.unique', 'numpy.argsort', 'builtins.sorted', 'numpy.msort'}


def run(ctx):
    ctx.rule(rule_index_space, 'C17.R1')
    ctx.rule(rule_provenance, 'C17.R2')
    ctx.rule(rule_one_claimant, 'C17.R3')
    ctx.rule(rule_admissible, 'C17.R4')


def _space(t, param):
    """'rows' if t denotes the argument in its own row order, 'sorted' if reordered, None if unrelated."""
    if t == S(param):
        return 'rows'
    if t[0] == 'call' and t[1] in ROW_PRESERVING and t[2]:
        return _space(t[2][0], param)
    if t[0] == 'meth' and t[1] in ROW_PRESERVING_M:
        return _space(t[2], param)
    if t[0] == 'mut' and t[1] == 'sort':
        return 'sorted' if _space(t[2], param) else None
    if t[0] == 'call' and t[1] in SORTING and t[2]:
        return 'sorted' if _space(t[2][0], param) else None
    return None


def rule_index_space(ctx, rid):
    P = ctx.P
    fi = P.func('emd.cycles._unique_inds')
    param = fi.params[0]
    exits = [e for e in Evaluator(P).run(fi) if e.kind == 'return']
    ctx.paths += len(exits)
    c = 'occurrence index sets are in the row space of the argument'
    bad = None
    n = 0
    for e in exits:
        v = e.value
        if not (v[0] == 'tuple' and len(v[1]) == 2):
            bad = 'unexpected return shape %s' % show(v)[:60]
            continue
        inds = v[1][1]
        n_here = 0
        wheres = [t for t in subterms(inds) if t[0] == 'call' and t[1] in ('numpy.where', 'numpy.nonzero',
                                                                             'numpy.flatnonzero')]
        for w in wheres:
            cnd = w[2][0]
            if cnd[0] == 'cmp':
                for side in (cnd[2], cnd[3]):
                    sp = _space(side, param)
                    if sp is not None:
                        n_here += 1
                        if sp == 'sorted':
                            bad = ('np.where(%s == v) is computed on the sorted copy: the positions are ranks in '
                                   'sorted order, but the caller uses them as row indices of the unsorted column'
                                   % show(side)[:40])
        # index sets built from positions (np.arange / np.split / np.flatnonzero of the run mask) are ranks in the
        # sorted copy unless they are composed with np.argsort of the argument - checked on every return path
        pos = [t for t in subterms(inds) if t[0] == 'call' and t[1] in ('numpy.arange', 'numpy.split', 'numpy.array_split')]
        srt = [t for t in subterms(inds) if t[0] == 'call' and t[1] == 'numpy.argsort'
               and t[2] and _space(t[2][0], param) == 'rows']
        if pos and not srt and not any(t[1] == 'numpy.where' for t in wheres if _space(t[2][0][2], param) == 'rows'
                                       if t[2][0][0] == 'cmp'):
            bad = ('on one path the index sets are pieces of np.arange(n), i.e. positions in the sorted copy, not row '
                   'numbers of the argument (no np.argsort of the argument maps them back)')
            n_here += 1
        elif srt:
            n_here += 1
        n += n_here
    if bad:
        ctx.violation(rid, fi, c, bad, expected='where(<argument in original order> == v)', found=bad)
    elif n == 0:
        ctx.undecided(rid, fi, c, 'cannot find the occurrence lookup')
    else:
        ctx.passed(rid, fi, c, '%d lookup(s) on the argument in original order' % n)
    # exhaustive over order patterns: the routine only compares values, so its result on n elements is determined by
    # their weak ordering
    from ..orderval import OrderEval, weak_orderings, Undecided as OUndecided
    c2 = 'for every ordering of up to %d values: the distinct values, each with exactly its positions in the argument'
    nmax = 5 if ctx.tier == 'thorough' else 4
    c2 = c2 % nmax
    npat = 0
    problem = None
    try:
        for n_ in range(1, nmax + 1):
            for pat in weak_orderings(n_):
                npat += 1
                got = None
                for e in exits:
                    oe = OrderEval({S(param): list(pat)})
                    if all(bool(oe.ev(cd)) == tr for cd, tr, ln in e.state.conds):
                        try:
                            got = oe.ev(e.value)
                        except IndexError as ie:
                            problem = 'argument %s: %s' % (pat, ie)
                        break
                if problem:
                    break
                want_vals = sorted(set(pat))
                want_inds = [[i for i, x in enumerate(pat) if x == v] for v in want_vals]
                if got is None or not (isinstance(got, tuple) and len(got) == 2):
                    raise OUndecided('no return path selected for %s' % pat)
                vals, inds_ = list(got[0]), [list(x) for x in got[1]]
                if vals != want_vals:
                    problem = 'argument %s: values returned %s, distinct values are %s' % (pat, vals, want_vals)
                elif inds_ != want_inds:
                    problem = 'argument %s: occurrence sets %s, expected %s' % (pat, inds_, want_inds)
                if problem:
                    break
            if problem:
                break
    except OUndecided as u:
        ctx.undecided(rid, fi, c2, 'return term outside the interpreted fragment: %s' % u)
        problem = False
    if problem:
        ctx.violation(rid, fi, c2, problem)
    elif problem is None:
        ctx.passed(rid, fi, c2, '%d order patterns' % npat)
    # the consumer indexes rows of D / inds with these sets
    km = P.func('emd.cycles.kdt_match')
    uses = [n for n in walk_local(km.node) if isinstance(n, ast.Call) and isinstance(n.func, ast.Name)
            and n.func.id == '_unique_inds']
    if uses:
        a = uses[0].args[0]
        ctx.note(rid, km, 'consumer of _unique_inds', 'called on %s; its index sets address rows of D and inds'
                 % unparse(a), node=uses[0])


def rule_provenance(ctx, rid):
    P = ctx.P
    fi = P.func('emd.cycles.kdt_match')
    exits = [e for e in Evaluator(P).run(fi) if e.kind == 'return']
    ctx.paths += len(exits)
    c1 = 'final[i] is inds[i, winner[i]] under the range guard, else -1'
    c2 = 'x_inds = where(final > -1), y_inds = final[x_inds]'
    c3 = 'K and distance_upper_bound reach the tree query'
    if not exits:
        for c in (c1, c2, c3):
            ctx.undecided(rid, fi, c, 'no return path')
        return
    bad1 = None
    n1 = 0
    markers = set()
    for e in exits:
        # the assignment vector is the loop-filled array the returned index vectors are read from (found by role)
        finals = {t[1].split('@')[0] for t in subterms(e.value) if t[0] == 's' and '@F' in t[1]}
        for ls in e.state.loops:
            if ls.kind != 'for':
                continue
            for kind, b in ls.body_states:
                for eff in b.effects:
                    if eff[0] == 'setitem' and eff[5] in finals and eff[2] == ls.var:
                        n1 += 1
                        val = eff[3]
                        if is_c(val) and isinstance(val[1], int) and not isinstance(val[1], bool) and val[1] < 0:
                            markers.add(val[1])     # "no match": any negative number the final filter rejects
                            continue
                        # inds[ii, winner[ii]]
                        ok = val[0] == 'sub' and val[2][0] == 'tuple' and val[2][1][0] == ls.var \
                            and val[2][1][1][0] == 'sub' and val[2][1][1][2] == ls.var
                        if not ok:
                            bad1 = 'final[i] <- %s' % show(val)[:60]
                            continue
                        guard = False
                        for cnd, truth, ln in b.conds:
                            if truth and cnd[0] == 'cmp' and cnd[1] == '<' and cnd[2] == val \
                                    and show(cnd[3]).endswith('.shape[0]'):
                                if _is_tree_size(cnd[3], val):
                                    guard = True
                                else:
                                    bad1 = 'the neighbour index is tested against %s, not against the number of points ' \
                                           'of the searched set (the value the tree returns for "no neighbour")' % show(cnd[3])[:40]
                        if not guard and not bad1:
                            bad1 = 'a neighbour index is accepted without the `< y.shape[0]` range guard'
    if n1 == 0 and not bad1:
        # vectorised form:  final = np.full(n, -1); final[good] = W[good]  with  W = inds[arange(n), winner]  and
        # `W < y.shape[0]` among the conjuncts of `good`
        v = exits[0].value
        fin = None
        if v[0] == 'tuple' and len(v[1]) == 2 and v[1][0][0] == 'sub' and v[1][0][1][0] == 'call' \
                and v[1][0][1][1] == 'numpy.where' and v[1][0][1][2][0][0] == 'cmp':
            fin = v[1][0][1][2][0][2]
        if fin is not None and fin[0] == 'call' and fin[1] == 'numpy.where' and len(fin[2]) == 3 and fin[2][2] == C(-1):
            # np.where(good, W, -1)  ==  (-1 vector)[good] = W[good]
            fin = ('setitem', ('call', 'numpy.full', (C(0), C(-1)), ()), fin[2][0], ('sub', fin[2][1], fin[2][0]))
        if fin is not None and fin[0] == 'setitem' and fin[1][0] == 'call' and fin[1][1] == 'numpy.full' \
                and len(fin[1][2]) >= 2 and fin[1][2][1] == C(-1):
            mask, val = fin[2], fin[3]
            n1 = 1
            W = val[1] if val[0] == 'sub' and val[2] == mask else None
            conj = []

            def flat(m):
                if m[0] == 'bin' and m[1] == '&':
                    flat(m[2])
                    flat(m[3])
                elif m[0] == 'call' and m[1] == 'numpy.logical_and':
                    for x in m[2]:
                        flat(x)
                else:
                    conj.append(m)
            flat(mask)
            if W is None:
                bad1 = 'final[good] <- %s (not the winners under the same mask)' % show(val)[:60]
            elif not (W[0] == 'sub' and W[2][0] == 'tuple' and len(W[2][1]) == 2 and W[2][1][0][0] == 'call'
                      and W[2][1][0][1] == 'numpy.arange'
                      and any(t[0] == 'meth' and t[1] == 'query' for t in subterms(W[1]))):
                bad1 = 'the assigned values are not inds[i, winner[i]]: %s' % show(W)[:60]
            elif any(cj[0] == 'cmp' and cj[1] == '<' and cj[2] == W and show(cj[3]).endswith('.shape[0]')
                     and not _is_tree_size(cj[3], W) for cj in conj):
                bad1 = 'the neighbour index is tested against another array\'s length, not against the number of points of ' \
                       'the searched set'
            elif not any(cj[0] == 'cmp' and cj[1] == '<' and cj[2] == W and show(cj[3]).endswith('.shape[0]')
                         for cj in conj):
                bad1 = 'a neighbour index is accepted without the `< y.shape[0]` range guard'
    if bad1:
        ctx.violation(rid, fi, c1, bad1)
    elif n1 == 0:
        ctx.undecided(rid, fi, c1, 'no assignment to the final vector found')
    else:
        ctx.passed(rid, fi, c1, '%d assignment states' % n1)
    v = exits[0].value
    ok2 = False
    if v[0] == 'tuple' and len(v[1]) == 2:
        xi, yi = v[1]
        # np.where(<1-D condition>) is a 1-tuple: [0] and [-1] are the same element
        ok2 = xi[0] == 'sub' and xi[2] in (C(0), C(-1)) and xi[1][0] == 'call' and xi[1][1] == 'numpy.where' \
            and xi[1][2][0][0] == 'cmp' and yi == ('sub', xi[1][2][0][2], xi)
        if ok2:
            import operator
            op, k = xi[1][2][0][1], xi[1][2][0][3]
            OPS_ = {'>': operator.gt, '>=': operator.ge, '!=': operator.ne}
            ok2 = op in OPS_ and is_c(k) and isinstance(k[1], int)
            if ok2:
                # every neighbour index (0, 1, 2, ...) passes the filter, every "no match" marker fails it
                ok2 = all(OPS_[op](i, k[1]) for i in range(0, 6)) and all(not OPS_[op](m_, k[1]) for m_ in (markers or {-1}))
    if ok2:
        ctx.passed(rid, fi, c2)
    else:
        ctx.violation(rid, fi, c2, 'returned %s' % show(v)[:120])
    # on every return path the neighbour table (distances and indices) is the cKDTree query with the caller's K and
    # bound: another source (brute force on squared distances, a cached table) has its own conventions
    ok3 = True
    why3 = None
    for e in exits:
        q = [t for t in subterms(('tuple', (e.value,) + tuple(x for x in e.state.env.values() if isinstance(x, tuple))))
             if t[0] == 'meth' and t[1] == 'query']
        good = [t for t in q if dict(t[4]).get('k', t[3][1] if len(t[3]) > 1 else None) == S('K')
                and dict(t[4]).get('distance_upper_bound') == S('distance_upper_bound')
                and t[2][0] == 'call' and t[2][1].endswith('cKDTree')]
        approx = [t for t in good if dict(t[4]).get('eps', C(0)) not in (C(0), C(0.0))
                  or dict(t[4]).get('p', C(2)) not in (C(2), C(2.0))]
        if approx:
            ok3 = False
            why3 = 'the neighbour search is not the exact Euclidean one: %s (with eps > 0 the tree may return a point ' \
                   'that is not among the K nearest; p changes the metric)' % show(approx[0])[-90:]
            continue
        if not good:
            ok3 = False
            why3 = 'a path builds the neighbour table without cKDTree(y).query(x, k=K, distance_upper_bound=...): %s' \
                % (show(q[0])[:80] if q else 'no tree query on this path (conditions: %s)' % '; '.join(
                    '%s=%s' % (show(cn)[:40], t_) for cn, t_, _ in e.state.conds[:2]))
    if ok3:
        ctx.passed(rid, fi, c3, '%d return path(s)' % len(exits))
    else:
        ctx.violation(rid, fi, c3, why3)
    # loop over K columns
    ok4 = any(ls.kind == 'for' and ls.iter_term == ('call', 'builtins.range', (S('K'),), ())
              for e in exits for ls in e.state.loops)
    c4 = 'candidate columns 0..K-1 are all examined'
    if ok4:
        ctx.passed(rid, fi, c4)
    else:
        ctx.violation(rid, fi, c4, 'no loop over range(K)')


def rule_one_claimant(ctx, rid):
    """Within one neighbour column a candidate (row of y) is claimed by exactly one row of x: the rows marked for the
    column are one index per unique candidate, namely the occurrence with the smallest distance (argmin picks one
    even on ties).  A selection by an equality test (`D == best`) marks every tying row."""
    P = ctx.P
    fi = P.func('emd.cycles.kdt_match')
    exits = [e for e in Evaluator(P).run(fi) if e.kind == 'return']
    c = 'one claimant per candidate and neighbour column (argmin over the occurrences, ties included)'
    verdicts = []
    for e in exits:
        for ls in e.state.loops:
            if ls.kind != 'for' or not (ls.iter_term[0] == 'call' and ls.iter_term[1] == 'builtins.range'
                                        and ls.iter_term[2] == (S('K'),)):
                continue
            for kind, b in ls.body_states:
                for eff in b.effects:
                    if eff[0] != 'setitem' or eff[1][0] != 'call' or eff[1][1] not in ('numpy.zeros', 'numpy.zeros_like'):
                        continue
                    idx = eff[2]
                    verdicts.append(_claimants(idx, ls.var))
    if not verdicts:
        ctx.undecided(rid, fi, c, 'no per-column marking of claimants found')
    elif any(v[0] == 'bad' for v in verdicts):
        ctx.violation(rid, fi, c, [v[1] for v in verdicts if v[0] == 'bad'][0])
    elif any(v[0] == 'unknown' for v in verdicts):
        ctx.undecided(rid, fi, c, [v[1] for v in verdicts if v[0] == 'unknown'][0])
    else:
        ctx.passed(rid, fi, c, '%d marking state(s)' % len(verdicts))


def _is_tree_size(bound, val):
    """bound is the number of points of the set the neighbour indices in `val` refer to: Y.shape[0] for the array Y
    the cKDTree behind `val` was built on (None-safe: True when no tree construction is visible in the term)"""
    from ..poly import _shape_only_index
    trees = [t for t in subterms(val) if t[0] == 'call' and t[1].endswith('cKDTree') and t[2]]
    if not trees:
        return True
    ok = False

    def strip(a):
        while a[0] == 'sub' and _shape_only_index(a[2]):
            a = a[1]
        return a
    # the same array with or without its singleton axis has the same number of rows
    if bound[0] == 'sub' and bound[2] == C(0) and bound[1][0] == 'attr' and bound[1][2] == 'shape':
        bound = ('sub', ('attr', strip(bound[1][1]), 'shape'), C(0))
    elif bound[0] == 'call' and bound[1] == 'builtins.len' and len(bound[2]) == 1:
        bound = ('call', 'builtins.len', (strip(bound[2][0]),), ())
    for t in trees:
        Y = strip(t[2][0])
        if bound in (('sub', ('attr', Y, 'shape'), C(0)), ('call', 'builtins.len', (Y,), ()), ('attr', t, 'n')):
            ok = True
    return ok


def _claimants(idx, col):
    from .common import unzip_comp, flatten_comp, fold_comp_index
    idx = fold_comp_index(unzip_comp(flatten_comp(idx)))
    if idx[0] == 'comp' and len(idx[3]) == 1 and not idx[3][0][2]:
        elt = idx[2]
        if elt[0] == 'sub':
            occ, k = elt[1], elt[2]
            # any single position among the occurrences is one claimant (the closest one is the documented choice, but
            # the pairing stays one-to-one and within the K nearest neighbours for the farthest one too)
            mins = [t for t in subterms(k) if (t[0] == 'call' and t[1] in ('numpy.argmin', 'numpy.nanargmin', 'numpy.argmax'))
                    or (t[0] == 'meth' and t[1] in ('argmin', 'argmax'))]
            if mins:
                arg = mins[0][2][0] if mins[0][0] == 'call' else mins[0][2]
                if arg[0] == 'sub' and arg[2][0] == 'tuple' and len(arg[2][1]) == 2 and arg[2][1][0] == occ \
                        and arg[2][1][1] == col:
                    return ('ok', '')
                return ('bad', 'the closest occurrence is not searched among the distances of that candidate\'s own '
                        'occurrences in this column: %s' % show(arg)[:80])
        return ('unknown', 'cannot read the per-candidate selection %s' % show(elt)[:80])
    # a boolean selection `occ[D == D.min()]` keeps every tie as well
    def is_min(t_):
        return (t_[0] == 'meth' and t_[1] in ('min', 'max')) or (
            t_[0] == 'call' and t_[1] in ('numpy.min', 'numpy.amin', 'numpy.nanmin', 'builtins.min', 'numpy.max'))
    eqm = [t for t in subterms(idx) if t[0] == 'sub' and t[2][0] == 'cmp' and t[2][1] in ('==', '<=', '>=')
           and (is_min(t[2][2]) or is_min(t[2][3]))]
    if eqm:
        return ('bad', 'claimants are selected by comparing every distance with the smallest one (%s): every row that ties '
                'for it claims the same candidate, so one row of y can be matched twice' % show(eqm[0][2])[:90])
    eqs = [t for t in subterms(idx) if t[0] == 'call' and t[1] == 'numpy.where' and t[2] and t[2][0][0] == 'cmp'
           and t[2][0][1] == '==']
    if eqs:
        return ('bad', 'claimants are selected by an equality test (%s): every row that ties for the smallest '
                'distance claims the same candidate, so one row of y can be matched twice' % show(eqs[0])[:90])
    return ('unknown', 'cannot read the rows marked for the column: %s' % show(idx)[:80])


# ----------------------------------------------------------------------------------------------
# C17.R4: a row claims its candidate only if the candidate is still admissible (not matched in an earlier column)
def _int_typed(alloc):
    """True / False / None: is the allocated assignment vector integer typed?"""
    INTS = {('ref', 'builtins.int'), ('ref', 'numpy.int64'), ('ref', 'numpy.int32'), ('ref', 'numpy.intp'),
            ('ref', 'numpy.int_'), C('int'), C('int64'), C('intp'), C('i8')}
    FLOATS = {('ref', 'builtins.float'), ('ref', 'numpy.float64'), ('ref', 'numpy.float32'), C('float'), NONE}
    t = alloc
    while True:
        if t[0] == 'meth' and t[1] == 'astype':
            dt = t[3][0] if t[3] else dict(t[4]).get('dtype')
            return True if dt in INTS else (False if dt in FLOATS else None)
        if t[0] == 'bin' and t[1] in ('-', '+', '*') and (is_c(t[3]) and isinstance(t[3][1], int) or is_c(t[2]) and isinstance(t[2][1], int)):
            t = t[2] if not is_c(t[2]) else t[3]
            continue
        if t[0] == 'un' and t[1] == '-':
            t = t[2]
            continue
        break
    if t[0] == 'call' and t[1] in ('numpy.zeros', 'numpy.ones', 'numpy.empty'):
        dt = dict(t[3]).get('dtype', t[2][1] if len(t[2]) > 1 else NONE)
        return True if dt in INTS else (False if dt in FLOATS else None)
    if t[0] == 'call' and t[1] == 'numpy.full':
        dt = dict(t[3]).get('dtype', t[2][2] if len(t[2]) > 2 else None)
        if dt is not None:
            return True if dt in INTS else (False if dt in FLOATS else None)
        fv = t[2][1] if len(t[2]) > 1 else dict(t[3]).get('fill_value')
        if fv is not None and is_c(fv):
            return isinstance(fv[1], int) and not isinstance(fv[1], bool)
        if fv is not None and fv[0] == 'un' and is_c(fv[2]):
            return isinstance(fv[2][1], int)
        return None
    if t[0] == 'call' and t[1] in ('numpy.zeros_like', 'numpy.ones_like', 'numpy.full_like', 'numpy.empty_like'):
        dt = dict(t[3]).get('dtype')
        if dt is not None:
            return True if dt in INTS else (False if dt in FLOATS else None)
        # like the neighbour-index matrix returned by the tree query (integers)
        if t[2] and any(x[0] == 'meth' and x[1] == 'query' for x in subterms(t[2][0])) and t[2][0][0] == 'sub' \
                and t[2][0][2] == C(1):
            return True
        return None
    return None


def rule_admissible(ctx, rid):
    P = ctx.P
    fi = P.func('emd.cycles.kdt_match')
    exits = [e for e in Evaluator(P).run(fi) if e.kind == 'return']
    ctx.paths += len(exits)
    c1 = 'a row is marked for a column only if its candidate is still admissible: membership of inds[row, col] in the ' \
         'candidates not matched in an earlier column'
    c2 = 'the matched candidates of a column are recorded for the following columns'
    c3 = 'the returned indices are integers'
    res1 = res2 = res3 = res4 = None       # ('ok'|'bad'|'unknown', text)
    c4 = 'every row marked for a column has its candidate recorded as matched'
    for e in exits:
        for ls in e.state.loops:
            if ls.kind != 'for':
                continue
            if ls.iter_term[0] == 'call' and ls.iter_term[1] == 'builtins.range' and ls.iter_term[2] == (S('K'),):
                col = ls.var
                for kind, b in ls.body_states:
                    marks = [eff for eff in b.effects if eff[0] == 'setitem' and eff[1][0] == 'call'
                             and eff[1][1] in ('numpy.zeros', 'numpy.zeros_like')]
                    ones = [eff for eff in b.effects if eff[0] == 'setitem' and eff[1][0] == 'call'
                            and eff[1][1] in ('numpy.ones', 'numpy.ones_like')
                            and any(x[0] == 'meth' and x[1] == 'query' for x in subterms(eff[3]))]
                    if not marks and ones:
                        res1 = ('bad', 'the per-column marks start at one (%s): every row that is not a claimant stays marked'
                                % show(ones[0][1])[:50])
                        continue
                    if not marks:
                        continue
                    eff = marks[0]
                    idx, val = eff[2], eff[3]
                    carried = {v for v in ls.head_env.values() if v[0] == 's' and '@F' in v[1] and v != col}
                    res1 = _membership(val, idx, col, carried)
                    # the accumulation of matched candidates
                    upd = []
                    for name, head in ls.head_env.items():
                        if head in carried and b.env.get(name) != head and name not in ('II',):
                            upd.append((name, head, b.env.get(name)))
                    # composition: the rows marked in the claim matrix are the rows whose candidates are recorded
                    for name, head in ls.head_env.items():
                        newv = b.env.get(name)
                        if head in carried and newv is not None and newv[0] == 'mut' and newv[1] in ('extend', 'append') and newv[3]:
                            a_ = newv[3][0]
                            if a_[0] == 'sub' and a_[2][0] == 'tuple' and len(a_[2][1]) == 2 and a_[2][1][1] == col:
                                rows_rec = a_[2][1][0]
                                marks_st = [f for f in b.effects if f[0] == 'setitem' and f[1] in carried and f[2][0] == 'tuple'
                                            and len(f[2][1]) == 2 and f[2][1][1] == col and f[3] in (C(1), C(True))]
                                if marks_st:
                                    if marks_st[0][2][1][0] == rows_rec:
                                        res4 = ('ok', 'claim matrix and record of matched candidates use the same rows')
                                    elif rows_rec == idx:
                                        # all claimants of the column (a superset of the marked rows: the marks are
                                        # zero outside the claimants): over-recording only forgoes matches
                                        res4 = ('ok', 'every claimant of the column is recorded (superset of the marked rows)')
                                    else:
                                        res4 = ('unknown', 'rows marked: %s; rows recorded: %s' % (show(marks_st[0][2][1][0])[:50],
                                                                                                  show(rows_rec)[:50]))
                    used = {t for t in subterms(val) if t in carried}
                    if res1 and res1[0] == 'ok':
                        tracked = [u for u in upd if u[1] in used]
                        if not used:
                            res2 = ('unknown', 'no loop-carried record of matched candidates is consulted')
                        elif not tracked:
                            res2 = ('bad', 'the record of matched candidates (%s) is consulted but never updated in the loop: a '
                                    'candidate matched in one column can be matched again in a later one'
                                    % ', '.join(sorted(h[1].split('@')[0] for h in used)))
                        else:
                            name, head, new = tracked[0]
                            if any(t[0] == 'meth' and t[1] == 'query' for t in subterms(new)) and col in set(subterms(new)):
                                res2 = ('ok', '%s extended with the column\'s matched candidates' % name)
                            else:
                                res2 = ('bad', '%s is updated with %s, not with the candidates matched in this column'
                                        % (name, show(new)[:70]))
            else:
                # the loop that fills the assignment vector
                for name, head in ls.head_env.items():
                    if any(eff[0] == 'setitem' and eff[5] == name and eff[2] == ls.var for kind, b in ls.body_states
                                for eff in b.effects):
                        alloc = ls.entry_env.get(name)
                        if alloc is None:
                            continue
                        ty = _int_typed(alloc)
                        if ty is True:
                            res3 = res3 or ('ok', show(alloc)[:60])
                        elif ty is False:
                            res3 = ('bad', 'the assignment vector is allocated as %s (floating point): y_inds are floats, '
                                    'not valid indices' % show(alloc)[:60])
                        elif res3 is None:
                            res3 = ('unknown', 'allocation %s' % show(alloc)[:60])
    if res3 is None:
        # vectorised assignment: y_inds = FINAL[x_inds] with FINAL built by stores into an allocated vector
        for e in exits:
            v = e.value
            if v[0] == 'tuple' and len(v[1]) == 2 and v[1][1][0] == 'sub':
                fin = v[1][1][1]
                while fin[0] == 'setitem':
                    fin = fin[1]
                if fin[0] == 'call' and fin[1] == 'numpy.where' and len(fin[2]) == 3 and is_c(fin[2][2]) \
                        and isinstance(fin[2][2][1], int) and any(x[0] == 'meth' and x[1] == 'query' for x in subterms(fin[2][1])):
                    res3 = ('ok', 'np.where(good, neighbour index, -1)')
                    continue
                ty = _int_typed(fin)
                if ty is True:
                    res3 = res3 or ('ok', show(fin)[:60])
                elif ty is False:
                    res3 = ('bad', 'the assignment vector is allocated as %s (floating point): y_inds are floats, '
                            'not valid indices' % show(fin)[:60])
                elif res3 is None:
                    res3 = ('unknown', 'allocation %s' % show(fin)[:60])
    for c, r in ((c1, res1), (c2, res2), (c3, res3), (c4, res4)):
        if r is None and c is c4:
            continue        # only claimed for the marking-loop form
        if r is None:
            ctx.undecided(rid, fi, c, 'construct not found')
        elif r[0] == 'ok':
            ctx.passed(rid, fi, c, r[1])
        elif r[0] == 'bad':
            ctx.violation(rid, fi, c, r[1])
        else:
            ctx.undecided(rid, fi, c, r[1])


def _membership(val, idx, col, carried):
    """val: the marks written at the claimant rows idx of column col."""
    def cand_of(t, extra_none):
        # inds[idx, col(, None)]
        if t[0] == 'sub' and t[2][0] == 'tuple' and any(x[0] == 'meth' and x[1] == 'query' for x in subterms(t[1])) \
                and t[1][0] == 'sub' and t[1][2] == C(1):
            parts = t[2][1]
            want = (idx, col, NONE) if extra_none else (idx, col)
            if tuple(parts) == want:
                return True
            if len(parts) >= 2 and parts[1] == col and parts[0] != idx:
                return 'other rows'
            if len(parts) >= 2 and parts[0] == idx and parts[1] != col:
                return 'other column'
        return False
    adm = None
    if val[0] == 'meth' and val[1] in ('sum', 'mean', 'any', 'max'):
        val = ('call', 'numpy.' + val[1], (val[2],) + tuple(val[3]), tuple(val[4]))     # (a == b).sum(axis=1) is np.sum(a == b, axis=1)
    if val[0] == 'call' and val[1] in ('numpy.sum', 'numpy.mean', 'numpy.any', 'numpy.max', 'numpy.count_nonzero') \
            and len(val[2]) >= 1 and val[2][0][0] == 'cmp':       # all of them are non-zero exactly when some pair is equal
        cm = val[2][0]
        ax = dict(val[3]).get('axis', val[2][1] if len(val[2]) > 1 else NONE)
        sides = [(cm[2], cm[3]), (cm[3], cm[2])]
        hit = None
        for a, o in sides:
            r = cand_of(a, True)
            if r:
                hit = (r, o)
        if hit is None:
            return ('unknown', 'marks are %s' % show(val)[:90])
        if hit[0] is not True:
            return ('bad', 'the membership test looks at %s than the claimants of this column' % hit[0])
        if cm[1] != '==':
            return ('bad', 'rows are marked by `candidate %s admissible` instead of equality: a row is marked when its '
                    'candidate differs from some admissible candidate' % cm[1])
        if ax not in (C(1), C(-1)):
            return ('bad', 'the comparison claimants x admissible is summed %s: every claimant gets the total number of '
                    'matches, so rows whose candidate is not admissible are marked too'
                    % ('over all elements' if ax == NONE else 'along axis %s' % show(ax)))
        adm = hit[1]
    elif val[0] == 'call' and val[1] in ('numpy.isin', 'numpy.in1d') and len(val[2]) >= 2:
        r = cand_of(val[2][0], False)
        if r is not True:
            return ('unknown', 'marks are %s' % show(val)[:90])
        if dict(val[3]).get('invert', C(False)) != C(False):
            return ('bad', 'rows are marked when their candidate is NOT admissible (invert=True)')
        adm = val[2][1]
    else:
        return ('unknown', 'marks are %s' % show(val)[:90])
    # admissible = distinct candidates of the column, minus those matched earlier
    filters = []
    t = adm
    while t[0] == 'sub':
        filters.append(t[2])
        t = t[1]
    base_ok = t[0] == 'sub' or (t[0] == 'call' and t[1] in ('emd.cycles._unique_inds', 'numpy.unique'))
    if filters and filters[-1] == C(0) and t[0] == 'call' and t[1] == 'emd.cycles._unique_inds':
        filters = filters[:-1]
        base_ok = True
    if not base_ok:
        return ('unknown', 'admissible candidates are %s' % show(adm)[:90])
    verdict = None
    for f in filters:
        used = {x for x in subterms(f) if x in carried}
        if not used:
            continue
        # polarity of `u in selected`
        pol = None
        core = f
        neg = False
        while True:
            if core[0] == 'cmp' and core[1] == '==' and core[3] in (C(False), C(0)):
                neg = not neg
                core = core[2]
            elif core[0] == 'cmp' and core[1] == '==' and core[3] in (C(True), C(1)):
                core = core[2]
            elif core[0] == 'cmp' and core[1] == '!=' and core[3] in (C(True), C(1)):
                neg = not neg
                core = core[2]
            elif core[0] == 'cmp' and core[1] == '!=' and core[3] in (C(False), C(0)):
                core = core[2]
            elif core[0] == 'un' and core[1] in ('~', 'not'):
                neg = not neg
                core = core[2]
            elif core[0] == 'call' and core[1] in ('numpy.logical_not', 'numpy.invert') and core[2]:
                neg = not neg
                core = core[2][0]
            elif core[0] == 'call' and core[1] in ('numpy.array', 'numpy.asarray') and core[2]:
                core = core[2][0]
            else:
                break
        if core[0] == 'comp' and core[2][0] == 'cmp' and core[2][1] in ('in', 'notin') and core[2][3] in used:
            pol = (core[2][1] == 'notin') != neg
        elif core[0] == 'call' and core[1] in ('numpy.isin', 'numpy.in1d') and len(core[2]) >= 2 and core[2][1] in used:
            inv = dict(core[3]).get('invert', C(False)) == C(True)
            pol = inv != neg
        if pol is True:
            verdict = ('ok', 'membership among the column\'s candidates not in %s' % sorted(u[1].split('@')[0] for u in used))
        elif pol is False:
            return ('bad', 'the admissible candidates are those ALREADY matched in an earlier column (filter %s)' % show(f)[:80])
        else:
            verdict = verdict or ('unknown', 'filter %s' % show(f)[:80])
    if verdict is None:
        return ('bad', 'candidates matched in an earlier column are not removed from the admissible set (%s): the same '
                'row of y can be matched in several columns' % show(adm)[:70])
    return verdict
