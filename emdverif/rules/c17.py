"""C17 - feature matching returns a valid one-to-one pairing (partly)."""
import ast

from ..model import AnalysisError, unparse, walk_local
from ..paths import Evaluator, is_c, show, C, S, NONE, subterms
from .common import trace_tail

PROPERTY = 'C17'
EXPLANATION = (
    "R1 index spaces: the occurrence lookup _unique_inds must return index sets in the row space of its argument; an "
    "array that was sorted (in place or by np.sort) has the index space 'positions in the sorted copy', so "
    "where(sorted == v) used as row indices of the distance / neighbour matrices is a violation. "
    "R3: within one neighbour column the rows marked as claimants are one index per unique candidate, the argmin over "
    "that candidate's occurrences (an equality test against the minimum would mark every tying row). R2 provenance and "
    "range: each entry of the final assignment is either inds[i, winner[i]] under the guard '< y.shape[0]' (cKDTree "
    "marks missing neighbours with n) or -1; x_inds = where(final > -1), y_inds = final[x_inds] (equal length by "
    "construction); K and the distance bound reach the tree query. Not decided: global injectivity of the greedy "
    "column-by-column assignment; K=1 (scipy returns 1-D arrays).")
RULE_TEXT = "one obligation per clause of the matcher"
FLOORS = {'C17.R1': 1, 'C17.R2': 4, 'C17.R3': 1}
PINNED_EXPECT = [('C17.R1', 'emd.cycles._unique_inds', 'row space')]

ROW_PRESERVING = {'numpy.asanyarray', 'numpy.asarray', 'numpy.array', 'numpy.ravel'}
ROW_PRESERVING_M = {'flatten', 'ravel', 'copy', 'astype', 'squeeze'}
SORTING = {'numpy.sort', 'numpy.unique', 'numpy.argsort', 'builtins.sorted', 'numpy.msort'}


def run(ctx):
    ctx.rule(rule_index_space, 'C17.R1')
    ctx.rule(rule_provenance, 'C17.R2')
    ctx.rule(rule_one_claimant, 'C17.R3')


def _space(t, param):
    """'rows' if t denotes the argument in its own row order, 'sorted' if reordered, None if unrelated."""
    if t == S(param):
        return 'rows'
    if t[0] == 'call' and t[1] in ROW_PRESERVING and t[2]:
        return _space(t[2][0], param)
    if t[0] == 'meth' and t[1] in ROW_PRESERVING_M:
        return _space(t[2], param)
    if t[0] == 'mut' and t[1] == 'sort':
        return 'sorted' if _space(t[2], param) else None
    if t[0] == 'call' and t[1] in SORTING and t[2]:
        return 'sorted' if _space(t[2][0], param) else None
    return None


def rule_index_space(ctx, rid):
    P = ctx.P
    fi = P.func('emd.cycles._unique_inds')
    param = fi.params[0]
    exits = [e for e in Evaluator(P).run(fi) if e.kind == 'return']
    ctx.paths += len(exits)
    c = 'occurrence index sets are in the row space of the argument'
    bad = None
    n = 0
    for e in exits:
        v = e.value
        if not (v[0] == 'tuple' and len(v[1]) == 2):
            bad = 'unexpected return shape %s' % show(v)[:60]
            continue
        inds = v[1][1]
        n_here = 0
        wheres = [t for t in subterms(inds) if t[0] == 'call' and t[1] in ('numpy.where', 'numpy.nonzero',
                                                                             'numpy.flatnonzero')]
        for w in wheres:
            cnd = w[2][0]
            if cnd[0] == 'cmp':
                for side in (cnd[2], cnd[3]):
                    sp = _space(side, param)
                    if sp is not None:
                        n_here += 1
                        if sp == 'sorted':
                            bad = ('np.where(%s == v) is computed on the sorted copy: the positions are ranks in '
                                   'sorted order, but the caller uses them as row indices of the unsorted column'
                                   % show(side)[:40])
        # index sets built from positions (np.arange / np.split / np.flatnonzero of the run mask) are ranks in the
        # sorted copy unless they are composed with np.argsort of the argument - checked on every return path
        pos = [t for t in subterms(inds) if t[0] == 'call' and t[1] in ('numpy.arange', 'numpy.split', 'numpy.array_split')]
        srt = [t for t in subterms(inds) if t[0] == 'call' and t[1] == 'numpy.argsort'
               and t[2] and _space(t[2][0], param) == 'rows']
        if pos and not srt and not any(t[1] == 'numpy.where' for t in wheres if _space(t[2][0][2], param) == 'rows'
                                       if t[2][0][0] == 'cmp'):
            bad = ('on one path the index sets are pieces of np.arange(n), i.e. positions in the sorted copy, not row '
                   'numbers of the argument (no np.argsort of the argument maps them back)')
            n_here += 1
        elif srt:
            n_here += 1
        n += n_here
    if bad:
        ctx.violation(rid, fi, c, bad, expected='where(<argument in original order> == v)', found=bad)
    elif n == 0:
        ctx.undecided(rid, fi, c, 'cannot find the occurrence lookup')
    else:
        ctx.passed(rid, fi, c, '%d lookup(s) on the argument in original order' % n)
    # the consumer indexes rows of D / inds with these sets
    km = P.func('emd.cycles.kdt_match')
    uses = [n for n in walk_local(km.node) if isinstance(n, ast.Call) and isinstance(n.func, ast.Name)
            and n.func.id == '_unique_inds']
    if uses:
        a = uses[0].args[0]
        ctx.note(rid, km, 'consumer of _unique_inds', 'called on %s; its index sets address rows of D and inds'
                 % unparse(a), node=uses[0])


def rule_provenance(ctx, rid):
    P = ctx.P
    fi = P.func('emd.cycles.kdt_match')
    exits = [e for e in Evaluator(P).run(fi) if e.kind == 'return']
    ctx.paths += len(exits)
    c1 = 'final[i] is inds[i, winner[i]] under the range guard, else -1'
    c2 = 'x_inds = where(final > -1), y_inds = final[x_inds]'
    c3 = 'K and distance_upper_bound reach the tree query'
    if not exits:
        for c in (c1, c2, c3):
            ctx.undecided(rid, fi, c, 'no return path')
        return
    bad1 = None
    n1 = 0
    for e in exits:
        for ls in e.state.loops:
            if ls.kind != 'for':
                continue
            for kind, b in ls.body_states:
                for eff in b.effects:
                    if eff[0] == 'setitem' and eff[5] == 'final' and eff[2] == ls.var:
                        n1 += 1
                        val = eff[3]
                        if val == C(-1):
                            continue
                        # inds[ii, winner[ii]]
                        ok = val[0] == 'sub' and val[2][0] == 'tuple' and val[2][1][0] == ls.var \
                            and val[2][1][1][0] == 'sub' and val[2][1][1][2] == ls.var
                        if not ok:
                            bad1 = 'final[i] <- %s' % show(val)[:60]
                            continue
                        guard = False
                        for cnd, truth, ln in b.conds:
                            if truth and cnd[0] == 'cmp' and cnd[1] == '<' and cnd[2] == val \
                                    and show(cnd[3]).endswith('.shape[0]'):
                                guard = True
                        if not guard:
                            bad1 = 'a neighbour index is accepted without the `< y.shape[0]` range guard'
    if n1 == 0 and not bad1:
        # vectorised form:  final = np.full(n, -1); final[good] = W[good]  with  W = inds[arange(n), winner]  and
        # `W < y.shape[0]` among the conjuncts of `good`
        v = exits[0].value
        fin = None
        if v[0] == 'tuple' and len(v[1]) == 2 and v[1][0][0] == 'sub' and v[1][0][1][0] == 'call' \
                and v[1][0][1][1] == 'numpy.where' and v[1][0][1][2][0][0] == 'cmp':
            fin = v[1][0][1][2][0][2]
        if fin is not None and fin[0] == 'call' and fin[1] == 'numpy.where' and len(fin[2]) == 3 and fin[2][2] == C(-1):
            # np.where(good, W, -1)  ==  (-1 vector)[good] = W[good]
            fin = ('setitem', ('call', 'numpy.full', (C(0), C(-1)), ()), fin[2][0], ('sub', fin[2][1], fin[2][0]))
        if fin is not None and fin[0] == 'setitem' and fin[1][0] == 'call' and fin[1][1] == 'numpy.full' \
                and len(fin[1][2]) >= 2 and fin[1][2][1] == C(-1):
            mask, val = fin[2], fin[3]
            n1 = 1
            W = val[1] if val[0] == 'sub' and val[2] == mask else None
            conj = []

            def flat(m):
                if m[0] == 'bin' and m[1] == '&':
                    flat(m[2])
                    flat(m[3])
                elif m[0] == 'call' and m[1] == 'numpy.logical_and':
                    for x in m[2]:
                        flat(x)
                else:
                    conj.append(m)
            flat(mask)
            if W is None:
                bad1 = 'final[good] <- %s (not the winners under the same mask)' % show(val)[:60]
            elif not (W[0] == 'sub' and W[2][0] == 'tuple' and len(W[2][1]) == 2 and W[2][1][0][0] == 'call'
                      and W[2][1][0][1] == 'numpy.arange'
                      and any(t[0] == 'meth' and t[1] == 'query' for t in subterms(W[1]))):
                bad1 = 'the assigned values are not inds[i, winner[i]]: %s' % show(W)[:60]
            elif not any(cj[0] == 'cmp' and cj[1] == '<' and cj[2] == W and show(cj[3]).endswith('.shape[0]')
                         for cj in conj):
                bad1 = 'a neighbour index is accepted without the `< y.shape[0]` range guard'
    if bad1:
        ctx.violation(rid, fi, c1, bad1)
    elif n1 == 0:
        ctx.undecided(rid, fi, c1, 'no assignment to the final vector found')
    else:
        ctx.passed(rid, fi, c1, '%d assignment states' % n1)
    v = exits[0].value
    ok2 = False
    if v[0] == 'tuple' and len(v[1]) == 2:
        xi, yi = v[1]
        ok2 = xi[0] == 'sub' and xi[2] == C(0) and xi[1][0] == 'call' and xi[1][1] == 'numpy.where' \
            and xi[1][2][0][0] == 'cmp' and (xi[1][2][0][1], xi[1][2][0][3]) in (('>', C(-1)), ('>=', C(0)),
                                                                                   ('!=', C(-1))) \
            and yi == ('sub', xi[1][2][0][2], xi)       # integer entries: > -1, >= 0 and (entries >= -1) != -1 agree
    if ok2:
        ctx.passed(rid, fi, c2)
    else:
        ctx.violation(rid, fi, c2, 'returned %s' % show(v)[:120])
    # on every return path the neighbour table (distances and indices) is the cKDTree query with the caller's K and
    # bound: another source (brute force on squared distances, a cached table) has its own conventions
    ok3 = True
    why3 = None
    for e in exits:
        q = [t for t in subterms(('tuple', (e.value,) + tuple(x for x in e.state.env.values() if isinstance(x, tuple))))
             if t[0] == 'meth' and t[1] == 'query']
        good = [t for t in q if dict(t[4]).get('k', t[3][1] if len(t[3]) > 1 else None) == S('K')
                and dict(t[4]).get('distance_upper_bound') == S('distance_upper_bound')
                and t[2][0] == 'call' and t[2][1].endswith('cKDTree')]
        if not good:
            ok3 = False
            why3 = 'a path builds the neighbour table without cKDTree(y).query(x, k=K, distance_upper_bound=...): %s' \
                % (show(q[0])[:80] if q else 'no tree query on this path (conditions: %s)' % '; '.join(
                    '%s=%s' % (show(cn)[:40], t_) for cn, t_, _ in e.state.conds[:2]))
    if ok3:
        ctx.passed(rid, fi, c3, '%d return path(s)' % len(exits))
    else:
        ctx.violation(rid, fi, c3, why3)
    # loop over K columns
    ok4 = any(ls.kind == 'for' and ls.iter_term == ('call', 'builtins.range', (S('K'),), ())
              for e in exits for ls in e.state.loops)
    c4 = 'candidate columns 0..K-1 are all examined'
    if ok4:
        ctx.passed(rid, fi, c4)
    else:
        ctx.violation(rid, fi, c4, 'no loop over range(K)')


def rule_one_claimant(ctx, rid):
    """Within one neighbour column a candidate (row of y) is claimed by exactly one row of x: the rows marked for the
    column are one index per unique candidate, namely the occurrence with the smallest distance (argmin picks one
    even on ties).  A selection by an equality test (`D == best`) marks every tying row."""
    P = ctx.P
    fi = P.func('emd.cycles.kdt_match')
    exits = [e for e in Evaluator(P).run(fi) if e.kind == 'return']
    c = 'one claimant per candidate and neighbour column (argmin over the occurrences, ties included)'
    verdicts = []
    for e in exits:
        for ls in e.state.loops:
            if ls.kind != 'for' or not (ls.iter_term[0] == 'call' and ls.iter_term[1] == 'builtins.range'
                                        and ls.iter_term[2] == (S('K'),)):
                continue
            for kind, b in ls.body_states:
                for eff in b.effects:
                    if eff[0] != 'setitem' or eff[1][0] != 'call' or eff[1][1] not in ('numpy.zeros', 'numpy.zeros_like'):
                        continue
                    idx = eff[2]
                    verdicts.append(_claimants(idx, ls.var))
    if not verdicts:
        ctx.undecided(rid, fi, c, 'no per-column marking of claimants found')
    elif any(v[0] == 'bad' for v in verdicts):
        ctx.violation(rid, fi, c, [v[1] for v in verdicts if v[0] == 'bad'][0])
    elif any(v[0] == 'unknown' for v in verdicts):
        ctx.undecided(rid, fi, c, [v[1] for v in verdicts if v[0] == 'unknown'][0])
    else:
        ctx.passed(rid, fi, c, '%d marking state(s)' % len(verdicts))


def _claimants(idx, col):
    from .common import unzip_comp, flatten_comp
    idx = unzip_comp(flatten_comp(idx))
    if idx[0] == 'comp' and len(idx[3]) == 1 and not idx[3][0][2]:
        elt = idx[2]
        if elt[0] == 'sub':
            occ, k = elt[1], elt[2]
            mins = [t for t in subterms(k) if (t[0] == 'call' and t[1] in ('numpy.argmin', 'numpy.nanargmin'))
                    or (t[0] == 'meth' and t[1] == 'argmin')]
            if mins:
                arg = mins[0][2][0] if mins[0][0] == 'call' else mins[0][2]
                if arg[0] == 'sub' and arg[2][0] == 'tuple' and len(arg[2][1]) == 2 and arg[2][1][0] == occ \
                        and arg[2][1][1] == col:
                    return ('ok', '')
                return ('bad', 'the closest occurrence is not searched among the distances of that candidate\'s own '
                        'occurrences in this column: %s' % show(arg)[:80])
        return ('unknown', 'cannot read the per-candidate selection %s' % show(elt)[:80])
    eqs = [t for t in subterms(idx) if t[0] == 'call' and t[1] == 'numpy.where' and t[2] and t[2][0][0] == 'cmp'
           and t[2][0][1] == '==']
    if eqs:
        return ('bad', 'claimants are selected by an equality test (%s): every row that ties for the smallest '
                'distance claims the same candidate, so one row of y can be matched twice' % show(eqs[0])[:90])
    return ('unknown', 'cannot read the rows marked for the column: %s' % show(idx)[:80])
