"""C03 - IMFs are peeled one at a time from the running residual; caps are respected."""
import ast
from fractions import Fraction

from . import siftcore
from ..model import AnalysisError, unparse, walk_local
from ..paths import Evaluator, is_c, show, C, S, subterms
from ..poly import Poly
from .common import loop_containing_call, mk_algebra, trace_tail, calls_to, cmp_views

PROPERTY = 'C03'
EXPLANATION = (
    "R1: the residual invariant (extraction input == X - sum of components so far) for the layer loops of sift, "
    "mask_sift and complete_ensemble_sift, on linear forms. R2: the cap parameter reaches the extraction only as a "
    "length (range/len positions), never as a value. R3: counter relation of each cap guard - with the layer counter "
    "and the column count affine in the iteration index, the column count at the cap exit is <= cap for every cap >= 1 "
    "and the guard is reachable. R4: per-member column indexing in ensemble_sift is within the member's own column "
    "count. R5: sift_second_layer iterates over the first-level columns and unpacks a dict. R6: every variant "
    "canonicalises its signal before use. With R1+R2, cap k returns the first k columns of the uncapped run. "
    "Not decided: finiteness of outputs.")
RULE_TEXT = "one obligation per rule x variant (loop / guard / dispatch site); distinct = distinct keys"
FLOORS = {'C03.R1': 3, 'C03.R2': 3, 'C03.R3': 4, 'C03.R4': 1, 'C03.R5': 6, 'C03.R6': 5}
PINNED_EXPECT = [('C03.R3', 'emd.sift.complete_ensemble_sift', 'cap'),
                 ('C03.R4', 'emd.sift.ensemble_sift', 'member columns'),
                 ('C03.R5', 'emd.sift.sift_second_layer', 'never None'),
                 ('C03.R5', 'emd.sift.sift_second_layer', 'first-level columns')]

CAP = 'max_imfs'


def is_gni(ca):
    return ca.kind == 'repo' and ca.dotted == 'emd.sift.get_next_imf'


def is_gnim(ca):
    return ca.kind == 'repo' and ca.dotted == 'emd.sift.get_next_imf_mask'


def run(ctx):
    P = ctx.P
    sift = P.func('emd.sift.sift')
    msift = P.func('emd.sift.mask_sift')
    ceemd = P.func('emd.sift.complete_ensemble_sift')
    eemd = P.func('emd.sift.ensemble_sift')
    ctx.trust('np.concatenate(axis=1) appends the columns of its second operand; .sum(axis=1) sums columns')
    ctx.rule(siftcore.rule_residual_invariant, 'C03.R1', sift, is_gni)
    ctx.rule(siftcore.rule_residual_invariant, 'C03.R1', msift, is_gnim, context=MASK_CTX)
    ctx.rule(rule_ceemd_invariant, 'C03.R1', ceemd)
    ctx.rule(rule_cap_independence, 'C03.R2', sift, is_gni, {})
    ctx.rule(rule_cap_independence, 'C03.R2', msift, is_gnim, MASK_CTX)
    ctx.rule(rule_cap_independence_ceemd, 'C03.R2', ceemd)
    ctx.rule(rule_cap_bound, 'C03.R3', sift, {})
    ctx.rule(rule_cap_bound, 'C03.R3', msift, MASK_CTX)
    ctx.rule(rule_cap_bound, 'C03.R3', ceemd, {'noise_mode': 'single'})
    ctx.rule(rule_ensemble_alloc, 'C03.R3', eemd)
    ctx.rule(rule_ragged_members, 'C03.R4', eemd)
    ctx.rule(rule_second_layer, 'C03.R5')
    ctx.rule(rule_layout, 'C03.R6')
    ctx.rule(siftcore.rule_no_clobber, 'C03.R8', sift, 'emd.sift.get_next_imf',
                             [{'stop_method': sm, 'energy_thresh': None} for sm in siftcore.STOP_METHODS])
    ctx.rule(siftcore.rule_no_clobber, 'C03.R8', msift, 'emd.sift.get_next_imf_mask', [{}])
    # every extraction rests on the strict extrema search (a plateau-reporting search makes the parabolic fit divide
    # by zero or the padding loop spin: no finite component array)
    from . import c05
    ctx.rule(c05.rule_strict_search, 'C03.R10')
    # masked peeling: layer k is the masked extraction with the caller's settings (the requested number of phases
    # reaches every dispatch - a silently replaced count changes what "the k-th masked component" is)
    from . import c07
    ctx.rule(c07.rule_phase_count, 'C03.R12')
    # ... and with the mask amplitude the selected mode prescribes for that layer (the k-th masked component is the
    # masked extraction of the residual with frequency k and amplitude k)
    ctx.rule(c07.rule_amplitude, 'C03.R12')
    from . import l2
    ctx.rule(l2.rule_inplace_input_dtype, 'C03.R11', ['emd.sift.sift', 'emd.sift.mask_sift', 'emd.sift.ensemble_sift',
                                                     'emd.sift.complete_ensemble_sift', 'emd.sift.get_next_imf',
                                                     'emd.sift.get_next_imf_mask', 'emd.sift._sift_with_noise'])
    ctx.rule(siftcore.rule_through_layer_loop, 'C03.R9', sift, ('emd.sift.get_next_imf',))
    ctx.rule(siftcore.rule_through_layer_loop, 'C03.R9', msift, ('emd.sift.get_next_imf_mask',), context=MASK_CTX)
    ctx.rule(siftcore.rule_through_layer_loop, 'C03.R9', ceemd, ('emd.sift._sift_with_noise',),
                                     context={'noise_mode': 'single'})
    # a cap (or any option) written into the caller's option dict is silently in force on the next call
    from .c06 import rule_no_replacement
    ctx.rule(rule_no_replacement, 'C03.R7', only={'emd.sift.sift_second_layer', 'emd.sift.mask_sift_second_layer',
                                             'emd.sift.sift', 'emd.sift.mask_sift', 'emd.sift.ensemble_sift',
                                             'emd.sift.complete_ensemble_sift'})


MASK_CTX = {'mask_amp_mode': 'ratio_imf', 'ret_mask_freq': False}


# ----------------------------------------------------------------------------------------------
def outer_view(env):
    """Environment as seen from the outermost frame: variables captured from the enclosing function (the evaluator
    inlines nested functions and keeps the captured variables under 'closure:<name>') override same-named locals."""
    out = {k: v for k, v in env.items() if not k.startswith('closure:')}
    for k, v in env.items():
        if k.startswith('closure:'):
            out[k[8:]] = v
    return out


def _ceemd_records(P, fi, context):
    """Pool dispatches of the noise worker reached while evaluating fi (helpers and nested functions are inlined, so
    the dispatch may sit anywhere): [(call node, term, outer-frame env, trace, inside the layer loop?)]."""
    from .c06 import _decode_fref
    rec = []

    def obs(node, term, st):
        if term[0] == 'meth' and term[1] in ('starmap', 'map', 'imap', 'starmap_async', 'map_async') and term[3]:
            d = _decode_fref(P, term[3][0])
            if d is not None and d[0] == 'emd.sift._sift_with_noise':
                inloop = any(':while[' in x for x in st.trace)
                rec.append((node, term, outer_view(st.env), list(st.trace), inloop))
    ev = Evaluator(P, observer=obs)
    exits = ev.run(fi, context=context)
    return ev, exits, rec


def _family_first(t):
    """First tuple slot of a list-comprehension argument family."""
    if t[0] == 'comp' and t[2][0] in ('tuple', 'list') and t[2][1]:
        return t[2][1][0]
    return None


def rule_ceemd_invariant(ctx, rid, fi):
    P = ctx.P
    acc = siftcore._return_accumulator(fi)
    x0 = fi.params[0]
    ev, exits, recs = _ceemd_records(P, fi, {'noise_mode': 'single'})
    ctx.paths += len(exits)
    rec = [(term, env, trace) for node, term, env, trace, inloop in recs if inloop]
    if not rec:
        raise AnalysisError('%s: no noise-assisted extraction dispatch inside the layer loop' % fi.qualname)
    callnode = [node for node, term, env, trace, inloop in recs if inloop][0]
    loop = callnode
    alg = mk_algebra()
    X = alg.poly(S(x0))
    n = 0
    for term, env, trace in rec:
        args = term[3][1] if term[0] == 'meth' and len(term[3]) > 1 else None
        first = _family_first(args) if args is not None else None
        if first is None:
            ctx.undecided(rid, fi, 'extraction input == X - sum(components so far)',
                          'cannot read the per-member argument tuple', node=callnode)
            return
        a = env.get(acc)
        expected = X - alg.poly(('meth', 'sum', a, (), (('axis', C(1)),)))
        got = alg.poly(first)
        n += 1
        if got != expected:
            ctx.violation(rid, fi, 'extraction input == X - sum(components so far)',
                          'the signal sent to the noise-assisted extraction is not the input minus the components '
                          'so far', node=callnode, expected=str(expected)[:200], found=str(got)[:200], path=trace[-8:])
            return
    ctx.passed(rid, fi, 'extraction input == X - sum(components so far)',
               '%d dispatch states (first iteration and iterations >= 2)' % n, node=loop)


# ----------------------------------------------------------------------------------------------
def _value_occurrences(t, atom, in_len=False):
    """Occurrences of `atom` in t that are not in a length position
    (range(...) of a comprehension generator, len(...), shape/zeros sizes)."""
    bad = []
    if t == atom:
        return [] if in_len else [t]
    if not isinstance(t, tuple) or not t:
        return bad
    if t[0] == 'comp':
        bad += _value_occurrences(t[2], atom, in_len)
        for var, it, conds in t[3]:
            bad += _value_occurrences(it, atom, True)
        return bad
    if t[0] == 'call' and t[1] in ('builtins.range', 'builtins.len', 'numpy.zeros', 'numpy.arange', 'numpy.ones'):
        for x in t[2]:
            bad += _value_occurrences(x, atom, True)
        return bad
    for x in t[1:]:
        if isinstance(x, tuple):
            if x and isinstance(x[0], str):
                bad += _value_occurrences(x, atom, in_len)
            else:
                for y in x:
                    if isinstance(y, tuple):
                        if y and isinstance(y[0], str):
                            bad += _value_occurrences(y, atom, in_len)
                        else:
                            for z in y:
                                if isinstance(z, tuple):
                                    bad += _value_occurrences(z, atom, in_len)
    return bad


def rule_cap_independence(ctx, rid, fi, pred, context):
    P = ctx.P
    loops = loop_containing_call(P, fi, pred)
    if len(loops) != 1:
        raise AnalysisError('%s: expected one layer loop' % fi.qualname)
    loop, callnode, callee = loops[0]
    recs = []

    def hook(ca, bound, star, st, e):
        if e is callnode:
            recs.append((bound, star, list(st.trace)))
        return None
    ev = Evaluator(P, callee_hook=hook)
    exits = ev.run(fi, context=context)
    ctx.paths += len(exits)
    capatom = S(CAP)
    for bound, star, trace in recs:
        for formal, t in list(bound.items()) + [('**', s) for s in star]:
            occ = _value_occurrences(t, capatom)
            if occ:
                ctx.violation(rid, fi, 'cap reaches the extraction only as a length',
                              'the IMF cap flows into the value of extraction argument %r, so capping changes '
                              'the components themselves' % formal, node=callnode, found=show(t)[:200],
                              path=trace[-8:])
                return
    ctx.passed(rid, fi, 'cap reaches the extraction only as a length', '%d call states, %d arguments each'
               % (len(recs), len(recs[0][0]) if recs else 0), node=callnode)


def rule_cap_independence_ceemd(ctx, rid, fi):
    P = ctx.P
    ev, exits, recs = _ceemd_records(P, fi, {'noise_mode': 'single'})
    rec = [term for node, term, env, trace, inloop in recs if inloop]
    if not rec:
        raise AnalysisError('%s: no dispatch in the layer loop' % fi.qualname)
    callnode = [node for node, term, env, trace, inloop in recs if inloop][0]
    for term in rec:
        occ = _value_occurrences(term, S(CAP))
        if occ:
            ctx.violation(rid, fi, 'cap reaches the extraction only as a length',
                          'the IMF cap flows into the per-member extraction arguments', node=callnode,
                          found=show(term)[:200])
            return
    ctx.passed(rid, fi, 'cap reaches the extraction only as a length', '%d dispatch states' % len(rec), node=callnode)


# ----------------------------------------------------------------------------------------------
def _list_appends(t):
    """(base, k): t is `base` after k single appends (the evaluator's term for a list that received elements)"""
    k = 0
    while t[0] == 'mut' and t[1] == 'append' and len(t[3]) == 1:
        t = t[2]
        k += 1
    if t[0] == 'bin' and t[1] == '+' and t[3][0] == 'list':
        return t[2], k + len(t[3][1])
    return t, k


def _blocks(t, head_atom):
    """Number of column blocks a term is known to add to head_atom (concat chains), or None."""
    if t == head_atom:
        return 0
    # the components are collected in a list and the array is rebuilt from it in every layer:
    #   cols.append(next_imf); imf = np.concatenate(cols, axis=1)
    # the list at the loop head holds the columns of the array at the loop head, so k appends add k blocks
    if t[0] == 'call' and t[1] in ('numpy.concatenate', 'numpy.hstack', 'numpy.column_stack') and t[2] \
            and t[2][0][0] in ('mut', 's') and (t[1] != 'numpy.concatenate' or dict(t[3]).get(
                'axis', t[2][1] if len(t[2]) > 1 else None) == C(1)):
        base, k = _list_appends(t[2][0])
        if base[0] == 's' and '@L' in base[1] and k >= 1:
            return k
    if t[0] == 'call' and t[1] in ('numpy.hstack', 'numpy.column_stack') and t[2] and t[2][0][0] in ('tuple', 'list'):
        t = ('call', 'numpy.concatenate', t[2], (('axis', C(1)),))
    if t[0] == 'call' and t[1] == 'numpy.append' and len(t[2]) == 2 and dict(t[3]).get('axis') == C(1):
        t = ('call', 'numpy.concatenate', (('tuple', (t[2][0], t[2][1])),), (('axis', C(1)),))
    if t[0] == 'call' and t[1] == 'numpy.concatenate' and t[2] and t[2][0][0] in ('tuple', 'list'):
        ax = dict(t[3]).get('axis', t[2][1] if len(t[2]) > 1 else None)
        if ax is not None and is_c(ax) and ax[1] == 1:
            parts = t[2][0][1]
            if parts and parts[0] == head_atom:
                return len(parts) - 1
            inner = _blocks(parts[0], head_atom) if parts else None
            if inner is not None:
                return inner + len(parts) - 1
    return None


def rule_cap_bound(ctx, rid, fi, context):
    """Counter relation of the cap guard of a layer loop.  The layer counter and the column count are affine in
    the iteration index; the affine model (entry values, per-iteration increments, guard offset, entry guards)
    is read from the evaluated paths and then simulated for cap = 1..8."""
    from ..paths import substitute, State
    P = ctx.P
    loops = [n for n in walk_local(fi.node) if isinstance(n, ast.While)]
    from ..paths import synth_count_loop
    for n in walk_local(fi.node):
        sy = synth_count_loop(P, fi, n) if isinstance(n, ast.For) else None
        if sy is not None:
            loops.append(sy[1])
    acc = siftcore._return_accumulator(fi)
    cand = []
    for loop in loops:
        stores = {n.id for n in ast.walk(loop) if isinstance(n, ast.Name) and isinstance(n.ctx, ast.Store)}
        if acc in stores:
            cand.append(loop)
    if len(cand) != 1:
        raise AnalysisError('%s: cannot identify the layer loop' % fi.qualname)
    loop = cand[0]
    ev = Evaluator(P)
    exits = ev.run(fi, context=context)
    ctx.paths += len(exits)
    tag = 'L%d' % loop.lineno
    head_acc = S('%s@%s' % (acc, tag))
    alg = mk_algebra()
    # one loop summary per pre-loop path; group them by the effective cap at loop entry
    groups = {}
    summaries = [ls for e in exits for ls in e.state.loops] + list(ev.loops_seen.get(loop, []))
    for _once in (0,):
        for ls in summaries:
            if ls.node is loop and ls.body_states:
                capterm = ls.entry_env.get(CAP, S(CAP))
                if is_c(capterm):
                    continue        # cap fixed to a literal on this path (e.g. None): nothing to bound
                key = alg.canon(capterm)
                if key not in groups or len(ls.body_states) > len(groups[key][1].body_states):
                    groups[key] = (capterm, ls)
    if not groups:
        raise AnalysisError('%s: layer loop has no evaluated iteration' % fi.qualname)
    # the cap enforced by the loop must be the caller's cap; the only documented reduction is mask_sift lowering it
    # to the number of user-supplied mask frequencies
    allowed = {S(CAP)}
    if fi.name == 'mask_sift':
        allowed.add(('call', 'builtins.len', (S('mask_freqs'),), ()))
    for key in sorted(groups):
        capterm, summ = groups[key]
        if capterm not in allowed:
            ctx.violation(rid, fi, 'the cap enforced by the layer loop is the requested cap',
                          'the requested cap is replaced by %s before the layer loop: a capped run can return fewer '
                          'components than the cap although the uncapped run has them, so it is no longer the first k '
                          'components of the uncapped run' % show(capterm)[:90], node=loop,
                          expected=CAP, found=show(capterm)[:120])
            continue
        if capterm != S(CAP):
            # the documented reduction may only lower the cap: on this path the replacement value is known to be
            # smaller than the requested cap
            pre = []
            for k_, b_ in summ.body_states:
                pre = b_.conds[:getattr(summ, 'n_entry_conds', 0)]
                break
            lower = False
            for cd, tr, ln in pre:
                if cd[0] == 'cmp' and {cd[2], cd[3]} == {capterm, S(CAP)}:
                    op = cd[1] if cd[2] == capterm else {'<': '>', '<=': '>=', '>': '<', '>=': '<='}.get(cd[1], cd[1])
                    eff = op if tr else {'<': '>=', '<=': '>', '>': '<=', '>=': '<'}.get(op)
                    if eff in ('<', '<='):
                        lower = True
            c_low = 'a replaced cap is lower than the requested cap'
            if not lower:
                ctx.violation(rid, fi, c_low, 'the requested cap is replaced by %s on a path that does not establish %s < %s: the '
                              'sift can return more components than the requested cap' % (show(capterm)[:50], show(capterm)[:50], CAP),
                              node=loop)
                continue
            ctx.passed(rid, fi, c_low, '%s < %s on the replacing path' % (show(capterm)[:40], CAP), node=loop)
        _cap_bound_one(ctx, rid, fi, loop, acc, tag, head_acc, alg, ev, capterm, summ,
                       'columns at the cap exit <= cap' + ('' if capterm == S(CAP) else ' [cap := %s]' % show(capterm)))


def _cap_bound_one(ctx, rid, fi, loop, acc, tag, head_acc, alg, ev, capatom, summ, construct):
    from ..paths import substitute, State
    back1 = [b for k, b in summ.body_states if k == 'back']
    back2 = [b for k, b in summ.body_states if k == 'back2']
    if not back2:
        if back1:
            # every path through the first layer ends the loop: with a cap given the variant returns one component
            # whatever the cap is (the cap test is true, or made true, for every value)
            ctx.violation(rid, fi, construct, 'with a cap given the layer loop is left after the first layer on every path: '
                          'one component is returned whatever the cap', node=loop,
                          expected='the loop continues while fewer than %s components are extracted' % CAP,
                          path=trace_tail(back1[0], 8))
            return
        raise AnalysisError('%s: layer loop never repeats' % fi.qualname)
    # an accumulator that starts as None holds columns after the first layer: later-iteration paths that assume it
    # is still None are infeasible (every iteration end stores component columns, C03.R6)

    def _assumes_empty(b):
        for c, truth, ln in b.conds:
            if c[0] == 'cmp' and c[1] in ('is', 'isnot') and c[2] == head_acc and c[3] == C(None) \
                    and (c[1] == 'is') == truth:
                return True
        return False
    if all(_initial_blocks(b.env.get(acc)) for b in back1):
        feasible = [b for b in back2 if not _assumes_empty(b)]
        if feasible and all(_blocks(b.env.get(acc, head_acc), head_acc) is not None for b in feasible):
            back2 = feasible
    # counters: +1 on every iteration>=2 body path
    counters = None
    for b in back2:
        cs = set()
        for name, head in summ.head_env.items():
            if name in b.env and head[0] == 's' and head[1] == '%s@%s' % (name, tag):
                d = alg.poly(b.env[name]) - alg.poly(head)
                if d.is_const() and d.const_value() == 1:
                    cs.add(name)
        counters = cs if counters is None else counters & cs
    # guard relation  counter_head + c0 (op) cap  from the iteration>=2 paths
    guards = set()
    for b in back2:
        for c, truth, ln in b.conds:
            if c[0] != 'cmp' or c[1] not in ('==', '>=', '>', '<=', '<', '!='):
                continue
            # the guard may count the columns of the accumulator directly:  acc.shape[1] (op) cap
            colg = None
            for sa, sb, flip in ((c[2], c[3], False), (c[3], c[2], True)):
                if sb == capatom and sa[0] == 'call' and sa[1] == 'builtins.len' and len(sa[2]) == 1 and sa[2][0][0] in ('mut', 's'):
                    # the guard counts the list the components are collected in: len(cols) (op) cap
                    base_, k_ = _list_appends(sa[2][0])
                    if base_[0] == 's' and '@L' in base_[1]:
                        op_ = c[1]
                        if flip:
                            op_ = {'>=': '<=', '>': '<', '<=': '>=', '<': '>', '==': '==', '!=': '!='}[op_]
                        colg = ('#cols', Fraction(k_), op_)
                if sb == capatom and sa[0] == 'sub' and sa[2] == C(1) and sa[1][0] == 'attr' and sa[1][2] == 'shape':
                    j = _blocks(sa[1][1], head_acc)
                    if j is not None:
                        op_ = c[1]
                        if flip:
                            op_ = {'>=': '<=', '>': '<', '<=': '>=', '<': '>', '==': '==', '!=': '!='}[op_]
                        colg = ('#cols', Fraction(j), op_)
            if colg is not None:
                guards.add(colg)
                continue
            d = alg.poly(c[2]) - alg.poly(c[3])
            cap_c = d.coeff_of(alg.canon(capatom))
            if cap_c == 0:
                continue
            cnt = [n for n in counters if d.coeff_of(alg.canon(summ.head_env[n])) != 0]
            if len(cnt) != 1:
                continue
            cn = cnt[0]
            k_c = d.coeff_of(alg.canon(summ.head_env[cn]))
            rest = d - Poly.atom(alg.canon(capatom)).scale(cap_c) - Poly.atom(alg.canon(summ.head_env[cn])).scale(k_c)
            if not rest.is_const() or k_c != -cap_c:
                continue
            op = c[1]
            if k_c < 0:
                op = {'>=': '<=', '>': '<', '<=': '>=', '<': '>', '==': '==', '!=': '!='}[op]
            guards.add((cn, rest.const_value() / k_c, op))
            # taking the guard must end the loop: the loop flag is False at the back edge of that path
            flagname = siftcore._flag_var(loop)
            if truth and flagname is not None and ev.truth(b.env.get(flagname, S(flagname)), b) is not False:
                ctx.violation(rid, fi, construct, 'the cap comparison is true on a path that keeps the layer loop '
                              'running (the cap is tested but not enforced)', node=loop, path=trace_tail(b, 8))
                return
    if not guards:
        ctx.violation(rid, fi, construct, 'no path through the layer loop tests the layer/column counter against '
                      'the cap', node=loop, expected='a guard `counter (+k) == %s`' % CAP, found='none')
        return
    if len(guards) != 1:
        ctx.undecided(rid, fi, construct, 'several cap comparisons in the loop: %s' % sorted(map(str, guards)), node=loop)
        return
    cn, c0, op = next(iter(guards))
    # a true cap comparison must end the loop: no iteration end that continues may have it true
    for passno, how, e_ in getattr(summ, 'ends', []):
        if how != 'continue':
            continue
        for c, truth, ln in e_.conds[summ.n_entry_conds:]:
            if truth and c[0] == 'cmp' and c[1] in ('==', '>=', '>') and capatom in (c[2], c[3]):
                ctx.violation(rid, fi, construct, 'the cap comparison is true on a path that keeps the layer loop '
                              'running (the cap is tested but not enforced)', node=loop, path=trace_tail(e_, 8))
                return
    # entry values
    b0 = _initial_blocks(summ.entry_env.get(acc, ('list', ())))
    if cn == '#cols':
        a_lo = (b0, b0)
    else:
        a_lo = ev.bounds(summ.entry_env.get(cn, S('?')), State())
    if a_lo[0] is None or a_lo[0] != a_lo[1] or b0 is None:
        ctx.undecided(rid, fi, construct, 'cannot read the counter / column count at loop entry', node=loop)
        return
    a = a_lo[0]
    # columns appended per iteration
    ds = set()
    for b in back2:
        ds.add(_blocks(b.env.get(acc, head_acc), head_acc))
    for b in back1:
        n1 = _initial_blocks(b.env.get(acc))
        ds.add(None if n1 is None else n1 - b0)
    if len(ds) != 1 or None in ds:
        ctx.undecided(rid, fi, construct, 'columns appended per layer differ between paths: %s' % ds, node=loop)
        return
    d = next(iter(ds))
    # does the guard stop the loop?  (flag False at the back edge of paths that took it)
    flag = siftcore._flag_var(loop)
    # entry guards: pre-loop conditions of the entering paths that mention the cap
    pre = []
    for b in back1:
        # conditions established before the loop plus the first evaluation of the loop test
        i = getattr(summ, 'n_entry_conds', 0)
        while i < len(b.conds) and b.conds[i][2] == loop.lineno:
            i += 1
        pre.append([(c, truth) for c, truth, ln in b.conds[:i] if capatom in set(subterms(c))])
    import operator
    OPS = {'==': operator.eq, '>=': operator.ge, '>': operator.gt, '<=': operator.le, '<': operator.lt,
           '!=': operator.ne}
    worst = None
    for cap in range(1, 33 if ctx.tier == 'thorough' else 9):
        entered = False
        for conds in pre:
            okpath = True
            for c, truth in conds:
                v = ev.truth(substitute(c, {capatom: C(cap)}), State())
                if v is not None and v != truth:
                    okpath = False
            if okpath:
                entered = True
        if not entered:
            cols = b0
        else:
            cols = None
            for k in range(1, cap + 40):
                head = a + (k - 1) * (d if cn == '#cols' else 1)
                if OPS[op](head + c0, cap):
                    cols = b0 + k * d
                    break
            if cols is None:
                ctx.violation(rid, fi, construct, 'for cap=%d the guard `%s%+d %s cap` is never true (counter starts '
                              'at %s): the cap is ignored' % (cap, cn, int(c0), op, a), node=loop,
                              expected='guard reachable for every cap >= 1', found='unreachable for cap=%d' % cap)
                return
        if cols > cap and worst is None:
            worst = (cap, cols)
    if worst:
        ctx.violation(rid, fi, construct,
                      'with cap=%d the result has %d columns (counter %s starts at %s, guard `%s%+d %s cap`, '
                      '%d column(s) before the loop, %d per layer)' % (worst[0], worst[1], cn, a, cn, int(c0), op, b0, d),
                      node=loop, expected='columns <= %s for every cap >= 1' % CAP,
                      found='cap=%d -> %d columns' % worst)
    else:
        ctx.passed(rid, fi, construct, 'counter %s from %s, guard `%s%+d %s cap`, %d column(s) before the loop, '
                   '%d per layer; simulated cap=1..8' % (cn, a, cn, int(c0), op, b0, d), node=loop)


def _initial_blocks(t):
    """Column blocks of the accumulator after the first iteration (term level)."""
    if t is None:
        return None
    if t[0] == 'call' and t[1] in ('numpy.concatenate', 'numpy.hstack', 'numpy.column_stack') and t[2] \
            and t[2][0][0] == 'mut':
        base, k = _list_appends(t[2][0])
        if base == ('list', ()):
            return k
    if t[0] == 'call' and t[1] in ('numpy.concatenate', 'numpy.hstack', 'numpy.column_stack') and t[2] \
            and t[2][0][0] in ('tuple', 'list'):
        parts = t[2][0][1]
        tot = 0
        for p in parts:
            n = _initial_blocks(p)
            if n is None:
                return None
            tot += n
        return tot
    if t in (('list', ()), ('tuple', ()), C(None)):
        return 0            # "no columns yet" (an accumulator that starts as None is replaced by the first component)
    return 1


def rule_ensemble_alloc(ctx, rid, fi):
    """ensemble_sift: on every return path with a cap, the returned array was allocated with `cap` columns or with a
    width that the path conditions bound by the cap.  Read from the evaluated paths (helpers inlined)."""
    import re
    P = ctx.P
    ev = Evaluator(P)
    exits = ev.run(fi, context={'noise_mode': 'single'})
    ctx.paths += len(exits)
    c = 'columns at the cap exit <= cap'
    ok = 0
    cap = S(CAP)
    for e in exits:
        if e.kind != 'return':
            continue
        capgiven = None
        for cd, truth, ln in e.state.conds:
            if cd[0] == 'cmp' and cd[1] in ('is', 'isnot') and cd[2] == cap and cd[3] == C(None):
                capgiven = (cd[1] == 'isnot') == truth
        if not capgiven:
            continue
        v = e.value
        if v[0] == 'tuple' and v[1]:
            v = v[1][0]
        alloc = None
        while v[0] == 'setitem':
            v = v[1]            # stores into the allocation keep its width
        if v[0] == 's':
            m = re.match(r'^(\w+)@([FL]\d+)(post)?$', v[1])
            if m:
                for ls in e.state.loops:
                    t = ls.entry_env.get(m.group(1))
                    if ('F%d' % ls.node.lineno == m.group(2) or 'L%d' % ls.node.lineno == m.group(2)) and t is not None:
                        alloc = t
        elif v[0] == 'call':
            alloc = v
        if not (alloc is not None and alloc[0] == 'call' and alloc[1] in ('numpy.zeros', 'numpy.empty', 'numpy.ones',
                                                                            'numpy.full') and alloc[2]
                and alloc[2][0][0] == 'tuple' and len(alloc[2][0][1]) == 2):
            ctx.undecided(rid, fi, c, 'cannot find the output allocation behind the returned value %s' % show(v)[:60],
                          node=e.node, path=trace_tail(e.state, 8))
            return
        w = alloc[2][0][1][1]
        bounded = w == cap
        if not bounded:
            for cd, truth, ln in e.state.conds:
                if cd[0] != 'cmp' or cd[1] not in ('<', '<=', '>', '>='):
                    continue
                op, a, b = (cd[1], cd[2], cd[3])
                if not truth:
                    op = {'<': '>=', '<=': '>', '>': '<=', '>=': '<'}[op]
                if (a == cap and b == w and op in ('>', '>=')) or (a == w and b == cap and op in ('<', '<=')):
                    bounded = True
            if w[0] == 'call' and w[1] in ('builtins.min', 'numpy.minimum', 'numpy.min') and cap in w[2]:
                bounded = True
        if not bounded:
            ctx.violation(rid, fi, c, 'ensemble output is allocated with %s columns, which the path does not bound by '
                          'the cap' % show(w)[:80], node=e.node, expected=CAP, found=show(w)[:120],
                          path=trace_tail(e.state, 8))
            return
        ok += 1
    if ok == 0:
        ctx.undecided(rid, fi, c, 'no return path with a cap found')
    else:
        ctx.passed(rid, fi, c, 'output allocated with %s columns, or fewer under a path condition, on %d capped return '
                   'path(s)' % (CAP, ok))


def _is_min_member_cols(t):
    """min(r.shape[1] for r in <members>) / np.min([r.shape[1] for r in <members>])"""
    if t[0] == 'call' and t[1] in ('builtins.min', 'numpy.min', 'numpy.amin') and len(t[2]) == 1:
        c = t[2][0]
        if c[0] == 'comp' and len(c[3]) == 1:
            var, it, conds = c[3][0]
            if not conds and c[2] == ('sub', ('attr', var, 'shape'), C(1)):
                return it
    return None


def rule_ragged_members(ctx, rid, fi):
    """Members of an ensemble may return fewer columns than the cap (C03.R3 bounds `sift` from above only), so a
    shared column index must be bounded by the smallest member's column count on every path."""
    P = ctx.P
    construct = "member columns indexed within each member's own column count"
    # the per-column loop: a For whose body holds a comprehension over the members indexing column <loop var>
    hits = []
    for n in walk_local(fi.node):
        if isinstance(n, ast.For) and isinstance(n.target, ast.Name):
            lv = n.target.id
            for m in ast.walk(n):
                if isinstance(m, ast.ListComp) and isinstance(m.elt, ast.Subscript):
                    sl = m.elt.slice
                    if isinstance(sl, ast.Tuple) and len(sl.elts) == 2 and isinstance(sl.elts[1], ast.Name) \
                            and sl.elts[1].id == lv and isinstance(m.elt.value, ast.Name) \
                            and m.generators and isinstance(m.generators[0].target, ast.Name) \
                            and m.generators[0].target.id == m.elt.value.id:
                        hits.append((n, m))
    if not hits:
        ctx.passed(rid, fi, construct, 'no per-member column indexing by a shared index')
        return
    ev = Evaluator(P)
    exits = ev.run(fi, context={'noise_mode': 'single'})
    ctx.paths += len(exits)
    for loop, comp in hits:
        members = ast.unparse(comp.generators[0].iter)
        bad = None
        n = 0
        for e in exits:
            if e.kind != 'return':
                continue
            for ls in e.state.loops:
                if ls.node is not loop:
                    continue
                it = ls.iter_term
                if not (it[0] == 'call' and it[1] == 'builtins.range' and len(it[2]) == 1):
                    bad = (e, 'index range is not range(<bound>)')
                    continue
                B = it[2][0]
                n += 1
                if _is_min_member_cols(B) is not None:
                    continue
                if B[0] == 'call' and B[1] in ('builtins.min', 'numpy.minimum') and len(B[2]) >= 2 and not B[3] \
                        and any(_is_min_member_cols(a) is not None for a in B[2]):
                    continue        # min(cap, smallest member count)
                safe = False
                for c0, truth, ln in e.state.conds:
                    for op_, l_, r_ in cmp_views(c0):
                        if l_ == B and _is_min_member_cols(r_) is not None:
                            if (op_ == '>' and not truth) or (op_ == '<=' and truth) or (op_ == '<' and truth) \
                                    or (op_ == '>=' and not truth) or (op_ == '==' and truth):
                                safe = True
                if not safe:
                    bad = (e, 'bound %s is not limited by the smallest member column count on this path' % show(B)[:60])
        if bad:
            ctx.violation(rid, fi, construct,
                          'every ensemble member is indexed at the same columns, but a member may return fewer columns '
                          '(IndexError for short members): ' + bad[1], node=comp,
                          expected="index range bounded by min over members of shape[1]",
                          found=bad[1], path=trace_tail(bad[0].state, 8))
        elif n == 0:
            ctx.undecided(rid, fi, construct, 'per-column loop never reached', node=loop)
        else:
            ctx.passed(rid, fi, construct, '%d paths: bound is min over members or compared against it' % n, node=comp)


def rule_second_layer(ctx, rid):
    P = ctx.P
    for q in ('emd.sift.sift_second_layer', 'emd.sift.mask_sift_second_layer'):
        fi = P.func(q)
        sig = fi.params[0]
        c = 'loop over the first-level columns'
        bad_none = None
        n_star = 0

        def obs(node, term, st):
            nonlocal bad_none, n_star
            if term[0] == 'call':
                for k, v in term[3]:
                    if k == '**':
                        n_star += 1
                        if is_c(v) and v[1] is None:
                            bad_none = node
        ev = Evaluator(P, observer=obs)
        exits = ev.run(fi)
        ctx.paths += len(exits)
        verdict = None
        alg = mk_algebra()
        for e in exits:
            if e.kind != 'return':
                continue
            sig_t = e.state.env.get(sig)
            for ls in e.state.loops:
                if ls.kind != 'for':
                    continue
                # does the body index column <loop var> of the first-level array?
                uses = False
                for kind, b in ls.body_states:
                    for eff in b.effects:
                        for t in subterms(eff[3]) if eff[0] == 'setitem' else ():
                            if t[0] == 'sub' and t[1] == sig_t and t[2][0] == 'tuple' and len(t[2][1]) == 2 \
                                    and t[2][1][1] == ls.var:
                                uses = True
                if not uses:
                    continue
                it = ls.iter_term
                want = ('sub', ('attr', sig_t, 'shape'), C(1))
                if it[0] == 'call' and it[1] == 'builtins.range' and len(it[2]) == 1 \
                        and alg.poly(it[2][0]) == alg.poly(want):
                    verdict = verdict or ('pass', show(it)[:60])
                else:
                    verdict = ('fail', show(it)[:80])
        if verdict is None:
            ctx.undecided(rid, fi, c, 'no loop indexing the first-level columns')
        elif verdict[0] == 'pass':
            ctx.passed(rid, fi, c, verdict[1])
        else:
            ctx.violation(rid, fi, c, 'first-level columns %s[:, i] are indexed by a loop over %s' % (sig, verdict[1]),
                          expected='range(%s.shape[1])' % sig, found=verdict[1])
        def cap_in(D, entry_env, depth=0):
            """term bound to 'max_imfs' inside the option-dict term D (None when it cannot be read)"""
            if depth > 6:
                return None
            if D[0] == 'setitem':
                if D[2] == C('max_imfs'):
                    return D[3]
                return cap_in(D[1], entry_env, depth + 1)
            if D[0] == 'mut' and D[1] == 'setdefault' and D[3] and D[3][0] == C('max_imfs'):
                # d.setdefault('max_imfs', v): the caller's cap when there is one, else v
                inner = cap_in(D[2], entry_env, depth + 1)
                return ('setdefault', inner, D[3][1] if len(D[3]) > 1 else C(None))
            if D[0] == 'mut' and D[1] in ('setdefault', 'update', 'pop', 'copy'):
                return cap_in(D[2], entry_env, depth + 1)
            if D[0] == 'dict':
                for k_, v_ in D[1]:
                    if k_ == C('max_imfs'):
                        return v_
                return None
            if D[0] == 'call' and D[1] == 'builtins.dict':
                for k_, v_ in D[3]:
                    if k_ == 'max_imfs':
                        return v_
                if D[2]:
                    return cap_in(D[2][0], entry_env, depth + 1)
                return None
            if D[0] == 's' and '@F' in D[1]:
                root = entry_env.get(D[1].split('@')[0])
                return cap_in(root, entry_env, depth + 1) if root is not None else None
            if D[0] == 's':
                return ('sub', D, C('max_imfs'))
            return None
        # what is stored: the sift of column i goes to [:, i, :its own number of components] of an array allocated
        # samples x first-level IMFs x cap
        c_st = 'the sift of first-level column i is stored in [:, i, :k] (k = its own number of components)'
        c_al = 'the result is allocated samples x first-level IMFs x cap'
        bad_st = bad_al = None
        n_st = n_al = 0
        FULL = ('slice', C(None), C(None), C(None))
        for e in exits:
            if e.kind != 'return':
                continue
            sig_t = e.state.env.get(sig)
            rv = e.value
            fors = [ls for ls in e.state.loops if ls.kind == 'for']
            if not (rv[0] == 's' and '@F' in rv[1]):
                if fors and any(t[0] == 'call' and t[1] in ('numpy.zeros', 'numpy.empty', 'numpy.full') for t in subterms(rv)):
                    bad_st = 'the array returned (%s) is never written in the loop over the first-level columns: the ' \
                             'second-layer result is all zeros' % show(rv)[:50]
                continue
            outn = rv[1].split('@')[0]
            for ls in fors:
                alloc = ls.entry_env.get(outn)
                if alloc is not None:
                    shp = None
                    for t in subterms(alloc):
                        if t[0] == 'call' and t[1] in ('numpy.zeros', 'numpy.empty', 'numpy.full') and t[2]:
                            shp = t[2][0]
                        if t[0] == 'call' and t[1] == 'numpy.ones' and t[2]:
                            shp = t[2][0]
                            bad_al = 'the result starts as np.ones: the unused component slots of a column are 1, not 0'
                    if shp is not None and shp[0] in ('tuple', 'list') and len(shp[1]) == 3:
                        n_al += 1
                        want0 = ('sub', ('attr', sig_t, 'shape'), C(0))
                        want1 = ('sub', ('attr', sig_t, 'shape'), C(1))
                        if shp[1][0] != want0 or shp[1][1] != want1:
                            bad_al = 'allocated as %s' % show(shp)[:100].replace(show(sig_t), sig)
                    elif shp is not None:
                        bad_al = 'allocated as %s' % show(shp)[:100].replace(show(sig_t), sig)
                for kind, b in ls.body_states:
                    sets = [f for f in b.effects if f[0] == 'setitem' and f[5] == outn]
                    # zero-filling the unused tail of the column ([:, i, k:] = 0) next to the store is the zero
                    # padding the allocation provides otherwise
                    sets = [f for f in sets if not (
                        f[3] in (C(0), C(0.0)) and f[2][0] == 'tuple' and len(f[2][1]) == 3 and f[2][1][0] == FULL
                        and f[2][1][1] == ls.var and f[2][1][2][0] == 'slice' and f[2][1][2][1] != C(None)
                        and f[2][1][2][2] == C(None) and f[2][1][2][3] == C(None))]
                    if len(sets) != 1:
                        bad_st = 'a path through the column loop stores %d times into the result' % len(sets)
                        continue
                    idx, val = sets[0][2], sets[0][3]
                    n_st += 1
                    okv = val[0] in ('call', 'callv')
                    xarg = None
                    if okv:
                        kw = dict(val[3]) if val[0] == 'call' else {}
                        xarg = kw.get('X', val[2][0] if val[2] else None)
                    col = ('sub', sig_t, ('tuple', (FULL, ls.var)))
                    if not okv or xarg not in (col, ('sub', col, ('tuple', (FULL, C(None))))):
                        bad_st = 'the value stored for column %s is %s, not the sift of %s[:, %s]' % (
                            show(ls.var), show(val)[:60].replace(show(sig_t), sig), sig, show(ls.var))
                        continue
                    want_idx = ('tuple', (FULL, ls.var, ('slice', C(None), ('sub', ('attr', val, 'shape'), C(1)), C(None))))
                    if idx != want_idx:
                        bad_st = 'the sift of column %s is stored at %s' % (show(ls.var), show(idx)[:90].replace(show(val), 'tmp'))
                    # the cap the sift runs with is the third dimension of the result (otherwise the store overflows)
                    if shp is not None and shp[0] in ('tuple', 'list') and len(shp[1]) == 3 and val[0] == 'call':
                        capt = shp[1][2]
                        kw = dict(val[3])
                        got = None
                        if '**' in kw:
                            got = cap_in(kw['**'], ls.entry_env)
                        if got is None and kw.get('max_imfs', C(None)) != C(None):
                            got = kw.get('max_imfs')
                        if got is None and '**' in kw and kw['**'][0] == 's':
                            got = ('sub', kw['**'], C('max_imfs'))

                        def norm(t_):
                            # dict(d)['k'] reads the same entry as d['k']
                            if t_[0] == 'sub' and t_[2] == C('max_imfs'):
                                r_ = cap_in(t_[1], ls.entry_env)
                                if r_ is not None and r_ != t_:
                                    return norm(r_)
                            if t_[0] == 'sub' and t_[1][0] == 'call' and t_[1][1] == 'builtins.dict' and len(t_[1][2]) == 1 and not t_[1][3]:
                                return ('sub', t_[1][2][0], t_[2])
                            return t_
                        user_cap = None
                        for cd_, tr_, ln_ in b.conds:
                            if cd_[0] == 'cmp' and cd_[1] in ('in', 'notin') and cd_[2] == C('max_imfs'):
                                d_ = cd_[3]
                                while d_[0] == 'call' and d_[1] == 'builtins.dict' and len(d_[2]) == 1 and not d_[3]:
                                    d_ = d_[2][0]
                                if d_ == S('sift_args'):
                                    user_cap = (cd_[1] == 'in') == tr_
                        if user_cap and got is not None and norm(got) != ('sub', S('sift_args'), C('max_imfs')):
                            bad_al = "the caller's sift_args['max_imfs'] is replaced by %s: the second-level sifts can return " \
                                     'more components than the requested cap' % show(norm(got))[:50].replace(show(sig_t), sig)
                        elif got is None or norm(got) != norm(capt):
                            bad_al = 'the result has room for %s components per column but the sifts run with max_imfs=%s: a ' \
                                     'column with more components overflows the store' % (
                                         show(capt)[:50].replace(show(sig_t), sig), show(got)[:50].replace(show(sig_t), sig) if got else '<not set>')
        if bad_st:
            ctx.violation(rid, fi, c_st, bad_st)
        elif n_st:
            ctx.passed(rid, fi, c_st, '%d store states' % n_st)
        else:
            ctx.undecided(rid, fi, c_st, 'no store found')
        if bad_al:
            ctx.violation(rid, fi, c_al, bad_al)
        elif n_al:
            ctx.passed(rid, fi, c_al, '%d allocation states' % n_al)
        else:
            ctx.undecided(rid, fi, c_al, 'allocation not recognised')
        if q.endswith('.sift_second_layer'):
            if bad_none is not None:
                ctx.violation(rid, fi, 'option dict unpacked with ** is never None',
                              '`**sift_args` is reached with sift_args=None (TypeError for the default call)',
                              node=bad_none)
            elif n_star:
                ctx.passed(rid, fi, 'option dict unpacked with ** is never None', '%d call states' % n_star)
            else:
                ctx.note(rid, fi, 'option dict unpacked with ** is never None', 'no ** unpacking found')


def rule_layout(ctx, rid):
    """Each variant canonicalises its signal with the documented ensure_* before anything else uses it."""
    P = ctx.P
    table = [('emd.sift.sift', 'emd.support.ensure_1d_with_singleton'),
             ('emd.sift.mask_sift', 'emd.support.ensure_1d_with_singleton'),
             ('emd.sift.ensemble_sift', 'emd.support.ensure_1d_with_singleton'),
             ('emd.sift.complete_ensemble_sift', 'emd.support.ensure_1d_with_singleton'),
             ('emd.sift.get_next_imf', 'emd.support.ensure_1d_with_singleton'),
             ('emd.sift.get_next_imf_mask', 'emd.support.ensure_1d_with_singleton'),
             ('emd.sift.sift_second_layer', 'emd.support.ensure_2d'),
             ('emd.sift.mask_sift_second_layer', 'emd.support.ensure_2d')]
    for q, ens in table:
        fi = P.func(q)
        sig = fi.params[0]
        found = False
        for n in walk_local(fi.node):
            if isinstance(n, ast.Assign) and isinstance(n.value, ast.Call):
                d = P.resolve(fi.module, n.value.func, fi)
                if d == ens and any(isinstance(t, ast.Name) and t.id == sig for t in n.targets):
                    a0 = n.value.args[0] if n.value.args else None
                    if isinstance(a0, (ast.List, ast.Tuple)) and len(a0.elts) == 1 and isinstance(a0.elts[0], ast.Name) \
                            and a0.elts[0].id == sig:
                        found = True
        if found:
            ctx.passed(rid, fi, 'signal canonicalised by %s' % ens.split('.')[-1], node=fi.node)
        else:
            ctx.violation(rid, fi, 'signal canonicalised by %s' % ens.split('.')[-1],
                          'the signal parameter is no longer passed through %s' % ens.split('.')[-1], node=fi.node)
