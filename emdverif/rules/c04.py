"""C04 - single-IMF extraction obeys its stopping rule and always terminates."""
from . import siftcore

PROPERTY = 'C04'
EXPLANATION = (
    "Static argument on emd.sift.get_next_imf and its three stop functions. R1: on every path, for each stop rule, "
    "the returned IMF is (iterate - (U+L)/2) and the next iterate is (iterate - step*(U+L)/2), both envelopes taken "
    "from the current iterate with identical options (polynomial normal forms over envelope atoms, first iteration "
    "peeled, later iterations from a widened loop head). R2: the stop_method literal dispatches to the documented "
    "stop function with the documented actuals bound to the right formals. R3: the three stop predicates equal "
    "their documented criteria in boolean/comparison normal form. R4: a counter increases by exactly one on every "
    "path through the loop body, the limit guard (raising the convergence error) is passed before every increment "
    "for the sd/rilling rules, and the loop can only be left on 'stop fired' or 'envelope missing'. R5: a cleared "
    "flag implies the component is the unmodified input. R6: energy stop predicate and operands. "
    "Not decided: convergence speed; progress of the re-padding loop in get_padded_extrema (trusted np.pad).")
RULE_TEXT = ("an obligation is one rule on one construct per stop rule (exit class, dispatch arm, predicate, loop "
             "guard); distinct = distinct (rule, function, construct) keys")
FLOORS = {'C04.R1': 6, 'C04.R2': 3, 'C04.R3': 3, 'C04.R4': 6, 'C04.R5': 3, 'C04.R6': 1}
PINNED_EXPECT = [('C04.R5', 'emd.sift.get_next_imf', 'stop_method=sd'),
                 ('C04.R5', 'emd.sift.get_next_imf', 'stop_method=fixed')]


def run(ctx):
    P = ctx.P
    gni = P.func('emd.sift.get_next_imf')
    ctx.trust('interp_envelope is an opaque function of (signal, mode, options): equal canonical arguments give '
              'equal envelopes')
    ctx.trust('np.mean([a, b], axis=0) == (a+b)/2; elementwise arithmetic is real algebra up to rounding')
    ctx.assume('np.pad(reflect, odd) makes progress in the re-padding loop of get_padded_extrema (loop listed as '
               'unbounded, trusted)')
    ctx.rule(siftcore.rule_iterate_algebra, 'C04.R1', gni)
    from . import l2
    ctx.rule(l2.rule_inplace_input_dtype, 'C04.R1', ['emd.sift.get_next_imf'])
    ctx.rule(siftcore.rule_stop_dispatch, 'C04.R2', gni)
    ctx.rule(siftcore.rule_stop_predicates, 'C04.R3')
    ctx.rule(siftcore.rule_bounded_loop, 'C04.R4', gni)
    ctx.rule(siftcore.rule_extraction_loop_exits, 'C04.R4', gni)
    # the same options must be in force on every sifting iteration: an option dict changed by one envelope
    # computation (a key popped from the caller's pad table) gives later iterations different envelopes
    from .c06 import rule_no_replacement
    from . import c05
    ctx.rule(siftcore.rule_none_chain, 'C04.R8', gni)      # "returned unmodified" only for fewer than two extrema
    ctx.rule(c05.rule_strict_search, 'C04.R7')      # 'no extrema -> returned unmodified' is about strict extrema
    ctx.rule(rule_no_replacement, 'C04.R6', only={'emd.sift.get_next_imf', 'emd.sift.interp_envelope',
                                             'emd.sift.get_padded_extrema', 'emd.sift._find_extrema'})
    from ..effects import MutationAnalysis
    mp = MutationAnalysis(P).mutated_params(gni)
    c = 'the extraction does not modify the signal it is given'
    if gni.params[0] in mp:
        mu = mp[gni.params[0]][0]
        ctx.violation('C04.R6', gni, c, 'get_next_imf changes its input in place (%s): the caller\'s array ends up holding '
                      'an intermediate iterate, and the energy test compares the iterate with itself' % mu.what, node=mu.node)
    else:
        ctx.passed('C04.R6', gni, c)
    ctx.rule(siftcore.rule_cleared_flag, 'C04.R5', gni)
    ctx.rule(siftcore.rule_energy_stop, 'C04.R6', gni)
