"""C07 - masked sift applies documented masks, removes them, is schedule independent."""
import ast
from fractions import Fraction

from ..model import AnalysisError, unparse, walk_local
from ..paths import Evaluator, is_c, show, C, S, NONE, subterms, substitute
from ..poly import Poly
from .common import mk_algebra, trace_tail, loop_containing_call, flatten_comp, loop_counters, loop_counter_heads
from .c06 import _decode_fref
from . import pools

PROPERTY = 'C07'
EXPLANATION = (
    "R1 mask algebra: the value returned by get_next_imf_mask is decoded structurally as  mean over columns of "
    "( concat_k worker(X + M[:, k])[0]  -  M )  with the *same* mask matrix M added before and subtracted after the "
    "ordered pool map, the worker being single-IMF extraction, M = amp * cos(2 pi z t + phi_k), t = arange(N) "
    "repeated per phase; the flag is any() over the member flags. R2 grids: phases are linspace(0, 2pi, n+1)[:n]; "
    "automatic frequencies are z / step**k for k < cap; user lists are indexed by the layer; the array returned "
    "under ret_mask_freq is the array that was indexed. R3 schedule independence: every pool dispatch on the mask "
    "path uses an order-preserving API and its worker cone has no global effects (no RNG draw, no module state). "
    "R4 amplitude modes: sd = std(X) for 'ratio_sig', std(X) at layer 0 and std(last column) afterwards for "
    "'ratio_imf', 1 for 'abs'; amp = mask_amp[.layer] * sd; so a zero amplitude gives M = 0 and R1 reduces to "
    "unmasked extraction. Option forwarding inside the mask path is C06.R1. Not decided: numerical closeness to an "
    "executable specification.")
RULE_TEXT = "one obligation per structural clause of the mask algebra / grid / dispatch site / amplitude mode"
FLOORS = {'C07.R1': 6, 'C07.R2': 4, 'C07.R3': 2, 'C07.R4': 4}

# the result is a mean over the members (and the flag an any()), both invariant under a permutation of the members as
# long as each worker result is paired with... nothing: sum_k w_pi(k) - sum_k m_k does not depend on pi.  An unordered
# map is therefore behaviour-preserving and accepted.
MAPS = ('starmap', 'map', 'imap', 'imap_unordered')
GNIM = 'emd.sift.get_next_imf_mask'
GNI = 'emd.sift.get_next_imf'
TWO_PI = ('bin', '*', C(2), ('ref', 'numpy.pi'))


def run(ctx):
    ctx.trust('Pool.starmap/map return results in submission order; np.concatenate(axis=1) keeps the order of its parts')
    ctx.rule(rule_mask_algebra, 'C07.R1')
    ctx.rule(rule_grids, 'C07.R2')
    ctx.rule(rule_zero_crossings, 'C07.R2')
    ctx.rule(rule_schedule, 'C07.R3')
    ctx.rule(rule_amplitude, 'C07.R4')
    ctx.rule(rule_phase_count, 'C07.R2')
    ctx.rule(rule_numeric_first_frequency, 'C07.R2')
    ctx.rule(rule_ladder_selection, 'C07.R2')
    # the mask-frequency estimate and the masked extractions run with the caller's options: the first-IMF estimate is
    # the masked sift's own first extraction only if it sees the same extrema / envelope options
    from .c06 import rule_carrier_flow
    ctx.rule(rule_carrier_flow, 'C07.R5', only={'emd.sift.mask_sift', 'emd.sift.get_mask_freqs', 'emd.sift.get_next_imf_mask'})


def rule_zero_crossings(ctx, rid):
    """The 'zc' mask frequency counts sign changes of the first IMF with np.sign, for which an exact zero is its own
    sign (a zero between two positive samples gives two changes, a zero at a crossing none extra).  np.signbit folds
    zero into the positive side and halves the count on quantised waves."""
    P = ctx.P
    fi = P.func('emd.sift.zero_crossing_count')
    c = 'zero crossings are counted on np.sign (exact zeros are a sign of their own)'
    exits = [e for e in Evaluator(P).run(fi) if e.kind == 'return']
    ctx.paths += len(exits)
    uses_sign = all(any(t[0] == 'call' and t[1] == 'numpy.sign' for t in subterms(e.value)) for e in exits)
    signbit = [t for e in exits for t in subterms(e.value) if t[0] == 'call' and t[1] in ('numpy.signbit',)]
    strict = [t for e in exits for t in subterms(e.value) if t[0] == 'cmp' and t[1] in ('>', '<', '>=', '<=')
              and (t[3] == C(0) or t[2] == C(0))]
    if signbit or (strict and not uses_sign):
        ctx.violation(rid, fi, c, 'the count is taken on %s: samples that are exactly zero are lumped with one side, so a '
                      'wave with exact zeros gets a different first mask frequency (and with it the whole ladder)'
                      % ('np.signbit' if signbit else 'a one-sided comparison with 0'),
                      found=show((signbit or strict)[0])[:80])
    elif exits and uses_sign:
        ctx.passed(rid, fi, c)
    else:
        ctx.note(rid, fi, c, 'zero-crossing count is not expressed through np.sign: %s'
                 % (show(exits[0].value)[:80] if exits else 'no return'))


def _strip_shape(t):
    from ..poly import _shape_only_index
    while t[0] == 'sub' and _shape_only_index(t[2]):
        t = t[1]
    return t


def _is_layer_index(k, trace, heads, alg):
    """k is the number of layers completed so far: 0 in the first (peeled) iteration of the layer loop, the loop-head
    value of the layer counter afterwards (whatever the counter is called and wherever in the body it is stepped)"""
    first = any('while[1]' in t for t in trace[-14:]) and not any('iteration>=2' in t for t in trace)
    try:
        pk = alg.poly(k)
    except Exception:
        return False
    if first:
        return pk == alg.poly(C(0))
    return any(pk == alg.poly(h) for h in heads)


def _reduction_body(t):
    """the reduction behind a result, shape-only indexing stripped and spelt as a method:
    np.mean(x, axis=1, keepdims=True)  ==  x.mean(axis=1)[:, None]"""
    body = _strip_shape(t)
    if body[0] == 'call' and body[1] in ('numpy.mean', 'numpy.sum', 'numpy.median', 'numpy.max', 'numpy.min',
                                         'numpy.nanmean', 'numpy.std') and len(body[2]) == 1:
        body = ('meth', body[1].split('.')[-1], body[2][0], (),
                tuple((k_, v_) for k_, v_ in body[3] if not (k_ == 'keepdims' and v_ in (C(True), C(False)))))
    elif body[0] == 'meth' and dict(body[4]).get('keepdims') in (C(True), C(False)):
        body = body[:4] + (tuple((k_, v_) for k_, v_ in body[4] if k_ != 'keepdims'),)
    return body


def rule_mask_algebra(ctx, rid):
    P = ctx.P
    fi = P.func(GNIM)
    exits = [e for e in Evaluator(P).run(fi) if e.kind == 'return']
    ctx.paths += len(exits)
    alg = mk_algebra()
    X = alg.poly(S(fi.params[0]))
    names = {
        'mean': 'result is the mean over the phase columns',
        'remove': 'the mask matrix subtracted after the map is the one added before it, column by column',
        'worker': 'each member is single-IMF extraction of X + mask column k (first element of its result)',
        'mask': 'mask is amp * cos(2 pi z t + phase_k) with t = sample index',
        'flag': 'continue flag is a symmetric reduction (any / all) over the member flags',
        'nmembers': 'one member per requested phase',
    }
    problems = {}
    if not exits:
        for k, c in names.items():
            ctx.undecided(rid, fi, c, 'no return path')
        return
    for e in exits:
        v = e.value
        if not (v[0] == 'tuple' and len(v[1]) == 2):
            problems['mean'] = 'unexpected return %s' % show(v)[:60]
            continue
        imf, flag = v[1]
        body = _reduction_body(imf)
        if not (body[0] == 'meth' and body[1] == 'mean' and dict(body[4]).get('axis') == C(1)):
            problems['mean'] = 'result is %s(...)' % (body[1] if body[0] == 'meth' else show(body)[:50])
            continue
        im = body[2]
        if not (im[0] == 'bin' and im[1] == '-'):
            problems['remove'] = 'masks are not subtracted from the stacked members: %s' % show(im)[:70]
            continue
        conc, M = im[2], im[3]
        if conc[0] == 'call' and conc[1] in ('numpy.hstack', 'numpy.column_stack') and len(conc[2]) == 1 and not conc[3]:
            # the members are [samples x 1] columns (C03.R6): hstack / column_stack of them is concatenation on axis 1
            conc = ('call', 'numpy.concatenate', conc[2], (('axis', C(1)),))
        if not (conc[0] == 'call' and conc[1] == 'numpy.concatenate' and dict(conc[3]).get('axis') == C(1)
                and conc[2] and conc[2][0][0] == 'comp'):
            problems['remove'] = 'members are not stacked column-wise in order: %s' % show(conc)[:70]
            continue
        comp = conc[2][0]
        rvar, res, cnds = comp[3][0]
        if comp[2] != ('sub', rvar, C(0)) or cnds:
            problems['worker'] = 'stacked element is %s, expected the component r[0] of every member' % show(comp[2])[:40]
        if res[0] == 'call' and res[1] == 'builtins.list' and len(res[2]) == 1:
            res = res[2][0]
        if not (res[0] == 'meth' and res[1] in MAPS and len(res[3]) == 2):
            problems['worker'] = 'members do not come from a pool map over the mask phases: %s' % show(res)[:60]
            continue
        d = _decode_fref(P, res[3][0])
        if d is None or d[0] != GNI:
            problems['worker'] = 'worker is %s' % show(res[3][0])[:60]
        args = flatten_comp(res[3][1])
        if args[0] == 'comp' and args[2][0] not in ('list', 'tuple') and res[1] in ('map', 'imap', 'imap_unordered'):
            args = ('comp', args[1], ('list', (args[2],)), args[3])      # map passes one argument per member
        if not (args[0] == 'comp' and args[2][0] in ('list', 'tuple') and len(args[2][1]) == 1):
            problems['worker'] = 'worker arguments are %s' % show(args)[:70]
            continue
        ivar, it, _ = args[3][0]
        a0 = args[2][1][0]
        by_columns = it[0] == 'attr' and it[2] == 'T' and _strip_shape(a0) == ivar
        if by_columns:
            # the members run over the columns of the masked signal matrix: for col in (X + M).T -> col[:, None]
            # (one member per mask column; the mask matrix has nphases columns, checked with the mask formula below)
            try:
                rest_ = alg.poly(it[1]) - X
            except Exception:
                rest_ = None
            if rest_ is None or rest_ != alg.poly(M):
                problems['remove'] = 'the matrix whose columns are sifted is %s, not X + the mask matrix removed afterwards' \
                    % show(it[1])[:60]
        elif not (it == ('call', 'builtins.range', (S('nphases'),), ())):
            problems['nmembers'] = 'members are generated over %s' % show(it)[:40]
        # a0 = X + M2[:, ii, newaxis]
        p = alg.poly(a0) if not by_columns else X
        rest = p - X
        sm = rest.single_monomial() if not by_columns else None
        added = None
        if by_columns:
            added = ('sub', M, ('tuple', (('slice', C(None), C(None), C(None)), ivar)))
        elif sm is not None and sm[1] == 1 and len(sm[0]) == 1:
            added = alg.atom_terms.get(sm[0][0][0])
        if added is None:
            # the mask column may itself be arithmetic: find M2 structurally
            cand = [t for t in subterms(a0) if t[0] == 'sub' and t[2][0] == 'tuple' and ivar in t[2][1]]
            added = cand[0] if cand else None
            if added is None or alg.poly(('bin', '+', S(fi.params[0]), added)) != p:
                problems['worker'] = 'member input is %s, expected X + mask column' % str(p)[:80]
                continue
        def _is_col(ix):
            # column k of the matrix: [:, k] / [:, k, None] / [:, k:k+1]
            if ix == ivar:
                return True
            return ix[0] == 'slice' and ix[1] == ivar and alg.poly(ix[2]) == alg.poly(('bin', '+', ivar, C(1))) \
                and ix[3] == C(None)
        if not (added[0] == 'sub' and added[2][0] == 'tuple' and len(added[2][1]) >= 2 and _is_col(added[2][1][1])):
            problems['remove'] = 'the added mask is %s (not column k of the mask matrix)' % show(added)[:60]
            continue
        M2 = added[1]
        if alg.poly(M2) != alg.poly(M):
            problems['remove'] = 'added mask %s differs from the removed mask %s' % (show(M2)[:50], show(M)[:50])
        # mask formula
        mp = alg.poly(M)
        cos_atoms = [a for a in mp.atoms() if a.startswith('numpy.cos(')]
        amp = S('amp')
        okm = False
        if len(cos_atoms) == 1 and mp == alg.poly(amp) * Poly.atom(cos_atoms[0]):
            ct = alg.atom_terms[cos_atoms[0]]
            arg = ct[2][0]
            ap = alg.poly(arg)
            # expected: 2*pi*z*T + PH
            Ts = [t for t in subterms(arg) if t[0] == 'call' and t[1] == 'numpy.repeat']
            PHs = [t for t in subterms(arg) if t[0] == 'sub' and t[1][0] == 'call' and t[1][1] == 'numpy.linspace']
            if not PHs:
                PHs = [t for t in subterms(arg) if t[0] == 'call' and t[1] == 'numpy.linspace']
            if len(Ts) == 1 and len(PHs) == 1:
                want = alg.poly(('bin', '+', ('bin', '*', ('bin', '*', TWO_PI, S('z')), Ts[0]), PHs[0]))
                T = Ts[0]
                col = T[2][0]
                # the sample index as a column: arange(n)[:, None] or arange(n).reshape(-1, 1)
                if col[0] == 'meth' and col[1] == 'reshape' and col[3] in ((C(-1), C(1)), (('tuple', (C(-1), C(1))),)):
                    col = ('sub', col[2], ('tuple', (('slice', NONE, NONE, NONE), NONE)))
                t_ok = col[0] == 'sub' and col[1][0] == 'call' and col[1][1] == 'numpy.arange' \
                    and len(col[1][2]) == 1 and 'shape' in show(col[1][2][0]) and T[2][1] == S('nphases') \
                    and dict(T[3]).get('axis') == C(1)
                okm = (ap == want) and t_ok
        if not okm:
            problems['mask'] = 'mask matrix is %s' % show(M)[:120]
        # flag
        # any() is what the code documents; all() over the same member flags is an equally schedule-independent
        # reduction and the property says nothing about which of the two ends a masked sift
        okf = flag[0] == 'call' and flag[1] in ('numpy.any', 'builtins.any', 'numpy.all', 'builtins.all') and flag[2] and flag[2][0][0] == 'comp' \
            and flag[2][0][2] == ('sub', flag[2][0][3][0][0], C(1)) and flag[2][0][3][0][1] in (res, ('call', 'builtins.list', (res,), ()))
        if not okf:
            problems['flag'] = 'flag is %s' % show(flag)[:80]
    for k, c in names.items():
        if k in problems:
            ctx.violation(rid, fi, c, problems[k])
        else:
            ctx.passed(rid, fi, c)


def rule_grids(ctx, rid):
    P = ctx.P
    fi = P.func(GNIM)
    exits = [e for e in Evaluator(P).run(fi) if e.kind == 'return']
    c = 'mask phases are n equally spaced values in [0, 2pi): linspace(0, 2pi, n+1)[:n]'
    alg = mk_algebra()
    ok = False
    found = None
    for e in exits:
        for t in subterms(e.value):
            if t[0] == 'call' and t[1] == 'numpy.linspace':
                found = t
    if found is not None:
        kw = dict(found[3])
        a, b, n = found[2][0], found[2][1], found[2][2] if len(found[2]) > 2 else kw.get('num')
        endpoint = kw.get('endpoint', C(True))
        n1 = alg.poly(('bin', '+', S('nphases'), C(1)))
        # one full turn in n equal steps, starting at a multiple of 2 pi (cos is 2 pi periodic: the descending grid
        # 2pi, 2pi - 2pi/n, ... is the same set of masks)
        try:
            pa, pb = alg.poly(a), alg.poly(b)
            full_turn = (pa == alg.poly(C(0)) and pb == alg.poly(TWO_PI)) or (pa == alg.poly(TWO_PI) and pb == alg.poly(C(0)))
        except Exception:
            full_turn = False
        if full_turn:
            if endpoint == C(True) and alg.poly(n) == n1:
                # must be truncated to n
                tr = [t for e in exits for t in subterms(e.value) if t[0] == 'sub' and t[1] == found]
                ok = bool(tr) and all(t[2] == ('slice', NONE, S('nphases'), NONE) or t[2] == ('slice', NONE, C(-1), NONE)
                                      for t in tr)
            elif endpoint == C(False) and alg.poly(n) == alg.poly(S('nphases')):
                ok = True
    if ok:
        ctx.passed(rid, fi, c)
    else:
        ctx.violation(rid, fi, c, 'phase grid is %s' % (show(found)[:80] if found else 'not found'))
    # frequency ladder & indexing in mask_sift
    ms = P.func('emd.sift.mask_sift')
    loops = loop_containing_call(P, ms, lambda ca: ca.kind == 'repo' and ca.dotted == GNIM)
    if len(loops) != 1:
        raise AnalysisError('mask_sift: expected one layer loop')
    loop, callnode, callee = loops[0]
    recs = []

    def hook(ca, bound, star, st, e):
        if e is callnode:
            recs.append((bound, dict(st.env), list(st.trace), list(st.conds)))
        return None
    ev = Evaluator(P, callee_hook=hook)
    exits = ev.run(ms, context={'mask_amp_mode': 'ratio_sig', 'ret_mask_freq': True})
    ctx.paths += len(exits)
    c1 = 'automatic mask frequencies are z / step**k for k < cap'
    c2 = 'the mask frequency of layer k is entry k of the frequency array'
    c3 = 'the frequencies returned under ret_mask_freq are the array that was indexed'
    ladder_ok = None
    idx_ok = True
    arrays = set()
    layer_names = loop_counters(exits, loop, alg)       # the layer counter, found by role (0 at entry, +1 per layer)
    layer_heads = loop_counter_heads(exits, loop, layer_names)
    for bound, env, trace, conds in recs:
        z = bound.get('z')
        if not (z is not None and z[0] == 'sub'):
            idx_ok = False
            continue
        arr, k = z[1], z[2]
        arrays.add(arr)
        if not any(k == env.get(nm_) for nm_ in layer_names):
            idx_ok = False
        if arr[0] == 'call' and arr[1] == 'numpy.array' and arr[2] and arr[2][0][0] == 'comp':
            comp = arr[2][0]
            var, it, _ = comp[3][0]
            zt = [t for t in subterms(comp[2]) if t[0] == 'call' and t[1] == 'emd.sift.get_mask_freqs']
            want = ('bin', '/', zt[0], ('bin', '**', S('mask_step_factor'), var)) if zt else None
            good = want is not None and alg.poly(comp[2]) == alg.poly(want) \
                and it == ('call', 'builtins.range', (S('max_imfs'),), ())
            ladder_ok = good if ladder_ok is None else (ladder_ok and good)
            if not good:
                ladder_bad = show(arr)[:100]
    if ladder_ok:
        ctx.passed(rid, ms, c1)
    elif ladder_ok is None:
        ctx.undecided(rid, ms, c1, 'no automatic frequency ladder reached')
    else:
        ctx.violation(rid, ms, c1, 'ladder is %s' % ladder_bad, expected='[z / mask_step_factor**ii for ii in range(max_imfs)]')
    if idx_ok and recs:
        ctx.passed(rid, ms, c2, '%d call states' % len(recs))
    else:
        ctx.violation(rid, ms, c2, 'layer k does not use mask_freqs[k]')
    ret_arrays = set()
    for e in exits:
        if e.kind == 'return' and e.value[0] == 'tuple' and len(e.value[1]) == 2:
            ret_arrays.add(e.value[1][1])
    if ret_arrays and ret_arrays <= arrays:
        ctx.passed(rid, ms, c3)
    elif not ret_arrays:
        ctx.violation(rid, ms, c3, 'ret_mask_freq=True does not return (imf, frequencies)')
    else:
        ctx.violation(rid, ms, c3, 'returned %s' % [show(a)[:60] for a in ret_arrays - arrays])
    # user list shortens the cap
    c4 = 'a user frequency list shorter than the cap lowers the cap to its length'
    okc = False
    for bound, env, trace, conds in recs:
        if env.get('max_imfs') == ('call', 'builtins.len', (S('mask_freqs'),), ()):
            okc = True
    if okc:
        ctx.passed(rid, ms, c4)
    else:
        ctx.violation(rid, ms, c4, 'cap is never reduced to len(mask_freqs)')


def rule_schedule(ctx, rid):
    P = ctx.P
    n = 0
    for q in (GNIM, 'emd.sift.mask_sift', 'emd.sift.get_mask_freqs'):
        fi = P.func(q)
        for call, meth, ca in pools.dispatch_sites(P, fi):
            n += 1
            c = '%s(%s): schedule-independent collection of the member results' % (meth, ca.func.name)
            if meth in pools.ORDERED:
                ctx.passed(rid, fi, c, node=call)
            elif meth in MAPS:
                ctx.passed(rid, fi, c, 'Pool.%s is unordered, but the result is a mean over members minus the mean '
                           'of the masks (R1), which no permutation of the members changes' % meth, node=call)
            else:
                ctx.violation(rid, fi, c, 'Pool.%s does not return one result per submitted member' % meth, node=call)
            c2 = '%s(%s): worker cone has no global effects' % (meth, ca.func.name)
            r = pools.may_draw(P, ca.func.qualname)
            glob = []
            stack = [ca.func.qualname]
            seen = set()
            while stack:
                x = stack.pop()
                if x in seen:
                    continue
                seen.add(x)
                glob += [(x, w) for _, w in pools.module_state_writes(P, P.funcs[x])]
                stack.extend(y for y in P.callgraph().get(x, ()) if P.funcs[y].module.name != 'emd.logger')
            if r is not None:
                ctx.violation(rid, fi, c2, 'the worker can draw from the global RNG: %s' % ' -> '.join(r), node=call)
            elif glob:
                ctx.violation(rid, fi, c2, 'the worker cone writes module state: %s in %s' % (glob[0][1], glob[0][0]),
                              node=call)
            else:
                ctx.passed(rid, fi, c2, '%d functions in the cone' % len(seen), node=call)
    ctx.cover['mask_dispatch_sites'] = n


def rule_amplitude(ctx, rid):
    P = ctx.P
    ms = P.func('emd.sift.mask_sift')
    loops = loop_containing_call(P, ms, lambda ca: ca.kind == 'repo' and ca.dotted == GNIM)
    loop, callnode, callee = loops[0]
    alg = mk_algebra()
    Xs = S(ms.params[0])
    for mode in ('ratio_imf', 'ratio_sig', 'abs'):
        recs = []

        def hook(ca, bound, star, st, e):
            if e is callnode:
                recs.append((bound, dict(st.env), list(st.trace)))
            return None
        ev = Evaluator(P, callee_hook=hook)
        exits = ev.run(ms, context={'mask_amp_mode': mode, 'ret_mask_freq': False})
        ctx.paths += len(exits)
        layer_names = loop_counters(exits, loop, alg)
        layer_heads = loop_counter_heads(exits, loop, layer_names)
        ctx.contexts.append({'function': ms.qualname, 'mask_amp_mode': mode})
        c = "mask_amp_mode '%s': amp = mask_amp[.layer] * %s" % (
            mode, {'ratio_imf': 'std(X) first, then std(previous IMF)', 'ratio_sig': 'std(X)', 'abs': '1'}[mode])
        bad = None
        n = 0
        for bound, env, trace in recs:
            amp = bound.get('amp')
            if amp is None:
                bad = 'no amplitude passed'
                continue
            n += 1
            p = alg.poly(amp)
            first = any('while[1]' in t for t in trace[-12:]) and not any('iteration>=2' in t for t in trace)
            # scale factor: mask_amp or mask_amp[layer]
            scal = [alg.poly(S('mask_amp'))]
            amp_idx = [t_ for t_ in subterms(amp) if t_[0] == 'sub' and t_[1] == S('mask_amp')]
            for t_ in amp_idx:
                if any(t_[2] == env.get(nm_) for nm_ in layer_names):
                    scal.append(alg.poly(t_))
            stdX = ('meth', 'std', ('call', 'emd.support.ensure_1d_with_singleton', (), ()), (), ())
            std_atoms = [a for a in p.atoms() if '.std(' in a or 'numpy.std(' in a]
            if mode == 'abs':
                if p not in scal:
                    bad = 'amp is %s' % str(p)[:80]
                continue
            if len(std_atoms) != 1:
                bad = 'amp is %s (expected one standard deviation factor)' % str(p)[:80]
                continue
            sd = alg.atom_terms.get(std_atoms[0])
            if p not in [s * Poly.atom(std_atoms[0]) for s in scal]:
                bad = 'amp is %s' % str(p)[:80]
                continue
            base = sd[2][0] if sd[0] == 'call' else sd[2]
            of_input = alg.poly(base) == alg.poly(Xs)
            of_last = base[0] == 'sub' and base[2][0] == 'tuple' and base[2][1][-1] == C(-1)
            if mode == 'ratio_sig' and not of_input:
                bad = 'standard deviation of %s, expected of the input' % show(base)[:50]
            if mode == 'ratio_imf':
                if first and not of_input:
                    bad = 'first layer uses std of %s, expected std of the input' % show(base)[:50]
                if not first and not of_last:
                    bad = 'later layers use std of %s, expected std of the last extracted IMF' % show(base)[:50]
        if bad:
            ctx.violation(rid, ms, c, bad, node=callnode)
        elif n == 0:
            ctx.undecided(rid, ms, c, 'extraction call never reached in this mode')
        else:
            ctx.passed(rid, ms, c, '%d call states' % n, node=callnode)
    # zero amplitude: amp is a pure product, so amp = 0 gives M = 0
    fi = P.func(GNIM)
    c = 'a zero mask amplitude gives a zero mask (mask is a multiple of amp)'
    exits = [e for e in Evaluator(P).run(fi) if e.kind == 'return']
    ok = False
    for e in exits:
        v = e.value
        if v[0] == 'tuple':
            body = _reduction_body(v[1][0])
            if body[0] == 'meth' and body[2][0] == 'bin':
                M = body[2][3]
                z = alg.poly(substitute(M, {S('amp'): C(0)}))
                ok = z.is_zero()
    if ok:
        ctx.passed(rid, fi, c)
    else:
        ctx.violation(rid, fi, c, 'the mask does not vanish with amp = 0')


def rule_phase_count(ctx, rid):
    """'the requested number of mask phases': every masked extraction dispatched by mask_sift receives the caller's
    nphases (a dropped keyword silently falls back to the default of get_next_imf_mask), and inside the extraction the
    number of masks built, of jobs dispatched and of results averaged is that same nphases."""
    P = ctx.P
    ms = P.func('emd.sift.mask_sift')
    recs = []

    def hook(ca, bound, star, st, e):
        if ca.dotted == GNIM:
            recs.append((bound, e))
        return None
    Evaluator(P, callee_hook=hook).run(ms)
    c = 'every masked extraction is dispatched with the requested number of phases'
    if not recs:
        ctx.undecided(rid, ms, c, 'no call of get_next_imf_mask found')
    else:
        bad = [(b, e) for b, e in recs if b.get('nphases') != S('nphases')]
        if bad:
            b, e = bad[0]
            ctx.violation(rid, ms, c, 'get_next_imf_mask is called with nphases=%s: the requested number of phases is '
                          'replaced by the default of the extraction routine' % (show(b['nphases'])[:30] if 'nphases' in b else '<default>'),
                          node=e)
        else:
            ctx.passed(rid, ms, c, '%d call state(s)' % len(recs))


def rule_numeric_first_frequency(ctx, rid):
    """A first mask frequency given as a number in (0, 0.5) is used as it is: get_mask_freqs folded on the literals
    0.01, 0.1, 0.25, 0.49 returns that literal on every path (no estimate from the data, no unbound result)."""
    P = ctx.P
    fi = P.func('emd.sift.get_mask_freqs')
    c = 'a numeric first mask frequency 0 < x < 0.5 is returned unchanged'
    bad = None
    n = 0
    for v in (0.01, 0.1, 0.25, 0.49):
        for e in Evaluator(P).run(fi, context={'first_mask_mode': v}):
            ctx.paths += 1
            n += 1
            if e.kind != 'return':
                bad = 'first_mask_mode=%s: %s %s' % (v, e.kind, show(e.value)[:60])
            elif e.value != C(v):
                if e.value[0] == 's' and str(e.value[1]).startswith('global:'):
                    bad = 'first_mask_mode=%s: the result variable is never assigned (UnboundLocalError)' % v
                else:
                    bad = 'first_mask_mode=%s returns %s' % (v, show(e.value)[:60])
            if bad:
                break
        if bad:
            break
    if bad:
        ctx.violation(rid, fi, c, bad)
    elif n == 0:
        ctx.undecided(rid, fi, c, 'no path')
    else:
        ctx.passed(rid, fi, c, '4 literals, %d paths' % n)
    # the data-driven modes produce a value on every path (a result variable that is read before any assignment is an
    # UnboundLocalError for every input), computed from an unmasked first extraction of the signal
    c2 = "the data-driven modes 'zc' and 'if' deliver an estimate computed from the first unmasked IMF of the signal"
    bad = None
    n = 0
    for mode in ('zc', 'if'):
        for e in Evaluator(P).run(fi, context={'first_mask_mode': mode}):
            ctx.paths += 1
            if e.kind != 'return':
                bad = "first_mask_mode='%s': %s %s" % (mode, e.kind, show(e.value)[:60])
                break
            n += 1
            unb = [t for t in subterms(e.value) if t[0] == 's' and str(t[1]).startswith('global:')]
            if unb:
                bad = "first_mask_mode='%s': %s is read but never assigned on this path (NameError for every input)" % (
                    mode, unb[0][1].split(':', 1)[1])
                break
            gni = [t for t in subterms(e.value) if t[0] == 'call' and t[1] == 'emd.sift.get_next_imf']
            if not gni or dict(gni[0][3]).get('X') != S('X'):
                bad = "first_mask_mode='%s': the estimate %s is not computed from get_next_imf(X, ...)" % (mode, show(e.value)[:70])
                break
        if bad:
            break
    if bad:
        ctx.violation(rid, fi, c2, bad)
    elif n == 0:
        ctx.undecided(rid, fi, c2, 'no path')
    else:
        ctx.passed(rid, fi, c2, '%d paths' % n)


def rule_ladder_selection(ctx, rid):
    """mask_sift folded on mask_freqs in {'zc', 'if', 0.25}: no path raises before the layer loop and every masked
    extraction takes its frequency from the automatic ladder built on get_mask_freqs(X, that value, ...)."""
    P = ctx.P
    ms = P.func('emd.sift.mask_sift')
    c = "for mask_freqs 'zc', 'if' or a number the frequencies are the automatic ladder on get_mask_freqs(X, mask_freqs)"
    bad = None
    n = 0
    for v in ('zc', 'if', 0.25):
        recs = []

        def hook(ca, bound, star, st, e):
            if ca.dotted == GNIM:
                recs.append(bound)
            return None
        exits = Evaluator(P, callee_hook=hook).run(ms, context={'mask_freqs': v, 'mask_amp_mode': 'ratio_sig', 'ret_mask_freq': True})
        ctx.paths += len(exits)
        for e in exits:
            if e.kind == 'raise' and not recs:
                bad = 'mask_freqs=%r: %s before any extraction' % (v, show(e.value)[:70])
            if e.kind == 'raise' and e.value[0] == 'call' and e.value[1] in ('builtins.TypeError', 'builtins.NameError'):
                bad = 'mask_freqs=%r raises %s' % (v, show(e.value)[:70])
        if not recs and not bad:
            bad = 'mask_freqs=%r: no masked extraction is reached' % (v,)
        for bound in recs:
            n += 1
            z = bound.get('z', NONE)
            gm = [t for t in subterms(z) if t[0] == 'call' and t[1] == 'emd.sift.get_mask_freqs']
            if not gm:
                bad = 'mask_freqs=%r: the mask frequency %s does not come from get_mask_freqs' % (v, show(z)[:60])
                break
            kw = dict(gm[0][3])
            if kw.get('first_mask_mode') != C(v) or kw.get('X', NONE)[0] == 'c':
                bad = 'mask_freqs=%r: get_mask_freqs is called with first_mask_mode=%s' % (v, show(kw.get('first_mask_mode', NONE))[:30])
                break
        if bad:
            break
    if bad:
        ctx.violation(rid, ms, c, bad)
    elif n == 0:
        ctx.undecided(rid, ms, c, 'no extraction call evaluated')
    else:
        ctx.passed(rid, ms, c, '%d call states' % n)
