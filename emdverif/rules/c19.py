"""C19 - array inputs are layout-insensitive, validated and never modified."""
import ast

from ..model import AnalysisError, unparse, walk_local
from ..paths import Evaluator, is_c, show, C, S, NONE, subterms, State, substitute
from ..shapes import ShapeEval, Undecided, Raises
from ..effects import MutationAnalysis
from .common import trace_tail
from . import l1

PROPERTY = 'C19'
EXPLANATION = (
    "R1 shape classes: each ensure_* routine is evaluated along all its paths (the loop over its one-element input "
    "list is unrolled); for every representative shape (5,), (5,1), (5,1,1), (5,2), (1,5), (5,1,3), (5,2,3) the path "
    "conditions are folded in the shape domain to select the path taken, and its outcome (canonical shape / raise / "
    "pass-through) is compared with the documented contract. R2: in every single-signal routine the ensure_* call "
    "on the signal precedes every other use of that parameter, so all accepted layouts continue as one value. "
    "R3: alias/freshness/mutation analysis (flow-sensitive, interprocedural summaries) over every public function "
    "and method of the numeric modules: no store, in-place method, augmented assignment, del or out= reaches an "
    "array or dict that belongs to the caller. R4: multi-array routines call ensure_equal_dims on their arrays and "
    "its library attributes resolve (L1). R5: numeric modules hold no mutable module-level state (no global "
    "statements / module attribute stores), which with R3 gives repeatability of deterministic calls. "
    "Not decided: value equality beyond 'same canonical input'.")
RULE_TEXT = ("R1: one obligation per (ensure routine, representative shape); R2: per routine; R3: per public "
             "function/method; R4: per multi-array routine; R5: per module")
FLOORS = {'C19.R1': 17, 'C19.R2': 8, 'C19.R3': 100, 'C19.R4': 4, 'C19.R5': 6}
PINNED_EXPECT = [('C19.R1', 'emd.support.ensure_1d_with_singleton', '(5, 2)'),
                 ('C19.R1', 'emd.support.ensure_vector', '(5, 1, 3)'),
                 ('C19.R3', 'emd.sift.mask_sift_second_layer', 'sift_args'),
                 ('C19.R3', 'emd.cycles.Cycles.add_cycle_metric', 'cycle_vals'),
                 ('L1', 'emd.support.ensure_equal_dims', 'numpy.alltrue')]

NUMERIC = ['emd.sift', 'emd.spectra', 'emd.cycles', 'emd._cycles_support', 'emd.utils', 'emd.support']
SHAPES = [(5,), (5, 1), (5, 1, 1), (5, 2), (1, 5), (5, 1, 3), (5, 2, 3), (1, 5, 1), (1, 1, 5), (1,), (1, 1)]
ORACLE = {
    'ensure_1d_with_singleton': {(5,): (5, 1), (5, 1): (5, 1), (5, 1, 1): (5, 1), (5, 2): 'raise', (1, 5): 'raise',
                                 (5, 1, 3): 'raise', (5, 2, 3): 'raise', (1, 5, 1): 'raise', (1, 1, 5): 'raise',
                                 (1,): (1, 1), (1, 1): (1, 1)},
    'ensure_vector': {(5,): (5,), (5, 1): (5,), (5, 1, 1): 'raise', (5, 2): 'raise', (1, 5): 'raise',
                      (5, 1, 3): 'raise', (5, 2, 3): 'raise', (1, 5, 1): 'raise', (1, 1, 5): 'raise',
                      (1,): (1,), (1, 1): (1,)},
    # ensure_2d only adds the column axis to vectors: everything that already has >= 2 axes passes through unchanged
    # (a single time sample of several components, shape (1, M), stays one row)
    'ensure_2d': {(5,): (5, 1), (5, 1): (5, 1), (5, 2): (5, 2), (1, 5): (1, 5), (1,): (1, 1), (1, 1): (1, 1),
                  (5, 2, 3): (5, 2, 3), (1, 5, 1): (1, 5, 1)},
}
FLOORS['C19.R1'] = 30
SINGLE_SIGNAL = [('emd.sift.sift', 'ensure_1d_with_singleton', 'X'), ('emd.sift.ensemble_sift', 'ensure_1d_with_singleton', 'X'),
                 ('emd.sift.complete_ensemble_sift', 'ensure_1d_with_singleton', 'X'),
                 ('emd.sift.mask_sift', 'ensure_1d_with_singleton', 'X'),
                 ('emd.sift.get_next_imf', 'ensure_1d_with_singleton', 'X'),
                 ('emd.sift.get_next_imf_mask', 'ensure_1d_with_singleton', 'X'),
                 ('emd.cycles.get_cycle_stat', 'ensure_vector', 'values'), ('emd.cycles.bin_by_phase', 'ensure_vector', 'ip'),
                 ('emd.cycles.get_control_points', 'ensure_vector', 'x'),
                 ('emd.spectra.frequency_transform', 'ensure_2d', 'imf')]
MULTI_CTX = {'emd.spectra.hilberthuang': {'mode': 'energy', 'return_sparse': False},
             'emd.spectra.holospectrum': {'mode': 'energy', 'squash_time': 'sum'},
             'emd.cycles.phase_align': {'mode': 'cycle', 'ii': None},
             'emd.cycles.bin_by_phase': {'weights': None, 'bin_edges': None, 'variance_metric': 'variance'},
             'emd.cycles.get_cycle_vector': {'return_good': False}}
MULTI_ARRAY = [('emd.spectra.hilberthuang', {'infr', 'inam'}), ('emd.spectra.holospectrum', {'infr', 'infr2', 'inam2'}),
               ('emd.cycles.phase_align', {'ip', 'x'}), ('emd.cycles.bin_by_phase', {'ip', 'x'}),
               ('emd.cycles.get_cycle_vector', {'phase', 'mask'})]


def run(ctx):
    ctx.rule(rule_shape_classes, 'C19.R1')
    ctx.rule(rule_layout_only, 'C19.R1')
    ctx.rule(rule_canonical_first, 'C19.R2')
    ctx.rule(rule_no_mutation, 'C19.R3')
    ctx.rule(rule_length_checks, 'C19.R4')
    ctx.rule(rule_no_module_state, 'C19.R5')
    # layout-insensitive: no public routine flattens / reshapes an array in memory order
    from . import l2
    quals = sorted(q for q, f in ctx.P.funcs.items()
                   if f.module.name in ('emd.sift', 'emd.spectra', 'emd.cycles', 'emd._cycles_support', 'emd.utils',
                                        'emd.support') and f.parent is None)
    ctx.rule(l2.rule_layout, 'C19.R6', quals, narrow=False)
    l1.rule_lib_attrs(ctx, 'L1', ['emd.support.ensure_equal_dims', 'emd.support.ensure_vector',
                                  'emd.support.ensure_1d_with_singleton', 'emd.support.ensure_2d'], 'input validation')


def _contract(name, shape):
    """The documented contract of the ensure_* routines as a function of the input shape."""
    nd = len(shape)
    if name == 'ensure_2d':
        return (shape[0], 1) if nd == 1 else shape
    if name == 'ensure_vector':
        if nd == 1:
            return shape
        if nd == 2 and shape[1] == 1:
            return (shape[0],)
        return 'raise'
    if name == 'ensure_1d_with_singleton':
        if nd == 1:
            return (shape[0], 1)
        if nd == 2:
            return shape if shape[1] == 1 else 'raise'
        return (shape[0], 1) if all(d == 1 for d in shape[1:]) else 'raise'
    raise KeyError(name)


def rule_shape_classes(ctx, rid, names=None):
    P = ctx.P
    import itertools
    for name, table in ORACLE.items():
        if names is not None and name not in names:
            continue
        # the hand-written table must agree with the contract function (guards against a typo in either)
        assert all(_contract(name, sh) == want for sh, want in table.items()), name
        if ctx.tier == 'thorough':
            # every shape with 1..3 axes of extent 1, 2 or 4 (39 shapes per routine)
            table = dict(table)
            for nd in (1, 2, 3):
                for sh in itertools.product((1, 2, 4), repeat=nd):
                    table.setdefault(sh, _contract(name, sh))
        fi = P.func('emd.support.' + name)
        x = S('x?')
        ev = Evaluator(P)
        exits = ev.run(fi, args={fi.params[0]: ('list', (x,)), fi.params[1]: ('list', (C('x'),)),
                                 fi.params[2]: C('f')})
        ctx.paths += len(exits)
        for shape, want in table.items():
            c = 'layout %s -> %s' % (shape, want if want == 'raise' else 'shape %s' % (want,))
            outcomes = []
            undec = None
            for e in exits:
                se = ShapeEval({x: ('arr', shape)})
                feasible = True
                raised_in_cond = None
                try:
                    for cnd, truth, ln in e.state.conds:
                        try:
                            v = se.truth(se.ev(cnd))
                        except Raises as r:
                            raised_in_cond = str(r)
                            break
                        if v != truth:
                            feasible = False
                            break
                except Undecided as u:
                    undec = str(u)
                    continue
                if not feasible:
                    continue
                if raised_in_cond:
                    outcomes.append(('raise', raised_in_cond))
                    continue
                if e.kind == 'raise':
                    outcomes.append(('raise', show(e.value)[:40]))
                else:
                    try:
                        v = se.ev(e.value)
                        outcomes.append((v[1] if isinstance(v, tuple) and v[0] == 'arr' else v, ''))
                    except Raises as r:
                        outcomes.append(('raise', str(r)))
                    except Undecided as u:
                        undec = str(u)
            if undec is not None and not outcomes:
                ctx.undecided(rid, fi, c, 'cannot fold the path conditions on this shape: %s' % undec)
                continue
            kinds = {o[0] for o in outcomes}
            if len(kinds) != 1:
                ctx.undecided(rid, fi, c, 'shape %s selects %d paths: %s' % (shape, len(outcomes), outcomes[:3]))
                continue
            got = kinds.pop()
            if got == want:
                ctx.passed(rid, fi, c)
            else:
                ctx.violation(rid, fi, c,
                              'an input of shape %s %s, the documented contract is %s'
                              % (shape, 'is passed on with shape %s' % (got,) if got != 'raise' else 'is rejected',
                                 'a ValueError' if want == 'raise' else 'shape %s' % (want,)),
                              expected=str(want), found=str(got))


LAYOUT_CALLS = {'numpy.squeeze', 'numpy.atleast_1d', 'numpy.atleast_2d', 'numpy.atleast_3d', 'numpy.reshape',
                'numpy.asarray', 'numpy.asanyarray', 'numpy.array', 'numpy.ascontiguousarray', 'numpy.expand_dims',
                'numpy.transpose', 'numpy.ravel', 'numpy.copy'}
LAYOUT_METHS = {'squeeze', 'reshape', 'copy', 'flatten', 'ravel', 'transpose', 'view'}


def _layout_only(t, inp, conds=()):
    """None if t is `inp` seen through layout-only operations (indexing by slices / new axes / 0, squeeze, reshape,
    copy, transpose, as-array without a dtype change); otherwise the offending sub-term.  Index -1 is element 0 on an
    axis the path conditions show to have length one."""
    if t == inp:
        return None
    if t[0] == 'sub':
        idx = t[2]
        items = idx[1] if idx[0] == 'tuple' else (idx,)
        axis = 0
        for it in items:
            ok = it[0] == 'slice' and all(is_c(x) for x in it[1:4]) or it == ('ref', 'numpy.newaxis') \
                or (is_c(it) and (it[1] is None or it[1] is Ellipsis or it[1] == 0))
            if not ok and it == C(-1):
                want = ('cmp', '==', ('sub', ('attr', t[1], 'shape'), C(axis)), C(1))
                ok = any(cd == want and tr for cd, tr, ln in conds)
            if not ok:
                return t
            if not (is_c(it) and it[1] is None) and it != ('ref', 'numpy.newaxis'):
                axis += 1
        return _layout_only(t[1], inp, conds)
    if t[0] == 'attr' and t[2] == 'T':
        return _layout_only(t[1], inp, conds)
    if t[0] == 'meth' and t[1] in LAYOUT_METHS:
        # the arguments may use the array's own shape / size, never its values
        for a in t[3]:
            masked = substitute(a, {('attr', inp, k): C(0) for k in ('shape', 'ndim', 'size')})
            if inp in set(subterms(masked)):
                return t
        return _layout_only(t[2], inp, conds)
    if t[0] == 'call' and t[1] in LAYOUT_CALLS and t[2]:
        kw = dict(t[3])
        dt = kw.get('dtype')
        if dt is not None and not (dt[0] == 'attr' and dt[2] == 'dtype' and _layout_only(dt[1], inp, conds) is None):
            return t
        return _layout_only(t[2][0], inp, conds)
    return t


def rule_layout_only(ctx, rid, names=None):
    """The ensure_* routines hand every array back with its own values: each returned array is its own input seen
    through layout-only operations, whatever the other inputs are (evaluated with two inputs)."""
    P = ctx.P
    for name in ORACLE:
        if names is not None and name not in names:
            continue
        fi = P.func('emd.support.' + name)
        x, y = S('x?'), S('y?')
        exits = Evaluator(P).run(fi, args={fi.params[0]: ('list', (x, y)), fi.params[1]: ('list', (C('x'), C('y'))),
                                           fi.params[2]: C('f')})
        ctx.paths += len(exits)
        c = 'every returned array is its own input through layout-only operations'
        bad = None
        n = 0
        for e in exits:
            if e.kind != 'return':
                continue
            v = e.value
            if not (v[0] in ('list', 'tuple') and len(v[1]) == 2):
                bad = (e, 'two inputs do not come back as two arrays: %s' % show(v)[:80])
                break
            n += 1
            for inp, out in zip((x, y), v[1]):
                off = _layout_only(out, inp, e.state.conds)
                if off is not None:
                    bad = (e, 'input %s comes back as %s: %s is not a layout-only operation on that input'
                           % (inp[1][0], show(out)[:70], show(off)[:70]))
                    break
            if bad:
                break
        if bad:
            ctx.violation(rid, fi, c, bad[1], path=trace_tail(bad[0].state, 6))
        elif n == 0:
            ctx.undecided(rid, fi, c, 'no return path with two inputs')
        else:
            ctx.passed(rid, fi, c, '%d return paths x 2 inputs' % n)


def rule_canonical_first(ctx, rid):
    P = ctx.P
    for q, ens, sig in SINGLE_SIGNAL:
        fi = P.func(q)
        if sig not in fi.all_formals():
            ctx.undecided(rid, fi, '%s on the signal precedes every other use of it' % ens,
                          'documented signal parameter %s vanished' % sig)
            continue
        c = '%s on the signal precedes every other use of it' % ens
        ens_assign = None
        for n in walk_local(fi.node):
            if isinstance(n, ast.Assign) and isinstance(n.value, ast.Call):
                d = P.resolve(fi.module, n.value.func, fi)
                if d == 'emd.support.' + ens and any(isinstance(t, ast.Name) and t.id == sig for t in n.targets) \
                        and any(isinstance(m, ast.Name) and m.id == sig for m in ast.walk(n.value)):
                    ens_assign = n
                    break
        if ens_assign is None:
            ctx.violation(rid, fi, c, 'the signal parameter is not canonicalised by %s' % ens, node=fi.node)
            continue
        early = []
        for n in walk_local(fi.node):
            if isinstance(n, ast.Name) and n.id == sig and isinstance(n.ctx, ast.Load):
                if (n.lineno, n.col_offset) < (ens_assign.lineno, ens_assign.col_offset):
                    early.append(n)
        # inside a conditional branch? then it does not dominate
        from .common import guards_of
        if guards_of(fi, ens_assign):
            ctx.violation(rid, fi, c, 'the canonicalisation is conditional', node=ens_assign)
        elif early:
            ctx.violation(rid, fi, c, 'the raw signal is used at line %d before it is canonicalised' % early[0].lineno,
                          node=early[0])
        else:
            ctx.passed(rid, fi, c, node=ens_assign)


def rule_no_mutation(ctx, rid):
    P = ctx.P
    ma = MutationAnalysis(P)
    n = 0
    for mname in NUMERIC:
        m = P.module(mname)
        for q, fi in sorted(m.functions.items()):
            if fi.parent is not None:
                continue                      # nested helper functions are analysed through their parents
            parts = q.split('.')
            public = not parts[-1].startswith('_') or parts[-1] in ('__init__',) or mname == 'emd._cycles_support'
            if mname == 'emd.sift' and parts[-1] in ('_sift_with_noise', '_find_extrema', '_energy_difference',
                                                     '_array_or_tuple_to_list', '_get_function_opts'):
                public = True                 # helpers on every public path
            from ..paths import known_functions
            if q.split('.')[-1].startswith('_') and fi.qualname not in known_functions():
                public = False        # private helpers introduced later: covered through their callers' summaries
            if not public:
                continue
            n += 1
            try:
                mp = ma.mutated_params(fi)
            except RecursionError:
                ctx.undecided(rid, fi, 'no caller-owned array or dict is modified', 'analysis recursion')
                continue
            if not mp:
                ctx.passed(rid, fi, 'no caller-owned array or dict is modified')
                continue
            for formal, muts in sorted(mp.items()):
                mu = muts[0]
                ctx.violation(rid, fi, 'argument %s is not modified' % formal,
                              'the caller\'s %s is changed: %s' % (formal, mu.what), node=mu.node,
                              path=[' via ' + x for x in mu.chain] if mu.chain else None)
            for a in ma.attr_stores(fi)[:1]:
                ctx.note(rid, fi, 'attribute store on a passed object', a.what, node=a.node)
    ctx.cover['public_functions_checked'] = n


def rule_length_checks(ctx, rid):
    P = ctx.P
    for q, names in MULTI_ARRAY:
        fi = P.func(q)
        c = 'ensure_equal_dims is applied to %s' % ', '.join(sorted(names))
        from .common import dim_checks
        from ..paths import State
        ctxs = MULTI_CTX.get(q, {})
        per_path = dim_checks(P, fi, ctxs)
        relevant = [calls for calls in per_path]
        if q == 'emd.cycles.get_cycle_vector':
            # the mask check applies on the paths where a mask is given
            relevant = [calls for calls in per_path if any('mask' in nm for f, nm, d in calls)] or per_path[:0]
            ok = bool(relevant) and all(any(f == 'ensure_equal_dims' and nm >= names for f, nm, d in calls)
                                        for calls in relevant)
        else:
            ok = bool(relevant) and all(any(f == 'ensure_equal_dims' and nm >= names for f, nm, d in calls)
                                        for calls in relevant)
        if ok:
            ctx.passed(rid, fi, c)
        else:
            ctx.violation(rid, fi, c, 'mismatched array lengths are no longer rejected by %s' % fi.name)
    rule_ensure_sites(ctx, rid)
    rule_equal_dims_semantics(ctx, rid)


def rule_equal_dims_semantics(ctx, rid):
    P = ctx.P
    # the check itself must raise exactly on a mismatch: the path conditions of ensure_equal_dims are evaluated
    # concretely on representative shape lists (no repository code is run; see conceval.py)
    from ..conceval import ConcEval, Arr, Undecided
    fi = P.func('emd.support.ensure_equal_dims')
    exits = Evaluator(P).run(fi)
    ctx.paths += len(exits)
    CASES = [
        ([(5,), (5,)], None, False), ([(5,), (6,)], None, True), ([(5,), (5,), (6,)], None, True),
        ([(5,), (6,), (5,)], None, True), ([(6,), (5,), (5,)], None, True), ([(5,)], None, False),
        ([(5, 2), (5, 2)], None, False), ([(5, 2), (5, 3)], None, True), ([(5, 2), (5, 3)], 0, False),
        ([(5, 2), (6, 2)], 0, True), ([(5, 2), (6, 2)], 1, False), ([(5, 2), (5, 2), (5, 3)], 1, True),
        ([(5,), (5,), (5,), (7,)], 0, True), ([(4, 3), (4, 3), (4, 3)], None, False),
    ]
    if ctx.tier == 'thorough':
        import itertools
        base = [(3,), (4,), (3, 2), (3, 5), (4, 2)]
        seen = {(tuple(map(tuple, sh)), d) for sh, d, mm in CASES}
        for k in (2, 3):
            for combo in itertools.product(base, repeat=k):
                if len({len(x) for x in combo}) != 1:
                    continue                       # arrays of different rank: indexing the shorter shape raises
                for dim in (None, 0) + ((1,) if len(combo[0]) == 2 else ()):
                    key = (tuple(combo), dim)
                    if key in seen:
                        continue
                    seen.add(key)
                    sel = (lambda s_: s_) if dim is None else (lambda s_: (s_[dim],))
                    CASES.append((list(combo), dim, len({sel(x) for x in combo}) != 1))
    for shapes, dim, mismatch in CASES:
        c = 'ensure_equal_dims(%s, dim=%s) %s' % (shapes, dim, 'raises' if mismatch else 'accepts')
        taken = []
        why = None
        for e in exits:
            ce = ConcEval({S('to_check'): [Arr(s_) for s_ in shapes], S('dim'): dim,
                           S('names'): ['a%d' % i for i in range(len(shapes))], S('func_name'): 'f'})
            try:
                if all(bool(ce.ev(cd)) == truth for cd, truth, ln in e.state.conds):
                    taken.append(e)
            except Undecided as x:
                why = str(x)
                break
        if why is not None or len(taken) != 1:
            ctx.undecided(rid, fi, c, 'cannot select the path taken for these shapes (%s)'
                          % (why or '%d candidate paths' % len(taken)))
            continue
        e = taken[0]
        raised = e.kind == 'raise'
        if raised == mismatch:
            ctx.passed(rid, fi, c, 'path: %s' % e.kind)
        elif mismatch:
            ctx.violation(rid, fi, c, 'arrays of shapes %s (compared on dim=%s) are accepted: mismatched lengths are '
                          'processed instead of being rejected' % (shapes, dim), path=trace_tail(e.state, 6))
        else:
            ctx.violation(rid, fi, c, 'arrays of equal shapes %s (dim=%s) are rejected' % (shapes, dim),
                          path=trace_tail(e.state, 6))


ENSURE = ('emd.support.ensure_equal_dims', 'emd.support.ensure_2d', 'emd.support.ensure_vector',
          'emd.support.ensure_1d_with_singleton')


def rule_ensure_sites(ctx, rid, only=None):
    """Every call of an ensure_* routine is well formed on the evaluated paths: `to_check` is a list / tuple of
    arrays (no string among them), `names` a list / tuple of as many strings, `func_name` a string.  (Swapped
    arguments make the routine validate the strings and name the arrays: an exception on valid input, or no check
    at all.)  Arguments built in variables or helpers are followed; a construction that cannot be read is skipped."""
    P = ctx.P
    n = 0
    funcs = []
    for q, fi in sorted(P.funcs.items()):
        if fi.module.name not in NUMERIC or (only is not None and q not in only) or fi.parent is not None:
            continue
        if not any(P.resolve_callee(fi.module, fi, c.func).dotted in ENSURE for c in P.calls_in(fi)):
            continue
        funcs.append(fi)
    for fi in funcs:
        recs = {}

        def hook(ca, bound, star, st, e, recs=recs):
            if ca.kind == 'repo' and ca.dotted in ENSURE:
                recs.setdefault((id(e), ca.func.name, getattr(e, 'lineno', 0)), []).append(dict(bound))
            return None
        try:
            Evaluator(P, callee_hook=hook).run(fi, context=MULTI_CTX.get(fi.qualname, {}))
        except AnalysisError:
            continue
        for (nid, fname, line), bounds in sorted(recs.items(), key=lambda kv: kv[0][2]):
            n += 1
            cst = '%s call is well formed' % fname
            why = None
            for bnd in bounds:
                tc, nm, fn = bnd.get('to_check'), bnd.get('names'), bnd.get('func_name')
                if tc is None or tc[0] not in ('list', 'tuple') or nm is None or nm[0] not in ('list', 'tuple'):
                    continue            # built dynamically: not readable here
                if any(is_c(x) and isinstance(x[1], str) for x in tc[1]):
                    why = 'to_check holds string constants (%s): the arrays and their names are swapped' % show(tc)[:50]
                elif not all(is_c(x) and isinstance(x[1], str) for x in nm[1]):
                    why = 'names is %s, not a list of strings' % show(nm)[:50]
                elif len(nm[1]) != len(tc[1]):
                    why = '%d arrays but %d names' % (len(tc[1]), len(nm[1]))
                elif fn is not None and is_c(fn) and not isinstance(fn[1], str):
                    why = 'func_name is %s' % show(fn)[:30]
            if why:
                ctx.violation(rid, fi, cst, why + ' (line %d)' % line)
            else:
                ctx.passed(rid, fi, cst, '%d call state(s), line %d' % (len(bounds), line))
    ctx.cover['ensure_call_sites'] = n


def rule_no_module_state(ctx, rid):
    P = ctx.P
    for mname in NUMERIC:
        m = P.module(mname)
        bad = None
        for q, fi in m.functions.items():
            for n in walk_local(fi.node):
                if isinstance(n, ast.Global):
                    bad = (fi, n, 'global %s' % ', '.join(n.names))
                if isinstance(n, ast.Attribute) and isinstance(n.ctx, ast.Store) and isinstance(n.value, ast.Name) \
                        and n.value.id in m.imports and n.value.id not in fi.local_names():
                    bad = (fi, n, 'store to module attribute %s' % unparse(n))
        c = 'module %s keeps no mutable module-level state' % mname
        if bad:
            ctx.violation(rid, bad[0], c, '%s: results may depend on earlier calls' % bad[2], node=bad[1])
        else:
            ctx.ob(rid, 'PASS', mname, c, file=m.relpath, line=1)
