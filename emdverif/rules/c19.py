"""C19 - array inputs are layout-insensitive, validated and never modified."""
import ast

from ..model import AnalysisError, unparse, walk_local
from ..paths import Evaluator, is_c, show, C, S, NONE, subterms, State
from ..shapes import ShapeEval, Undecided, Raises
from ..effects import MutationAnalysis
from .common import trace_tail
from . import l1

PROPERTY = 'C19'
EXPLANATION = (
    "R1 shape classes: each ensure_* routine is evaluated along all its paths (the loop over its one-element input "
    "list is unrolled); for every representative shape (5,), (5,1), (5,1,1), (5,2), (1,5), (5,1,3), (5,2,3) the path "
    "conditions are folded in the shape domain to select the path taken, and its outcome (canonical shape / raise / "
    "pass-through) is compared with the documented contract. R2: in every single-signal routine the ensure_* call "
    "on the signal precedes every other use of that parameter, so all accepted layouts continue as one value. "
    "R3: alias/freshness/mutation analysis (flow-sensitive, interprocedural summaries) over every public function "
    "and method of the numeric modules: no store, in-place method, augmented assignment, del or out= reaches an "
    "array or dict that belongs to the caller. R4: multi-array routines call ensure_equal_dims on their arrays and "
    "its library attributes resolve (L1). R5: numeric modules hold no mutable module-level state (no global "
    "statements / module attribute stores), which with R3 gives repeatability of deterministic calls. "
    "Not decided: value equality beyond 'same canonical input'.")
RULE_TEXT = ("R1: one obligation per (ensure routine, representative shape); R2: per routine; R3: per public "
             "function/method; R4: per multi-array routine; R5: per module")
FLOORS = {'C19.R1': 17, 'C19.R2': 8, 'C19.R3': 100, 'C19.R4': 4, 'C19.R5': 6}
PINNED_EXPECT = [('C19.R1', 'emd.support.ensure_1d_with_singleton', '(5, 2)'),
                 ('C19.R1', 'emd.support.ensure_vector', '(5, 1, 3)'),
                 ('C19.R3', 'emd.sift.mask_sift_second_layer', 'sift_args'),
                 ('C19.R3', 'emd.cycles.Cycles.add_cycle_metric', 'cycle_vals'),
                 ('L1', 'emd.support.ensure_equal_dims', 'numpy.alltrue')]

NUMERIC = ['emd.sift', 'emd.spectra', 'emd.cycles', 'emd._cycles_support', 'emd.utils', 'emd.support']
SHAPES = [(5,), (5, 1), (5, 1, 1), (5, 2), (1, 5), (5, 1, 3), (5, 2, 3)]
ORACLE = {
    'ensure_1d_with_singleton': {(5,): (5, 1), (5, 1): (5, 1), (5, 1, 1): (5, 1), (5, 2): 'raise', (1, 5): 'raise',
                                 (5, 1, 3): 'raise', (5, 2, 3): 'raise'},
    'ensure_vector': {(5,): (5,), (5, 1): (5,), (5, 1, 1): 'raise', (5, 2): 'raise', (1, 5): 'raise',
                      (5, 1, 3): 'raise', (5, 2, 3): 'raise'},
    'ensure_2d': {(5,): (5, 1), (5, 1): (5, 1), (5, 2): (5, 2)},
}
SINGLE_SIGNAL = [('emd.sift.sift', 'ensure_1d_with_singleton', 'X'), ('emd.sift.ensemble_sift', 'ensure_1d_with_singleton', 'X'),
                 ('emd.sift.complete_ensemble_sift', 'ensure_1d_with_singleton', 'X'),
                 ('emd.sift.mask_sift', 'ensure_1d_with_singleton', 'X'),
                 ('emd.sift.get_next_imf', 'ensure_1d_with_singleton', 'X'),
                 ('emd.sift.get_next_imf_mask', 'ensure_1d_with_singleton', 'X'),
                 ('emd.cycles.get_cycle_stat', 'ensure_vector', 'values'), ('emd.cycles.bin_by_phase', 'ensure_vector', 'ip'),
                 ('emd.cycles.get_control_points', 'ensure_vector', 'x'),
                 ('emd.spectra.frequency_transform', 'ensure_2d', 'imf')]
MULTI_CTX = {'emd.spectra.hilberthuang': {'mode': 'energy', 'return_sparse': False},
             'emd.spectra.holospectrum': {'mode': 'energy', 'squash_time': 'sum'},
             'emd.cycles.phase_align': {'mode': 'cycle', 'ii': None},
             'emd.cycles.bin_by_phase': {'weights': None, 'bin_edges': None, 'variance_metric': 'variance'},
             'emd.cycles.get_cycle_vector': {'return_good': False}}
MULTI_ARRAY = [('emd.spectra.hilberthuang', {'infr', 'inam'}), ('emd.spectra.holospectrum', {'infr', 'infr2', 'inam2'}),
               ('emd.cycles.phase_align', {'ip', 'x'}), ('emd.cycles.bin_by_phase', {'ip', 'x'}),
               ('emd.cycles.get_cycle_vector', {'phase', 'mask'})]


def run(ctx):
    rule_shape_classes(ctx, 'C19.R1')
    rule_canonical_first(ctx, 'C19.R2')
    rule_no_mutation(ctx, 'C19.R3')
    rule_length_checks(ctx, 'C19.R4')
    rule_no_module_state(ctx, 'C19.R5')
    l1.rule_lib_attrs(ctx, 'L1', ['emd.support.ensure_equal_dims', 'emd.support.ensure_vector',
                                  'emd.support.ensure_1d_with_singleton', 'emd.support.ensure_2d'], 'input validation')


def rule_shape_classes(ctx, rid):
    P = ctx.P
    for name, table in ORACLE.items():
        fi = P.func('emd.support.' + name)
        x = S('x?')
        ev = Evaluator(P)
        exits = ev.run(fi, args={fi.params[0]: ('list', (x,)), fi.params[1]: ('list', (C('x'),)),
                                 fi.params[2]: C('f')})
        ctx.paths += len(exits)
        for shape, want in table.items():
            c = 'layout %s -> %s' % (shape, want if want == 'raise' else 'shape %s' % (want,))
            outcomes = []
            undec = None
            for e in exits:
                se = ShapeEval({x: ('arr', shape)})
                feasible = True
                raised_in_cond = None
                try:
                    for cnd, truth, ln in e.state.conds:
                        try:
                            v = se.truth(se.ev(cnd))
                        except Raises as r:
                            raised_in_cond = str(r)
                            break
                        if v != truth:
                            feasible = False
                            break
                except Undecided as u:
                    undec = str(u)
                    continue
                if not feasible:
                    continue
                if raised_in_cond:
                    outcomes.append(('raise', raised_in_cond))
                    continue
                if e.kind == 'raise':
                    outcomes.append(('raise', show(e.value)[:40]))
                else:
                    try:
                        v = se.ev(e.value)
                        outcomes.append((v[1] if isinstance(v, tuple) and v[0] == 'arr' else v, ''))
                    except Raises as r:
                        outcomes.append(('raise', str(r)))
                    except Undecided as u:
                        undec = str(u)
            if undec is not None and not outcomes:
                ctx.undecided(rid, fi, c, 'cannot fold the path conditions on this shape: %s' % undec)
                continue
            kinds = {o[0] for o in outcomes}
            if len(kinds) != 1:
                ctx.undecided(rid, fi, c, 'shape %s selects %d paths: %s' % (shape, len(outcomes), outcomes[:3]))
                continue
            got = kinds.pop()
            if got == want:
                ctx.passed(rid, fi, c)
            else:
                ctx.violation(rid, fi, c,
                              'an input of shape %s %s, the documented contract is %s'
                              % (shape, 'is passed on with shape %s' % (got,) if got != 'raise' else 'is rejected',
                                 'a ValueError' if want == 'raise' else 'shape %s' % (want,)),
                              expected=str(want), found=str(got))


def rule_canonical_first(ctx, rid):
    P = ctx.P
    for q, ens, sig in SINGLE_SIGNAL:
        fi = P.func(q)
        if sig not in fi.all_formals():
            ctx.undecided(rid, fi, '%s on the signal precedes every other use of it' % ens,
                          'documented signal parameter %s vanished' % sig)
            continue
        c = '%s on the signal precedes every other use of it' % ens
        ens_assign = None
        for n in walk_local(fi.node):
            if isinstance(n, ast.Assign) and isinstance(n.value, ast.Call):
                d = P.resolve(fi.module, n.value.func, fi)
                if d == 'emd.support.' + ens and any(isinstance(t, ast.Name) and t.id == sig for t in n.targets) \
                        and any(isinstance(m, ast.Name) and m.id == sig for m in ast.walk(n.value)):
                    ens_assign = n
                    break
        if ens_assign is None:
            ctx.violation(rid, fi, c, 'the signal parameter is not canonicalised by %s' % ens, node=fi.node)
            continue
        early = []
        for n in walk_local(fi.node):
            if isinstance(n, ast.Name) and n.id == sig and isinstance(n.ctx, ast.Load):
                if (n.lineno, n.col_offset) < (ens_assign.lineno, ens_assign.col_offset):
                    early.append(n)
        # inside a conditional branch? then it does not dominate
        from .common import guards_of
        if guards_of(fi, ens_assign):
            ctx.violation(rid, fi, c, 'the canonicalisation is conditional', node=ens_assign)
        elif early:
            ctx.violation(rid, fi, c, 'the raw signal is used at line %d before it is canonicalised' % early[0].lineno,
                          node=early[0])
        else:
            ctx.passed(rid, fi, c, node=ens_assign)


def rule_no_mutation(ctx, rid):
    P = ctx.P
    ma = MutationAnalysis(P)
    n = 0
    for mname in NUMERIC:
        m = P.module(mname)
        for q, fi in sorted(m.functions.items()):
            if fi.parent is not None:
                continue                      # nested helper functions are analysed through their parents
            parts = q.split('.')
            public = not parts[-1].startswith('_') or parts[-1] in ('__init__',) or mname == 'emd._cycles_support'
            if mname == 'emd.sift' and parts[-1] in ('_sift_with_noise', '_find_extrema', '_energy_difference',
                                                     '_array_or_tuple_to_list', '_get_function_opts'):
                public = True                 # helpers on every public path
            from ..paths import known_functions
            if q.split('.')[-1].startswith('_') and fi.qualname not in known_functions():
                public = False        # private helpers introduced later: covered through their callers' summaries
            if not public:
                continue
            n += 1
            try:
                mp = ma.mutated_params(fi)
            except RecursionError:
                ctx.undecided(rid, fi, 'no caller-owned array or dict is modified', 'analysis recursion')
                continue
            if not mp:
                ctx.passed(rid, fi, 'no caller-owned array or dict is modified')
                continue
            for formal, muts in sorted(mp.items()):
                mu = muts[0]
                ctx.violation(rid, fi, 'argument %s is not modified' % formal,
                              'the caller\'s %s is changed: %s' % (formal, mu.what), node=mu.node,
                              path=[' via ' + x for x in mu.chain] if mu.chain else None)
            for a in ma.attr_stores(fi)[:1]:
                ctx.note(rid, fi, 'attribute store on a passed object', a.what, node=a.node)
    ctx.cover['public_functions_checked'] = n


def rule_length_checks(ctx, rid):
    P = ctx.P
    for q, names in MULTI_ARRAY:
        fi = P.func(q)
        c = 'ensure_equal_dims is applied to %s' % ', '.join(sorted(names))
        from .common import dim_checks
        from ..paths import State
        ctxs = MULTI_CTX.get(q, {})
        per_path = dim_checks(P, fi, ctxs)
        relevant = [calls for calls in per_path]
        if q == 'emd.cycles.get_cycle_vector':
            # the mask check applies on the paths where a mask is given
            relevant = [calls for calls in per_path if any('mask' in nm for f, nm, d in calls)] or per_path[:0]
            ok = bool(relevant) and all(any(f == 'ensure_equal_dims' and nm >= names for f, nm, d in calls)
                                        for calls in relevant)
        else:
            ok = bool(relevant) and all(any(f == 'ensure_equal_dims' and nm >= names for f, nm, d in calls)
                                        for calls in relevant)
        if ok:
            ctx.passed(rid, fi, c)
        else:
            ctx.violation(rid, fi, c, 'mismatched array lengths are no longer rejected by %s' % fi.name)
    # the check itself must raise on mismatch
    fi = P.func('emd.support.ensure_equal_dims')
    exits = Evaluator(P).run(fi)
    raises = [e for e in exits if e.kind == 'raise']
    c = 'ensure_equal_dims raises on a mismatch'
    if raises:
        ctx.passed(rid, fi, c, '%d raising path(s)' % len(raises))
    else:
        ctx.violation(rid, fi, c, 'no path of ensure_equal_dims raises')


def rule_no_module_state(ctx, rid):
    P = ctx.P
    for mname in NUMERIC:
        m = P.module(mname)
        bad = None
        for q, fi in m.functions.items():
            for n in walk_local(fi.node):
                if isinstance(n, ast.Global):
                    bad = (fi, n, 'global %s' % ', '.join(n.names))
                if isinstance(n, ast.Attribute) and isinstance(n.ctx, ast.Store) and isinstance(n.value, ast.Name) \
                        and n.value.id in m.imports and n.value.id not in fi.local_names():
                    bad = (fi, n, 'store to module attribute %s' % unparse(n))
        c = 'module %s keeps no mutable module-level state' % mname
        if bad:
            ctx.violation(rid, bad[0], c, '%s: results may depend on earlier calls' % bad[2], node=bad[1])
        else:
            ctx.ob(rid, 'PASS', mname, c, file=m.relpath, line=1)
