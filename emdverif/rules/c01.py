"""C01 - classic sift is a complete additive decomposition of its input."""
from . import siftcore
from .common import EXTRACTORS

PROPERTY = 'C01'
EXPLANATION = (
    "Static path/flow argument for the additive-decomposition identity of emd.sift.sift: "
    "R1 proves the loop invariant 'signal handed to the extraction == X - sum(columns so far)' on linear forms "
    "(entry + every back edge, first iteration peeled, later iterations from a widened head state); "
    "R2 proves that on every path of the single-IMF extraction (3 stop rules, no energy threshold) a cleared "
    "continue flag implies the returned component is algebraically the unmodified input, so the last column is "
    "the residual and the columns sum to X; R3 checks that the layer loop can only stop on the cap, the sift "
    "threshold or the extraction's flag; R4 checks the chain flag-cleared <= envelope None <= padded extrema None "
    "<=> fewer than two extrema. R5: a component handed back by the extraction is never a view of a residual that "
    "the layer loop updates in place (aliasing would overwrite the stored column). Not decided: floating-point rounding of the sum.")
RULE_TEXT = ("an obligation is one rule instantiated on one construct (loop, exit class per stop rule, exit site); "
             "distinct = distinct (rule, function, construct) keys; fixtures and notes are not counted")
PINNED_EXPECT = [('C01.R2', 'emd.sift.get_next_imf', 'stop_method=sd'),
                 ('C01.R2', 'emd.sift.get_next_imf', 'stop_method=rilling'),
                 ('C01.R2', 'emd.sift.get_next_imf', 'stop_method=fixed')]
FLOORS = {'C01.R1': 1, 'C01.R2': 3, 'C01.R3': 3, 'C01.R4': 5, 'C01.R5': 1}


def is_gni(ca):
    return ca.kind == 'repo' and ca.dotted == 'emd.sift.get_next_imf'


def run(ctx):
    P = ctx.P
    sift = P.func('emd.sift.sift')
    gni = P.func('emd.sift.get_next_imf')
    ctx.trust('numpy elementwise arithmetic is exact real algebra up to rounding; x[:, None], .copy(), '
              'ensure_1d_with_singleton are identities of that algebra (their shape effect is C19)')
    ctx.trust('np.concatenate(axis=1) appends columns; .sum(axis=1) sums columns')
    ctx.assume('the extraction returns a single column (checked structurally by C03.R6)')
    ctx.rule(siftcore.rule_residual_invariant, 'C01.R1', sift, is_gni)
    ctx.rule(siftcore.rule_cleared_flag, 'C01.R2', gni)
    from . import l2
    ctx.rule(l2.rule_inplace_input_dtype, 'C01.R1', ['emd.sift.sift', 'emd.sift.get_next_imf'])
    # additivity needs "the loop is left only for a licensed reason" for all three conditions, and "the loop is left" only
    # for the extraction flag (a continued loop after it would never end); that the cap stops the loop is C03's clause
    ctx.rule(siftcore.rule_licensed_exits, 'C01.R3', sift, is_gni, must_leave=('flag',),
             reducers=('sum',))      # C01 names the absolute *sum* of the last component
    ctx.rule(siftcore.rule_none_chain, 'C01.R4', gni)
    ctx.rule(siftcore.rule_through_layer_loop, 'C01.R3', sift, ('emd.sift.get_next_imf',))
    # 'fewer than two interior maxima / minima' is about strict local extrema: the search that feeds the None-chain
    from . import c05
    ctx.rule(c05.rule_strict_search, 'C01.R4')
    ctx.rule(siftcore.rule_no_clobber, 'C01.R5', sift, 'emd.sift.get_next_imf',
                             [{'stop_method': sm, 'energy_thresh': None} for sm in siftcore.STOP_METHODS])
