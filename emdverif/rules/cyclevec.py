"""Shared analysis of emd.cycles.get_cycle_vector for C12, C13 and C15."""
import ast

from ..model import AnalysisError, unparse, walk_local
from ..paths import Evaluator, is_c, show, C, S, NONE, subterms
from ..poly import Poly
from .common import mk_algebra, trace_tail

GCV = 'emd.cycles.get_cycle_vector'
_cache = {}


class Aff:
    """a + b*N (N = number of samples)"""

    def __init__(self, a, b=0):
        self.a, self.b = a, b

    def __sub__(self, o):
        return Aff(self.a - o.a, self.b - o.b)

    def const(self):
        return self.a if self.b == 0 else None

    def __repr__(self):
        if self.b == 0:
            return str(self.a)
        s = 'N' if self.b == 1 else '%s*N' % self.b
        return s if self.a == 0 else '%s%+d' % (s, self.a)


class Analysis:
    """Evaluate get_cycle_vector for one (return_good, mask) context and decode the boundary list."""

    def __init__(self, ctx, return_good, mask_given):
        P = ctx.P
        self.P = P
        self.fi = fi = P.func(GCV)
        self.keeps_shape = _elementwise_functions(P, ('emd.utils.wrap_phase',))
        self.alg = mk_algebra(rewrite=lambda t: _norm_len(t, self.keeps_shape))
        args = {}
        context = {'return_good': return_good}
        if not mask_given:
            context['mask'] = None
        ev = Evaluator(P)
        st = None
        if mask_given:
            from ..paths import State
            st = State()
            st.notnone.add(S('mask'))
        self.exits = ev.run(fi, context=context, state=st)
        ctx.paths += len(self.exits)
        ctx.contexts.append({'function': GCV, 'return_good': return_good, 'mask': 'given' if mask_given else None,
                             'exits': len(self.exits)})
        self.ev = ev
        rets = [e for e in self.exits if e.kind == 'return']
        if not rets:
            raise AnalysisError('%s has no return path' % GCV)
        # outer loop over columns
        self.col = None
        for e in rets:
            for ls in e.state.loops:
                if ls.kind == 'for' and (self.col is None or len(ls.body_states) > len(self.col.body_states)):
                    self.col = ls
        if self.col is None:
            raise AnalysisError('%s: no loop over the phase columns' % GCV)
        self.ret = rets[0]
        self.out_name = None
        for n in walk_local(fi.node):
            if isinstance(n, ast.Return) and isinstance(n.value, ast.Name):
                self.out_name = n.value.id
        if self.out_name is None:
            raise AnalysisError('%s: return value is not a variable' % GCV)
        # inner loops (segments) found in the body states of the column loop
        self.inner = []
        for kind, b in self.col.body_states:
            for ls in b.loops:
                if ls.kind == 'for' and ls.node is not self.col.node:
                    self.inner.append((b, ls))
        self.N = None

    # ---------------------------------------------------------------- decoding
    def n_atom(self, phase_term):
        return ('sub', ('attr', phase_term, 'shape'), C(0))

    def decode_boundaries(self, t):
        """Flatten np.r_[...] nests into a list of element terms."""
        if t[0] == 'sub' and t[1] == ('ref', 'numpy.r_'):
            parts = t[2][1] if t[2][0] == 'tuple' else (t[2],)
            out = []
            for p in parts:
                out.extend(self.decode_boundaries(p))
            return out
        if t[0] == 'call' and t[1] in ('numpy.concatenate', 'numpy.hstack') and t[2] and t[2][0][0] in ('tuple', 'list'):
            out = []
            for p in t[2][0][1]:
                if p[0] in ('list', 'tuple'):
                    for q in p[1]:
                        out.extend(self.decode_boundaries(q))
                else:
                    out.extend(self.decode_boundaries(p))
            return out
        if t[0] == 'call' and t[1] in ('numpy.append',) and len(t[2]) == 2:
            return self.decode_boundaries(t[2][0]) + self.decode_boundaries(t[2][1])
        if t[0] == 'call' and t[1] in ('numpy.insert',) and len(t[2]) == 3 and t[2][1] == C(0):
            return self.decode_boundaries(t[2][2]) + self.decode_boundaries(t[2][0])
        return [t]

    def wrap_core(self, t):
        """If t is where(|diff(phase[:, col])| > step)[0] + k  ->  dict(k, phase, step, op) else None."""
        k = 0
        core = t
        if t[0] == 'bin' and t[1] == '+' and is_c(t[3]) and isinstance(t[3][1], int):
            k, core = t[3][1], t[2]
        elif t[0] == 'bin' and t[1] == '+' and is_c(t[2]) and isinstance(t[2][1], int):
            k, core = t[2][1], t[3]
        if not (core[0] == 'sub' and is_c(core[2]) and core[2][1] == 0):
            return None
        w = core[1]
        if not (w[0] == 'call' and w[1] in ('numpy.where', 'numpy.nonzero', 'numpy.flatnonzero') and len(w[2]) == 1):
            return None
        cond = w[2][0]
        if cond[0] != 'cmp':
            return None
        op, a, b = cond[1], cond[2], cond[3]
        if op in ('<', '<='):
            op, a, b = {'<': '>', '<=': '>='}[op], b, a
        if not (a[0] == 'call' and a[1] in ('numpy.abs', 'numpy.absolute', 'builtins.abs') and len(a[2]) == 1):
            return None
        d = a[2][0]
        if not (d[0] == 'call' and d[1] == 'numpy.diff' and d[2]):
            return None
        sig = d[2][0]
        return {'k': k, 'signal': sig, 'step': b, 'op': op, 'where': w}

    def aff(self, t, natom):
        """Affine form a + b*N of an integer term, or None."""
        p = self.alg.poly(t)
        nkey = self.alg.canon(natom)
        sm = self.alg.poly(natom).single_monomial()      # the same rewrites apply to N and to the term
        if sm is not None and sm[1] == 1 and len(sm[0]) == 1 and sm[0][0][1] == 1:
            nkey = sm[0][0][0]
        b = p.coeff_of(nkey)
        rest = p - Poly.atom(nkey).scale(b)
        if rest.is_const() and rest.const_value().denominator == 1 and b.denominator == 1:
            return Aff(int(rest.const_value()), int(b))
        return None


def _elementwise_functions(P, names):
    """{qualname: first parameter} for the listed functions whose every return value is an element-wise arithmetic
    expression (+ - * / % **) of the first parameter and of scalars (other parameters, numeric constants, np.pi):
    the result then has the shape of the first argument.  Decided on the evaluated return values of the function in
    the current tree; a function that no longer has that form is simply not in the map (no rewrite)."""
    out = {}
    for q in names:
        if not P.has_func(q):
            continue
        fi = P.func(q)
        a = fi.node.args
        params = [x.arg for x in a.posonlyargs + a.args]
        if not params:
            continue
        first, others = S(params[0]), {S(x) for x in params[1:]}

        def elementwise(t):
            if t == first:
                return True
            if t in others or is_c(t) and isinstance(t[1], (int, float)) or t == ('ref', 'numpy.pi'):
                return False
            if t[0] == 'bin' and t[1] in ('+', '-', '*', '/', '%', '**'):
                l, r = elementwise(t[2]), elementwise(t[3])
                if l is None or r is None:
                    return None
                return l or r
            if t[0] == 'un' and t[1] in ('-', '+'):
                return elementwise(t[2])
            return None
        try:
            rets = [e for e in Evaluator(P).run(fi) if e.kind == 'return']
        except AnalysisError:
            continue
        # a local read before any assignment is an UnboundLocalError at run time, not a returned value
        assigned = {n.id for n in walk_local(fi.node) if isinstance(n, ast.Name) and isinstance(n.ctx, ast.Store)}
        rets = [e for e in rets if not (e.value[0] == 's' and str(e.value[1]).startswith('global:')
                                        and e.value[1][7:] in assigned)]
        if rets and all(elementwise(e.value) is True for e in rets):
            out[q] = params[0]
    return out


def _norm_len(t, keeps_shape=None):
    """Number of samples of a column is the number of rows of the array it was cut from:
    X[:, i].shape[0] == X.shape[0] ;  len(v) == v.shape[0] ;  f(X).shape == X.shape for an element-wise f."""
    if t[0] == 'sub' and t[2] == C(0) and t[1][0] == 'attr' and t[1][2] == 'shape':
        base = t[1][1]
        if keeps_shape and base[0] == 'call' and base[1] in keeps_shape:
            arg = base[2][0] if base[2] else dict(base[3]).get(keeps_shape[base[1]])
            if arg is not None:
                return ('sub', ('attr', arg, 'shape'), C(0))
        if base[0] == 'sub' and base[2][0] == 'tuple' and len(base[2][1]) == 2 and base[2][1][0][0] == 'slice' \
                and all(is_c(x) and x[1] is None for x in base[2][1][0][1:4]):
            return ('sub', ('attr', base[1], 'shape'), C(0))
    if t[0] == 'call' and t[1] == 'builtins.len' and len(t[2]) == 1 and t[2][0][0] in ('sub', 's', 'call'):
        return ('sub', ('attr', t[2][0], 'shape'), C(0))
    return None


def get(ctx, return_good, mask_given):
    _cache = ctx.P.__dict__.setdefault('_cyclevec_cache', {})     # per program: ids of dead programs are reused
    key = (return_good, mask_given)
    if key not in _cache:
        _cache[key] = Analysis(ctx, return_good, mask_given)
    else:
        a = _cache[key]
        ctx.paths += len(a.exits)
    return _cache[key]
