"""C20 - logging never changes results and verbosity overrides are temporary."""
import ast

from ..model import AnalysisError, unparse, walk_local
from ..paths import Evaluator, is_c, show, C, S, NONE, subterms
from .common import guards_of, trace_tail, const_right

PROPERTY = 'C20'
EXPLANATION = (
    "R1: typestate of the console level in the verbosity wrapper - an abstract walk over all paths of the wrapper "
    "body with exceptional outcomes (every statement containing a non-logging call may raise; finally blocks apply "
    "to every outcome; repeated identical conditions are correlated) proves that after the temporary level is set, "
    "every exit, normal or exceptional, has passed a restore whose argument derives from the level saved before "
    "the change. R2: the saved level may be None before set-up (may-return-None summary of get_level); every use of "
    "it as a key/argument is guarded. R3: non-interference - in the numeric modules logger calls are expression "
    "statements with pure arguments, nothing reads logger state, no emd.logger accessor is called. R4: both "
    "decorators call the wrapped function exactly once with (*args, **kwargs) and return its result unchanged. "
    "R5: the level accessors touch only handlers named 'console' of logger 'emd'.")
RULE_TEXT = "one obligation per wrapper exit class / guarded use / module / decorator / accessor"
FLOORS = {'C20.R1': 2, 'C20.R2': 1, 'C20.R3': 6, 'C20.R4': 2, 'C20.R5': 4}
PINNED_EXPECT = [('C20.R1', 'emd.logger.wrap_verbose.inner_verbose', 'exceptional'),
                 ('C20.R2', 'emd.logger.wrap_verbose.inner_verbose', 'saved level')]

WRAPPER = 'emd.logger.wrap_verbose.inner_verbose'
NUMERIC = ['emd.sift', 'emd.spectra', 'emd.cycles', 'emd._cycles_support', 'emd.utils', 'emd.support']

UNCHANGED, CHANGED, RESTORED = 'unchanged', 'changed', 'restored'


def run(ctx):
    ctx.rule(rule_restore_all_exits, 'C20.R1')
    ctx.rule(rule_saved_level_none, 'C20.R2')
    ctx.rule(rule_non_interference, 'C20.R3')
    ctx.rule(rule_transparent_decorators, 'C20.R4')
    ctx.rule(rule_accessors, 'C20.R5')


# ----------------------------------------------------------------------------------------------
class LevelWalk:
    """Abstract walk of a function body: outcomes x typestate of the console level."""

    def __init__(self, P, fi, saved_vars):
        self.P = P
        self.fi = fi
        self.saved = saved_vars
        self.log = []

    def _calls(self, node):
        return [n for n in ast.walk(node) if isinstance(n, ast.Call)]

    def _dotted(self, call):
        ca = self.P.resolve_callee(self.fi.module, self.fi, call.func)
        return ca.dotted or ''

    def _is_logging(self, call):
        d = self.P.resolve(self.fi.module, call.func, self.fi) or ''
        return d.startswith('emd.logger.logger.') or d.startswith('logging.') or '.format' in unparse(call.func)[-8:]

    def _none_test(self, test):
        """True for `<saved> is not None`, False for `<saved> is None`, else None."""
        if isinstance(test, ast.Compare) and len(test.ops) == 1 and isinstance(test.left, ast.Name) \
                and test.left.id in self.saved and isinstance(test.comparators[0], ast.Constant) \
                and test.comparators[0].value is None:
            if isinstance(test.ops[0], ast.IsNot):
                return True
            if isinstance(test.ops[0], ast.Is):
                return False
        return None

    def classify(self, stmt):
        """('acquire'|'restore'|None, may_raise)"""
        kind = None
        may_raise = False
        for c in self._calls(stmt):
            d = self._dotted(c)
            if d == 'emd.logger.set_level':
                lvl = None
                if c.args:
                    lvl = c.args[0]
                for k in c.keywords:
                    if k.arg == 'level':
                        lvl = k.value
                names = {n.id for n in ast.walk(lvl) if isinstance(n, ast.Name)} if lvl is not None else set()
                if names & self.saved:
                    kind = 'restore'
                else:
                    kind = 'acquire'
            elif d == 'emd.logger.get_level':
                pass
            elif self._is_logging(c):
                pass
            else:
                may_raise = True
        return kind, may_raise

    def walk(self, stmts, state, assume):
        """-> set of (outcome, state, note) ; outcome in fall/return/raise"""
        outs = set()
        cur = {(state, tuple(sorted(assume.items())))}
        for s in stmts:
            nxt = set()
            for st, asm in cur:
                for o, st2, asm2, note in self.stmt(s, st, dict(asm)):
                    if o == 'fall':
                        nxt.add((st2, tuple(sorted(asm2.items()))))
                    else:
                        outs.add((o, st2, note))
            cur = nxt
            if not cur:
                break
        for st, asm in cur:
            outs.add(('fall', st, None))
        self._last_assume = [dict(a) for _, a in cur]
        return outs

    def _walk_keep(self, stmts, state, assume):
        """like walk but returns fall-through (state, assume) pairs separately"""
        outs = []
        cur = [(state, dict(assume))]
        for s in stmts:
            nxt = []
            for st, asm in cur:
                for o, st2, asm2, note in self.stmt(s, st, dict(asm)):
                    if o == 'fall':
                        nxt.append((st2, asm2))
                    else:
                        outs.append((o, st2, asm2, note))
            cur = nxt
        for st, asm in cur:
            outs.append(('fall', st, asm, None))
        return outs

    def _eval_test(self, test, assume):
        """Three-valued evaluation of a branch test under the assumptions made so far on this path.
        Returns [(truth, assumptions)] - one entry per way the test can turn out.  Identical sub-conditions
        (same AST) are correlated, `a and b` / `a or b` / `not a` are decomposed."""
        if isinstance(test, ast.BoolOp):
            is_and = isinstance(test.op, ast.And)
            outs = []

            def rec(i, asm):
                if i == len(test.values):
                    outs.append((is_and, asm))
                    return
                for truth, a2 in self._eval_test(test.values[i], asm):
                    if truth != is_and:
                        outs.append((truth, a2))       # short circuit
                    else:
                        rec(i + 1, a2)
            rec(0, dict(assume))
            return outs
        if isinstance(test, ast.UnaryOp) and isinstance(test.op, ast.Not):
            return [(not truth, a2) for truth, a2 in self._eval_test(test.operand, assume)]
        test = const_right(test)
        key = ast.dump(test)
        if key in assume:
            return [(assume[key], dict(assume))]
        outs = []
        for b in (True, False):
            a2 = dict(assume)
            a2[key] = b
            nn = self._none_test(test)
            if nn is not None:
                a2['#saved-is-none'] = (nn != b)
            outs.append((b, a2))
        return outs

    def stmt(self, s, state, assume):
        ln = getattr(s, 'lineno', 0)
        if isinstance(s, ast.If):
            res = []
            for b, a2 in self._eval_test(s.test, assume):
                st_b = state
                if a2.get('#saved-is-none') and state == CHANGED:
                    # saved level is None <=> get_level found no handler named 'console' <=> set_level(tmp)
                    # had no handler to change (both accessors are guarded by the same name test, rule R5):
                    # nothing was changed, nothing is to be restored
                    st_b = UNCHANGED
                res.extend(self._walk_keep(s.body if b else s.orelse, st_b, a2))
            return res
        if isinstance(s, ast.Try):
            res = []
            body = self._walk_keep(s.body, state, assume)
            after_body = []
            for o, st, asm, note in body:
                if o == 'raise' and s.handlers:
                    catch_all = any(h.type is None or (isinstance(h.type, ast.Name) and h.type.id in
                                                      ('Exception', 'BaseException')) for h in s.handlers)
                    for h in s.handlers:
                        after_body.extend(self._walk_keep(h.body, st, asm))
                    if not catch_all:
                        after_body.append((o, st, asm, note))
                elif o == 'fall' and s.orelse:
                    after_body.extend(self._walk_keep(s.orelse, st, asm))
                else:
                    after_body.append((o, st, asm, note))
            if not s.finalbody:
                return after_body
            for o, st, asm, note in after_body:
                for o2, st2, asm2, note2 in self._walk_keep(s.finalbody, st, asm):
                    if o2 == 'fall':
                        res.append((o, st2, asm2, note))
                    else:
                        res.append((o2, st2, asm2, note2))
            return res
        if isinstance(s, (ast.For, ast.While)):
            res = [('fall', state, assume, None)]
            res.extend(self._walk_keep(s.body, state, assume))
            return [(('fall' if o in ('fall',) else o), st, asm, note) for o, st, asm, note in res]
        if isinstance(s, ast.With):
            for item in s.items:
                call = item.context_expr
                if isinstance(call, ast.Call):
                    ca = self.P.resolve_callee(self.fi.module, self.fi, call.func)
                    g = ca.func if ca is not None and ca.kind == 'repo' else None
                    if g is not None and any('contextmanager' in unparse(d) for d in g.node.decorator_list):
                        r = self._with_contextmanager(g, s, state, assume)
                        if r is not None:
                            return r
            return self._walk_keep(s.body, state, assume)
        if isinstance(s, ast.Return):
            kind, may_raise = self.classify(s)
            res = [('return', state, assume, 'return at line %d' % ln)]
            if may_raise:
                res.append(('raise', state, assume, 'exception in `%s` (line %d)' % (unparse(s)[:50], ln)))
            return res
        if isinstance(s, ast.Raise):
            return [('raise', state, assume, 'raise at line %d' % ln)]
        if isinstance(s, (ast.FunctionDef, ast.ClassDef, ast.Pass, ast.Import, ast.ImportFrom)):
            return [('fall', state, assume, None)]
        # simple statements
        kind, may_raise = self.classify(s)
        # assignments invalidate assumptions that mention the assigned names
        stored = {n.id for n in ast.walk(s) if isinstance(n, ast.Name) and isinstance(n.ctx, ast.Store)}
        if stored:
            assume = {k: v for k, v in assume.items() if not any(("id='%s'" % nm) in k for nm in stored)}
        res = []
        if may_raise:
            res.append(('raise', state, assume, 'exception in `%s` (line %d)' % (unparse(s)[:50], ln)))
        if kind == 'acquire':
            state = CHANGED
        elif kind == 'restore':
            if state == CHANGED:
                state = RESTORED
        res.append(('fall', state, assume, None))
        return res


def _cm_split(g):
    """(statements before the yield, [try-part before, try-part after, finalbody] or None, statements after) of a
    generator-based context manager with one yield at the top level of its body or of one try/finally."""
    body = g.node.body
    for i, st in enumerate(body):
        if isinstance(st, ast.Expr) and isinstance(st.value, ast.Yield):
            return body[:i], None, body[i + 1:]
        if isinstance(st, ast.Try) and not st.handlers:
            for j, t in enumerate(st.body):
                if isinstance(t, ast.Expr) and isinstance(t.value, ast.Yield):
                    return body[:i], [st.body[:j], st.body[j + 1:], st.finalbody], body[i + 1:]
    return None


def _with_contextmanager(self, g, s, state, assume):
    """`with cm(...): BODY` for a generator context manager: code before the yield, BODY, then the code after the
    yield - which only runs when BODY completes (falls through or returns), unless it sits in a finally block."""
    sp = _cm_split(g)
    if sp is None:
        return None
    pre, tr, post = sp
    saved0 = set(self.saved)
    self.saved |= _saved_vars(self.P, g)
    fi0 = self.fi
    outs = []

    def helper(stmts, st, asm):
        self.fi = g
        try:
            return self._walk_keep(stmts, st, asm)
        finally:
            self.fi = fi0

    def seq(stages, st, asm):
        # stages: list of (statements, in helper?, runs on which incoming outcomes)
        cur = [('fall', st, asm, None)]
        for stmts, in_helper, on in stages:
            nxt = []
            for o, st1, asm1, note in cur:
                if o not in on:
                    nxt.append((o, st1, asm1, note))
                    continue
                walker = helper if in_helper else (lambda a, b, c: self._walk_keep(a, b, c))
                for o2, st2, asm2, note2 in walker(stmts, st1, asm1):
                    if o2 == 'fall':
                        nxt.append((o, st2, asm2, note))          # keep the pending outcome (return / raise)
                    else:
                        nxt.append((o2, st2, asm2, note2))
            cur = nxt
        return cur
    try:
        if tr is None:
            stages = [(pre, True, ('fall',)), (s.body, False, ('fall',)), (post, True, ('fall', 'return'))]
        else:
            stages = [(pre, True, ('fall',)), (tr[0], True, ('fall',)), (s.body, False, ('fall',)),
                      (tr[1], True, ('fall', 'return')), (tr[2], True, ('fall', 'return', 'raise')),
                      (post, True, ('fall', 'return'))]
        outs = seq(stages, state, assume)
    finally:
        self.saved = saved0
    return outs


LevelWalk._with_contextmanager = _with_contextmanager


def _saved_vars(P, fi):
    out = set()
    for n in walk_local(fi.node):
        if isinstance(n, ast.Assign) and isinstance(n.value, ast.Call):
            ca = P.resolve_callee(fi.module, fi, n.value.func)
            if ca.dotted == 'emd.logger.get_level':
                for t in n.targets:
                    if isinstance(t, ast.Name):
                        out.add(t.id)
    return out


def rule_restore_all_exits(ctx, rid):
    P = ctx.P
    fi = P.func(WRAPPER)
    saved = _saved_vars(P, fi)
    # transitive: names derived from the saved level (e.g. name = logging._levelToName[saved])
    changed = True
    while changed:
        changed = False
        for n in walk_local(fi.node):
            if isinstance(n, ast.Assign):
                used = {m.id for m in ast.walk(n.value) if isinstance(m, ast.Name)}
                if used & saved:
                    for t in n.targets:
                        if isinstance(t, ast.Name) and t.id not in saved:
                            saved.add(t.id)
                            changed = True
    w = LevelWalk(P, fi, saved)
    acquires = [s for s in ast.walk(fi.node) if isinstance(s, (ast.Expr, ast.Assign)) and w.classify(s)[0] == 'acquire']
    # the change may sit in a generator context manager used by the wrapper (`with _temporary_level(lvl): ...`)
    helpers = []
    for n in walk_local(fi.node):
        if isinstance(n, ast.With):
            for item in n.items:
                if isinstance(item.context_expr, ast.Call):
                    ca = P.resolve_callee(fi.module, fi, item.context_expr.func)
                    if ca.kind == 'repo' and ca.func is not None and any('contextmanager' in unparse(d)
                                                                          for d in ca.func.node.decorator_list):
                        helpers.append(ca.func)
    save_funcs = [fi]
    for g in helpers:
        wg = LevelWalk(P, g, saved | _saved_vars(P, g))
        acq_g = [s for s in ast.walk(g.node) if isinstance(s, (ast.Expr, ast.Assign)) and wg.classify(s)[0] == 'acquire']
        if acq_g:
            acquires += acq_g
            saved |= _saved_vars(P, g)
            save_funcs.append(g)
    w.saved = saved
    if not acquires:
        raise AnalysisError('%s: no temporary level change found (anchor vanished)' % fi.qualname)
    if not saved:
        ctx.violation(rid, fi, 'previous level is saved before the change',
                      'the wrapper changes the console level without reading the previous one', node=acquires[0])
        return
    outs = w.walk(fi.node.body, UNCHANGED, {})
    ctx.paths += len(outs)
    for kind, label in (('normal', ('fall', 'return')), ('exceptional', ('raise',))):
        bad = [(o, st, note) for o, st, note in outs if o in label and st == CHANGED]
        total = [1 for o, st, note in outs if o in label]
        c = 'console level restored on every %s exit after an override' % kind
        if bad:
            ctx.violation(rid, fi, c,
                          'a %s exit leaves the temporary console level in force: %s' % (kind, bad[0][2] or 'end of wrapper'),
                          node=acquires[0], expected='restore(saved level) on the path', found='no restore',
                          path=[b[2] or 'fall through' for b in bad[:4]])
        elif not total:
            ctx.undecided(rid, fi, c, 'no %s exit found' % kind)
        else:
            ctx.passed(rid, fi, c, '%d outcome classes' % len(total), node=acquires[0])
    # the save must precede the change
    first_acq = min(a.lineno for a in acquires)
    save_lines = [n.lineno for f_ in save_funcs for n in walk_local(f_.node)
                  if isinstance(n, ast.Assign) and isinstance(n.value, ast.Call)
                  and P.resolve_callee(f_.module, f_, n.value.func).dotted == 'emd.logger.get_level']
    if not save_lines or min(save_lines) > first_acq:
        ctx.violation(rid, fi, 'previous level is saved before the change',
                      'get_level() is read after the temporary level was set', node=acquires[0])
    else:
        ctx.passed(rid, fi, 'previous level is saved before the change')


# ----------------------------------------------------------------------------------------------
def rule_saved_level_none(ctx, rid):
    P = ctx.P
    fi = P.func(WRAPPER)
    gl = P.func('emd.logger.get_level')
    exits = Evaluator(P).run(gl)
    maybe_none = any(e.kind == 'return' and is_c(e.value) and e.value[1] is None for e in exits)
    saved = _saved_vars(P, fi)
    c = 'saved level is not used as a key/argument when it may be None'
    if not maybe_none:
        ctx.passed(rid, fi, c, 'get_level never returns None')
        return
    bad = None
    n = 0
    for node in walk_local(fi.node):
        use = None
        if isinstance(node, ast.Subscript) and any(isinstance(m, ast.Name) and m.id in saved
                                                   for m in ast.walk(node.slice)):
            use = node
        elif isinstance(node, ast.Call) and not isinstance(node.func, ast.Attribute) or (
                isinstance(node, ast.Call) and isinstance(node.func, ast.Attribute)
                and not unparse(node.func).startswith('logger.')):
            for a in list(node.args) + [k.value for k in node.keywords]:
                if isinstance(a, ast.Name) and a.id in saved:
                    use = node
        if use is None:
            continue
        n += 1
        guards = guards_of(fi, _stmt_of(fi, use))
        ok = False
        for t, pol in guards:
            for cj in (t.values if isinstance(t, ast.BoolOp) and isinstance(t.op, ast.And) and pol else [t]):
                if isinstance(cj, ast.Compare) and len(cj.ops) == 1 \
                        and isinstance(cj.left, ast.Name) and cj.left.id in saved \
                        and isinstance(cj.comparators[0], ast.Constant) and cj.comparators[0].value is None \
                        and ((pol and isinstance(cj.ops[0], (ast.IsNot, ast.NotEq)))
                             or (not pol and isinstance(cj.ops[0], (ast.Is, ast.Eq)))):
                    ok = True
        if not ok:
            bad = use
    if bad is not None:
        ctx.violation(rid, fi, c,
                      'get_level() returns None before the logger is set up (no console handler); the wrapper then '
                      'evaluates `%s` (KeyError/TypeError after the wrapped call has finished)' % unparse(bad)[:60],
                      node=bad, expected='use guarded by `<saved> is not None`', found=unparse(bad)[:80])
    elif n == 0:
        ctx.passed(rid, fi, c, 'saved level never used as key/argument')
    else:
        ctx.passed(rid, fi, c, '%d guarded use(s)' % n)


def _stmt_of(fi, node):
    """innermost statement containing node"""
    best = None
    for s in walk_local(fi.node):
        if isinstance(s, ast.stmt):
            for m in ast.walk(s):
                if m is node:
                    if best is None or (s.lineno >= best.lineno and (s.end_lineno or 0) <= (best.end_lineno or 1 << 30)):
                        best = s
                    break
    return best or node


# ----------------------------------------------------------------------------------------------
PURE_FUNCS = {'format', 'shape', 'sum', 'max', 'min', 'mean', 'astype', 'round', 'floor', 'abs', 'log2', 'len',
              'type', 'keys', 'std', 'str', 'int', 'float', 'ceil', 'sqrt',
              'current_process',        # multiprocessing.current_process(): identifies the worker, reads no logger state
              'getpid', 'bool', 'repr', 'join', 'tolist', 'item', 'size', 'ndim'}


def _only_safe_logging(stmts):
    """Statements that can run or not run without any observable difference: logger calls whose arguments are
    formats of plain names / constants (no indexing, no attribute chains into data, no calls beyond str.format)."""
    for st in stmts:
        if isinstance(st, ast.Pass):
            continue
        if not (isinstance(st, ast.Expr) and isinstance(st.value, ast.Call) and isinstance(st.value.func, ast.Attribute)
                and st.value.func.attr in ('debug', 'info', 'warning', 'error', 'verbose', 'critical', 'log')
                and 'logger' in unparse(st.value.func.value)):
            return False
        for a in ast.walk(st.value):
            if a is st.value:
                continue
            if isinstance(a, (ast.Subscript, ast.Starred, ast.NamedExpr, ast.Await)):
                return False
            if isinstance(a, ast.Call) and not (isinstance(a.func, ast.Attribute) and a.func.attr == 'format'):
                return False
            if isinstance(a, ast.Attribute) and not (a.attr == 'format' or isinstance(a.value, ast.Name)):
                return False
    return True


def rule_non_interference(ctx, rid):
    P = ctx.P
    for mname in NUMERIC:
        m = P.module(mname)
        problems = []
        nlog = 0
        for q, fi in sorted(m.functions.items()):
            for node in walk_local(fi.node):
                if isinstance(node, ast.Call):
                    d = P.resolve(m, node.func, fi) or ''
                    if d.startswith(mname + '.logger.'):
                        nlog += 1
                        # must be an expression statement on its own
                        st = _stmt_of(fi, node)
                        if not (isinstance(st, ast.Expr) and st.value is node):
                            problems.append((node, fi, 'the result of a logger call is used: `%s`' % unparse(st)[:70]))
                        # arguments pure
                        for a in ast.walk(node):
                            if a is node:
                                continue
                            if isinstance(a, ast.NamedExpr):
                                problems.append((node, fi, 'assignment expression inside a log call'))
                            if isinstance(a, ast.Call):
                                name = a.func.attr if isinstance(a.func, ast.Attribute) else (
                                    a.func.id if isinstance(a.func, ast.Name) else '?')
                                if name not in PURE_FUNCS:
                                    dd = P.resolve(m, a.func, fi) or ''
                                    if not (dd.startswith('numpy.') and 'random' not in dd):
                                        problems.append((node, fi, 'log argument calls `%s`, not known to be pure'
                                                         % unparse(a.func)[:40]))
                    elif d.startswith('emd.logger.') and d.split('.')[-1] in (
                            'get_level', 'set_level', 'is_active', 'disable', 'enable', 'set_up', 'set_format'):
                        problems.append((node, fi, 'numeric code calls the logger accessor %s' % d))
                    elif d.startswith('logging.') and d not in ('logging.getLogger',):
                        problems.append((node, fi, 'numeric code calls %s' % d))
                elif isinstance(node, ast.Attribute) and isinstance(node.value, ast.Name) and node.value.id == 'logger' \
                        and 'logger' not in fi.local_names():
                    if node.attr in ('disabled', 'level', 'handlers', 'isEnabledFor', 'getEffectiveLevel',
                                     'hasHandlers', 'manager', 'propagate'):
                        st0 = _stmt_of(fi, node)
                        if isinstance(st0, ast.If) and any(x is node for x in ast.walk(st0.test)) \
                                and _only_safe_logging(st0.body) and _only_safe_logging(st0.orelse):
                            continue        # `if logger.isEnabledFor(DEBUG): logger.debug(fmt.format(x))`
                        problems.append((node, fi, 'numeric code reads logger state `logger.%s`' % node.attr))
        c = 'module %s: logging is write-only (expression statements, pure arguments, no state reads)' % mname
        anyfi = next(iter(m.functions.values())) if m.functions else None
        if problems:
            node, fi, why = problems[0]
            ctx.violation(rid, fi, c, why + ' - results could depend on the logger state', node=node)
        else:
            ctx.ob(rid, 'PASS', mname, c, '%d logger calls' % nlog, file=m.relpath, line=1)
    ctx.cover['logger_calls_checked'] = True


# ----------------------------------------------------------------------------------------------
def rule_transparent_decorators(ctx, rid):
    P = ctx.P
    for q in (WRAPPER, 'emd.logger.sift_logger.add_logger.sift_logger'):
        fi = P.func(q)
        c = 'decorator calls the wrapped function once with (*args, **kwargs) and returns its result unchanged'
        calls = [n for n in walk_local(fi.node) if isinstance(n, ast.Call) and isinstance(n.func, ast.Name)
                 and n.func.id == 'func']
        if not calls:
            ctx.violation(rid, fi, c, 'the wrapped function is never called', node=fi.node)
            continue
        badcall = None
        for call in calls:
            okargs = (len(call.args) == 1 and isinstance(call.args[0], ast.Starred)
                      and isinstance(call.args[0].value, ast.Name) and call.args[0].value.id == fi.vararg
                      and len(call.keywords) == 1 and call.keywords[0].arg is None
                      and isinstance(call.keywords[0].value, ast.Name) and call.keywords[0].value.id == fi.kwarg)
            if not okargs:
                badcall = call
        if badcall is not None:
            ctx.violation(rid, fi, c, 'the wrapped function is not called with (*args, **kwargs): `%s`'
                          % unparse(badcall), node=badcall)
            continue
        # exactly one call on every path (several call sites are fine when they sit on different paths)
        callnodes = set(id(n) for n in calls)

        def obs(node, term, st):
            if id(node) in callnodes:
                st.effects.append(('wrapped-call', getattr(node, 'lineno', 0)))
        evc = Evaluator(P, observer=obs)
        counts = {}
        for e in evc.run(fi):
            if e.kind == 'return':
                k = sum(1 for eff in e.state.effects if eff[0] == 'wrapped-call')
                counts.setdefault(k, e)
        wrong = sorted(k for k in counts if k != 1)
        if wrong:
            ctx.violation(rid, fi, c, 'the wrapped function is called %d times on a normal path' % wrong[0],
                          node=fi.node, path=trace_tail(counts[wrong[0]].state))
            continue
        # args/kwargs not modified before the call
        mods = [n for n in walk_local(fi.node) if isinstance(n, (ast.Subscript, ast.Name)) and isinstance(getattr(n, 'ctx', None), (ast.Store, ast.Del))
                and (getattr(n, 'id', None) in (fi.vararg, fi.kwarg)
                     or (isinstance(n, ast.Subscript) and isinstance(n.value, ast.Name) and n.value.id in (fi.vararg, fi.kwarg)))]
        popcalls = [n for n in walk_local(fi.node) if isinstance(n, ast.Call) and isinstance(n.func, ast.Attribute)
                    and isinstance(n.func.value, ast.Name) and n.func.value.id in (fi.vararg, fi.kwarg)
                    and n.func.attr in ('pop', 'update', 'clear', 'setdefault', 'popitem')]
        if mods or popcalls:
            ctx.violation(rid, fi, c, 'the decorator modifies args/kwargs before forwarding them',
                          node=(mods + popcalls)[0])
            continue
        ev = Evaluator(P)
        exits = ev.run(fi)
        ctx.paths += len(exits)
        bad = None
        nret = 0
        for e in exits:
            if e.kind != 'return':
                continue
            nret += 1
            v = e.value
            if not (v[0] == 'callv' and v[1] == S('closure:func')):
                bad = e
        if bad is not None:
            ctx.violation(rid, fi, c, 'a normal path returns %s instead of the wrapped result' % show(bad.value)[:60],
                          node=bad.node, path=trace_tail(bad.state))
        elif nret == 0:
            ctx.violation(rid, fi, c, 'no normal return path')
        else:
            ctx.passed(rid, fi, c, '%d return paths' % nret)
    # the logging decorator runs the same statements whatever the logger state: a branch on the logger's level /
    # handlers (build a message only when DEBUG is enabled ...) makes exceptions in that branch depend on the state
    sl = P.func('emd.logger.sift_logger.add_logger.sift_logger')
    c = 'the logging decorator does not branch on the logger state'
    STATE = ('isEnabledFor', 'getEffectiveLevel', 'hasHandlers')
    STATE_ATTR = ('level', 'disabled', 'handlers', 'propagate')
    hit = None
    hits = []
    for n in walk_local(sl.node):
        tests = []
        if isinstance(n, (ast.If, ast.While, ast.IfExp)):
            tests.append(n.test)
        elif isinstance(n, ast.Assert):
            tests.append(n.test)
        for t in tests:
            for x in ast.walk(t):
                if isinstance(x, ast.Call) and isinstance(x.func, ast.Attribute) and x.func.attr in STATE:
                    hits.append((n, unparse(t)[:60]))
                if isinstance(x, ast.Attribute) and x.attr in STATE_ATTR and 'logg' in unparse(x.value).lower():
                    hits.append((n, unparse(t)[:60]))
                if isinstance(x, ast.Call):
                    ca = P.resolve_callee(sl.module, sl, x.func)
                    if ca is not None and ca.dotted in ('emd.logger.get_level', 'emd.logger.is_active'):
                        hits.append((n, unparse(t)[:60]))
    for h in hits:
        # guarded statements that are plain log calls are fine: nothing observable depends on the guard
        if not (isinstance(h[0], ast.If) and _only_safe_logging(h[0].body) and _only_safe_logging(h[0].orelse)):
            hit = h
    if hit:
        ctx.violation(rid, sl, c, 'the decorator tests `%s`: what it executes (and whether that can raise) depends on the '
                      'logger state, so a call can fail with logging set up and succeed without' % hit[1], node=hit[0])
    else:
        ctx.passed(rid, sl, c)
    # informational
    sl = P.func('emd.logger.sift_logger.add_logger.sift_logger')
    for n in walk_local(sl.node):
        if isinstance(n, ast.Subscript) and isinstance(n.value, ast.Name) and n.value.id == sl.vararg:
            ctx.note(rid, sl, 'decorator reads args[0]', 'sift(X=x) (signal by keyword) raises IndexError in the logging '
                     'decorator in every logger state', node=n)
            break


def _closure(P, q):
    """q and every repo function reachable from it in the call graph."""
    seen = {q}
    todo = [q]
    cg = P.callgraph()
    while todo:
        x = todo.pop()
        for y in cg.get(x, ()):
            if y not in seen:
                seen.add(y)
                todo.append(y)
    return seen


def _console_only(P, fi, action):
    """Every access to <handler>.setLevel / <handler>.level on the evaluated paths is on a handler h for which the
    path (or the generator that produced h) established h.get_name() == 'console'.  Helpers are inlined, so the
    filter may be an `if` in the loop, a generator expression, or a helper returning one."""
    ev_ = Evaluator(P)
    exits = ev_.run(fi)

    def is_console_test(c, h):
        return c[0] == 'cmp' and c[1] == '==' and c[3] == C('console') and c[2][0] == 'meth' \
            and c[2][1] == 'get_name' and c[2][2] == h

    def filtered_source(var, it):
        """generator / comprehension chain down to the handlers: is `var` restricted to console handlers?"""
        seen = 0
        while it[0] == 'comp' and len(it[3]) == 1 and seen < 4:
            v2, it2, conds = it[3][0]
            if it[2] == v2 and any(is_console_test(c, v2) for c in conds):
                return True
            if it[2] != v2:
                return False
            it = it2
            seen += 1
        return False
    nacc = 0
    why = ''
    ok = True

    def accesses(t):
        for x in subterms(t):
            if action == 'setLevel' and x[0] == 'meth' and x[1] == 'setLevel':
                yield x[2]
            if action == 'level' and x[0] == 'attr' and x[2] == 'level':
                yield x[1]
    for e in exits:
        # loop form
        for ls in e.state.loops:
            if ls.kind != 'for':
                continue
            src_ok = filtered_source(ls.var, ls.iter_term)
            for kind, b in ls.body_states:
                terms = [eff[1] for eff in b.effects if eff[0] == 'expr']
                for h in [h for t in terms for h in accesses(t)]:
                    nacc += 1
                    if h != ls.var or not (src_ok or any(tr and is_console_test(cd, h) for cd, tr, ln in b.conds)):
                        ok, why = False, show(h)[:40]
        if e.kind == 'return' and e.value is not None:
            v = e.value
            for h in accesses(v):
                nacc += 1
                good = any(tr and is_console_test(cd, h) for cd, tr, ln in e.state.conds)
                # generator form: next((h.level for h in <filtered>), None)
                for x in subterms(v):
                    if x[0] == 'comp' and len(x[3]) == 1 and x[3][0][0] == h:
                        var, it, conds = x[3][0]
                        if any(is_console_test(c, var) for c in conds) or filtered_source(var, it):
                            good = True
                if not good:
                    # a return from inside `for h in <filtered generator>:`
                    for node_, sms_ in ev_.loops_seen.items():
                        for sm_ in sms_:
                            if sm_.var == h and filtered_source(sm_.var, sm_.iter_term):
                                good = True
                if not good:
                    ok, why = False, show(v)[:60]
    if nacc == 0:
        return False, 0, 'no access to a handler level found'
    return ok, nacc, why


def rule_accessors(ctx, rid):
    P = ctx.P
    for q, action in (('emd.logger.set_level', 'setLevel'), ('emd.logger.get_level', 'level')):
        fi = P.func(q)
        c = "%s touches only handlers named 'console' of logger 'emd'" % fi.name
        getlog = [n for n in walk_local(fi.node) if isinstance(n, ast.Call)
                  and P.resolve(fi.module, n.func, fi) == 'logging.getLogger']
        if not getlog or not (getlog[0].args and isinstance(getlog[0].args[0], ast.Constant)
                              and getlog[0].args[0].value == 'emd'):
            ctx.violation(rid, fi, c, "the accessor does not work on logging.getLogger('emd')", node=fi.node)
            continue
        ok, nacc, why = _console_only(P, fi, action)
        if ok:
            ctx.passed(rid, fi, c, '%d guarded access state(s)' % nacc)
        else:
            ctx.violation(rid, fi, c, "a handler's level is read/written without the name=='console' guard: " + why,
                          node=fi.node)
        if action == 'level':
            # what get_level reports is what the wrapper saves and later restores: it must be the console handler's own
            # level (or None when there is no such handler), not a value derived from other logging state
            c3 = "get_level returns the 'console' handler's level, or None"
            bad3 = unread3 = None
            n3 = 0
            for e in Evaluator(P).run(fi):
                if e.kind != 'return':
                    continue
                n3 += 1
                v = e.value
                if v is None or v == NONE or (is_c(v) and v[1] is None):
                    continue
                if v[0] == 'attr' and v[2] == 'level':
                    continue
                if v[0] == 'call' and v[1] == 'builtins.next' and len(v[2]) == 2 and v[2][1] == NONE \
                        and v[2][0][0] == 'comp' and v[2][0][2][0] == 'attr' and v[2][0][2][2] == 'level':
                    continue            # next((h.level for h in <console handlers>), None)
                wrong = is_c(v) or (v[0] == 'ref' and v[1].startswith('logging.')) or \
                    (v[0] == 'meth' and v[1] == 'getEffectiveLevel') or \
                    (v[0] == 'attr' and v[2] in ('disable', 'level') and v[1][0] == 'attr')
                if wrong:
                    bad3 = 'a path of get_level returns %s instead of the level of the console handler: the verbosity ' \
                           'wrapper saves this value and restores it after the call, leaving the console at a level nobody ' \
                           'set' % show(v)[:60]
                    break
                unread3 = show(v)[:80]
            if bad3:
                ctx.violation(rid, fi, c3, bad3, node=fi.node)
            elif unread3:
                ctx.undecided(rid, fi, c3, 'cannot read the returned value %s' % unread3)
            elif n3 == 0:
                ctx.undecided(rid, fi, c3, 'no return path')
            else:
                ctx.passed(rid, fi, c3, '%d return path(s)' % n3)
        # an accessor must not configure logging: the verbosity wrapper calls it before the logger is set up and
        # restores nothing in that case, so a handler created here outlives the call at the override level
        c2 = '%s does not set up or reconfigure logging' % fi.name
        CONFIG = ('emd.logger.set_up', 'logging.config.dictConfig', 'logging.basicConfig', 'logging.config.fileConfig')
        hit = None
        for q2 in sorted(P.callgraph_closure(fi.qualname) if hasattr(P, 'callgraph_closure') else _closure(P, fi.qualname)):
            g = P.funcs.get(q2)
            if g is None:
                continue
            for n in P.calls_in(g):
                d = P.resolve(g.module, n.func, g) or ''
                ca = P.resolve_callee(g.module, g, n.func)
                dd = ca.dotted if ca is not None and ca.dotted else d
                if d in CONFIG or dd in CONFIG or (isinstance(n.func, ast.Attribute) and n.func.attr in ('addHandler',
                                                                                                          'removeHandler')):
                    hit = (g, n, dd or d or unparse(n.func))
        if hit:
            ctx.violation(rid, fi, c2, '%s reaches %s (in %s): a verbosity override requested before set-up creates a '
                          'console handler that stays at the override level' % (fi.name, hit[2], hit[0].name), node=hit[1])
        else:
            ctx.passed(rid, fi, c2)
