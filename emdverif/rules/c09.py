"""C09 - instantaneous phase, frequency and amplitude are consistent (partly)."""
import ast

from ..model import AnalysisError, unparse, walk_local
from ..paths import Evaluator, is_c, show, C, S, NONE, subterms
from ..degree import DegreeAnalysis
from ..poly import Poly
from .common import mk_algebra
from . import l1

PROPERTY = 'C09'
EXPLANATION = (
    "R1: on every normal path of frequency_transform (methods hilbert / nht / quad) the returned phase is "
    "wrap_phase(U, '2pi') of the unwrapped phase U, and wrap_phase('2pi') is U mod (ncycles * 2pi). R2: the returned "
    "frequency is freq_from_phase of the same unwrapped U (the wrap happens after), freq_from_phase is "
    "sample_rate/(2pi) * gradient_0 and phase_from_freq is phase_start + cumsum_0(2pi/sample_rate * f); the two "
    "coefficients multiply to 1. R3: homogeneity degrees (phase 0, frequency 0, amplitude 1) for the three methods "
    "(amplitude_normalise typed degree 0 under the path condition 'the envelope exists', and its normalisation core "
    "x / envelope(x) is checked). R4: every documented method defines the analytic signal and the amplitude before "
    "use; other literals raise. R6 pipeline, per method: the analytic signal is scipy.signal.hilbert(IMFs or their "
    "amplitude-normalised form, axis=0) / quadrature_transform(IMFs); the phase comes from phase_from_complex_signal("
    "that signal, ret_phase='unwrapped', smoothing=the caller's); the amplitude is |signal| (hilbert) or the upper "
    "envelope of every column stored at its own (i, j), over range(shape[1]) x range(shape[2]) of the array lifted to "
    "3-D exactly when the input is 2-D and un-lifted exactly then (output in the shape of the input). R7: phase_from_complex_signal as called by the transform returns "
    "unwrap(angle(signal), axis=0) + pi/2 in the shape of the signal; the median smoothing is applied exactly when "
    "requested, column by column, with an odd window; ret_phase selects wrapped / unwrapped. Not decided (the bulk of the behavioural statement): accuracy on sinusoids, the "
    "smoothing window's effect, '%' returning exactly 2pi for a tiny negative phase.")
RULE_TEXT = "one obligation per method x clause"
FLOORS = {'C09.R1': 4, 'C09.R2': 5, 'C09.R3': 4, 'C09.R4': 4, 'C09.R6': 9, 'C09.R7': 3}

FT = 'emd.spectra.frequency_transform'
METHODS = ('hilbert', 'nht', 'quad')
TWO_PI = ('bin', '*', C(2), ('ref', 'numpy.pi'))


def run(ctx):
    ctx.trust('np.gradient / np.cumsum along axis 0 are the discrete derivative / integral; np.angle is scale-free')
    rule_wrap_and_freq(ctx)
    ctx.rule(rule_conversions, 'C09.R2')
    ctx.rule(rule_degrees, 'C09.R3')
    ctx.rule(rule_methods, 'C09.R4')
    ctx.rule(rule_pipeline, 'C09.R6')
    ctx.rule(rule_unwrapped_phase, 'C09.R7')
    ctx.rule(rule_normalise_shape, 'C09.R3')
    ctx.rule(rule_normalise_every_column, 'C09.R3')
    # the nht / quad amplitude is an envelope through the extrema: it exists whenever there are two or more extrema
    # (the None-chain of the extrema routine, shared with C01.R4)
    from . import siftcore
    ctx.rule(siftcore.rule_none_chain, 'C09.R5', ctx.P.func('emd.sift.get_next_imf'))
    l1.rule_lib_attrs(ctx, 'L1', [FT, 'emd.spectra.phase_from_freq'], 'frequency transform')


def rule_wrap_and_freq(ctx):
    P = ctx.P
    fi = P.func(FT)
    for m in METHODS:
        exits = [e for e in Evaluator(P).run(fi, context={'method': m}) if e.kind == 'return']
        ctx.paths += len(exits)
        c1 = "method '%s': returned phase is wrap_phase(unwrapped phase, '2pi')" % m
        c2 = "method '%s': frequency is computed from the same unwrapped phase, before the wrap" % m
        bad1 = bad2 = None
        for e in exits:
            v = e.value
            if not (v[0] == 'tuple' and len(v[1]) == 3):
                bad1 = 'return value is %s' % show(v)[:60]
                continue
            ph, fr, am = v[1]
            if not (ph[0] == 'call' and ph[1] == 'emd.utils.wrap_phase' and dict(ph[3]).get('mode') == C('2pi')
                    and dict(ph[3]).get('ncycles') == C(1)):
                bad1 = 'phase is %s' % show(ph)[:80]
                continue
            U = dict(ph[3]).get('IP')
            if not (U is not None and U[0] == 'call' and U[1] == 'emd.spectra.phase_from_complex_signal'
                    and dict(U[3]).get('ret_phase') == C('unwrapped')):
                bad1 = 'wrapped quantity is %s' % show(U)[:80]
            if not (fr[0] == 'call' and fr[1] == 'emd.spectra.freq_from_phase'):
                bad2 = 'frequency is %s' % show(fr)[:80]
                continue
            kw = dict(fr[3])
            if kw.get('iphase') != U:
                bad2 = 'frequency is derived from %s, not from the unwrapped phase that is returned' % show(kw.get('iphase'))[:60]
            if kw.get('sample_rate') != S('sample_rate'):
                bad2 = 'sample rate passed to freq_from_phase is %s' % show(kw.get('sample_rate'))[:40]
        for c, bad, rid in ((c1, bad1, 'C09.R1'), (c2, bad2, 'C09.R2')):
            if bad:
                ctx.violation(rid, fi, c, bad)
            elif not exits:
                ctx.undecided(rid, fi, c, 'no return path')
            else:
                ctx.passed(rid, fi, c, '%d return path(s)' % len(exits))
    wp = P.func('emd.utils.wrap_phase')
    alg = mk_algebra()
    exits = [e for e in Evaluator(P).run(wp, context={'mode': '2pi'}) if e.kind == 'return']
    c = "wrap_phase('2pi') is IP mod (ncycles * 2pi)"
    ok = False
    for e in exits:
        v = e.value
        if v[0] == 'bin' and v[1] == '%' and v[2] == S('IP') and \
                alg.poly(v[3]) == alg.poly(('bin', '*', S('ncycles'), TWO_PI)):
            ok = True
    if ok:
        ctx.passed('C09.R1', wp, c)
    else:
        ctx.violation('C09.R1', wp, c, 'wrap is %s' % '; '.join(show(e.value)[:80] for e in exits))


def rule_conversions(ctx, rid):
    P = ctx.P
    alg = mk_algebra()
    ff = P.func('emd.spectra.freq_from_phase')
    exits = [e for e in Evaluator(P).run(ff) if e.kind == 'return']
    g = ('call', 'numpy.gradient', (S('iphase'),), (('axis', C(0)),))
    want = alg.poly(('bin', '*', ('bin', '/', g, TWO_PI), S('sample_rate')))
    c = 'freq_from_phase == sample_rate / (2 pi) * gradient along time'
    kf = None
    if len(exits) == 1 and alg.poly(exits[0].value) == want:
        ctx.passed(rid, ff, c)
        kf = alg.poly(('bin', '/', S('sample_rate'), TWO_PI))
    else:
        ctx.violation(rid, ff, c, 'found %s' % '; '.join(str(alg.poly(e.value))[:120] for e in exits),
                      expected=str(want)[:120])
    pf = P.func('emd.spectra.phase_from_freq')
    exits = [e for e in Evaluator(P).run(pf) if e.kind == 'return']
    c = 'phase_from_freq == phase_start + cumulative sum along time of 2 pi / sample_rate * f'
    kp = None
    ok = False
    if len(exits) == 1:
        v = exits[0].value
        cs = [t for t in subterms(v) if t[0] == 'call' and t[1] == 'numpy.cumsum']
        if len(cs) == 1 and dict(cs[0][3]).get('axis') == C(0):
            inner = alg.poly(cs[0][2][0])
            wanti = alg.poly(('bin', '*', ('bin', '/', S('ifrequency'), S('sample_rate')), TWO_PI))
            outer = alg.poly(v) - alg.atom(cs[0])
            if inner == wanti and outer == alg.poly(S('phase_start')):
                ok = True
                kp = alg.poly(('bin', '/', TWO_PI, S('sample_rate')))
    if ok:
        ctx.passed(rid, pf, c)
    else:
        ctx.violation(rid, pf, c, 'found %s' % '; '.join(show(e.value)[:120] for e in exits))
    from ..effects import MutationAnalysis
    ma = MutationAnalysis(P)
    for q in ('emd.spectra.freq_from_phase', 'emd.spectra.phase_from_freq', 'emd.spectra.frequency_transform',
              'emd.utils.wrap_phase', 'emd.spectra.phase_from_complex_signal'):
        f2 = P.func(q)
        mp = ma.mutated_params(f2)
        cc = '%s leaves its input arrays unchanged (a second conversion of the same profile gives the same result)' % f2.name
        if mp:
            formal, muts = sorted(mp.items())[0]
            ctx.violation(rid, f2, cc, 'the caller\'s %s is overwritten: %s' % (formal, muts[0].what), node=muts[0].node)
        else:
            ctx.passed(rid, f2, cc)
    c = 'the two conversion coefficients multiply to one'
    if kf is not None and kp is not None and (kf * kp) == Poly.const(1):
        ctx.passed(rid, ff, c)
    elif kf is None or kp is None:
        ctx.undecided(rid, ff, c, 'one of the conversions was not recognised')
    else:
        ctx.violation(rid, ff, c, 'product is %s' % (kf * kp))


def rule_degrees(ctx, rid):
    P = ctx.P
    fi = P.func(FT)
    D = DegreeAnalysis(P, overrides={'emd.utils.amplitude_normalise': 0})
    ctx.assume('amplitude_normalise is typed degree 0 under the path condition "the envelope exists"; a column with '
               'fewer than two extrema is passed through un-normalised by design')
    for m in METHODS:
        n0 = len(D.issues)
        got = D.summary(FT, {'imf': 1}, {'method': m})
        c = "method '%s': phase and frequency are scale-free, amplitude scales with the IMF" % m
        issues = D.issues[n0:]
        if got == ('tup', (0, 0, 1)) and not issues:
            ctx.passed(rid, fi, c, 'degrees (0, 0, 1)')
        else:
            ctx.violation(rid, fi, c, 'homogeneity degrees are %s%s' % (
                got, '; ' + '; '.join('%s %s' % (i.kind, show(i.term)[:60]) for i in issues[:3]) if issues else ''),
                expected='(0, 0, 1)')
    ctx.paths += D.paths
    # the normalisation core: every in-place update of a column divides it by an envelope of that same column
    an = P.func('emd.utils.amplitude_normalise')
    exits = [e for e in Evaluator(P).run(an, context={'clip': False}) if e.kind == 'return']
    c = 'amplitude_normalise divides each column by the envelope of that same column'
    n = 0
    bad = None
    seen = set()

    def walk_loops(st):
        for ls in st.loops:
            if id(ls) in seen:
                continue
            seen.add(id(ls))
            yield ls
            for kind, b in ls.body_states:
                for x in walk_loops(b):
                    yield x
    for e in exits:
        for ls in walk_loops(e.state):
            for kind, b in ls.body_states:
                for eff in b.effects:
                    # an in-place update of a column of the array being normalised, whatever the local is called and
                    # whether it is written directly or through a view: A[:, i, j] = ...
                    if eff[0] == 'setitem' and eff[2][0] == 'tuple' and len(eff[2][1]) == 3 \
                            and eff[2][1][0] == ('slice', NONE, NONE, NONE) and all(x[0] in ('s', 'bv') for x in eff[2][1][1:]):
                        val = eff[3]
                        idx = eff[2]
                        n += 1
                        if not (val[0] == 'bin' and val[1] == '/'):
                            bad = 'column update is %s' % show(val)[:80]
                            continue
                        num, den = val[2], val[3]
                        if not (num[0] == 'sub' and num[2] == idx):
                            bad = 'numerator is %s, not the column being updated' % show(num)[:60]
                        envs = [t for t in subterms(den) if t[0] == 'call' and t[1] == 'emd.sift.interp_envelope']
                        if den[0] == 's':
                            continue          # loop-carried envelope variable: its values are checked below
                        if not envs:
                            bad = 'denominator is %s' % show(den)[:60]
                # the envelope variable always holds an envelope of the same column
                for envn, envv in b.env.items():
                    if isinstance(envv, tuple) and envv and envv[0] == 'call' and envv[1] == 'emd.sift.interp_envelope':
                        if dict(envv[3]).get('mode') != C('combined'):
                            bad = 'envelope variable %s holds %s' % (envn, show(envv)[:60])
    if bad:
        ctx.violation(rid, an, c, bad)
    elif n == 0:
        ctx.undecided(rid, an, c, 'no in-place column update found')
    else:
        ctx.passed(rid, an, c, '%d update states' % n)
    # every column has the whole iteration budget: the counter compared with max_iters is 0 whenever the
    # normalisation loop of a column is entered (also in the generic, later, column)
    import ast as _ast
    c = 'every column starts its normalisation loop with a fresh iteration counter'
    seen.clear()
    nloops = 0
    badc = None
    for e in exits:
        for ls in walk_loops(e.state):
            if ls.kind != 'while':
                continue
            counters = set()
            for cmp_ in _ast.walk(ls.node.test):
                if isinstance(cmp_, _ast.Compare):
                    names = [x.id for x in _ast.walk(cmp_) if isinstance(x, _ast.Name)]
                    if 'max_iters' in names:
                        counters |= {x for x in names if x != 'max_iters'}
            if not counters:
                continue
            nloops += 1
            for cn in counters:
                v0 = ls.entry_env.get(cn)
                if v0 != C(0):
                    badc = 'the counter %s is %s when the loop of a column is entered: the budget of max_iters passes ' \
                           'is shared between columns, later columns are left un-normalised' \
                           % (cn, show(v0)[:40] if v0 is not None else 'undefined')
    if badc:
        ctx.violation(rid, an, c, badc)
    elif nloops == 0:
        ctx.undecided(rid, an, c, 'no loop bounded by max_iters found')
    else:
        ctx.passed(rid, an, c, '%d loop entries' % nloops)


def rule_methods(ctx, rid):
    P = ctx.P
    fi = P.func(FT)
    for m in METHODS:
        exits = Evaluator(P).run(fi, context={'method': m})
        rets = [e for e in exits if e.kind == 'return']
        c = "method '%s' defines analytic signal and amplitude before use" % m
        bad = None
        for e in rets:
            undefined = [t for t in subterms(e.value) if t[0] == 's' and t[1].startswith('global:')]
            if undefined:
                bad = 'uses undefined %s' % undefined[0][1]
        if bad:
            ctx.violation(rid, fi, c, bad)
        elif not rets:
            ctx.violation(rid, fi, c, 'no return path for this method')
        else:
            ctx.passed(rid, fi, c)
    exits = Evaluator(P).run(fi, context={'method': 'bogus'})
    c = 'an undocumented method raises'
    if exits and all(e.kind == 'raise' for e in exits):
        ctx.passed(rid, fi, c)
    else:
        ctx.violation(rid, fi, c, 'unknown method does not raise')


# ----------------------------------------------------------------------------------------------
# C09.R6: the per-method pipeline of frequency_transform, clause by clause
def _imf_root(t):
    """the (ensured) input IMFs, with the lift imf[:, :, None] stripped: -> (root, lifted?)"""
    from .common import strip_lift
    t, lifted = strip_lift(t)
    if t == S('imf'):
        return t, lifted
    if t[0] == 'call' and t[1] == 'emd.support.ensure_2d':
        lst = dict(t[3]).get('to_check', t[2][0] if t[2] else None)
        if lst is not None and lst[0] in ('list', 'tuple') and lst[1] == (S('imf'),):
            return S('imf'), lifted
    return None, lifted


def rule_pipeline(ctx, rid):
    P = ctx.P
    fi = P.func(FT)
    FULL = ('slice', NONE, NONE, NONE)
    for m in METHODS:
        exits = [e for e in Evaluator(P).run(fi, context={'method': m}) if e.kind == 'return']
        ctx.paths += len(exits)
        c_sig = "method '%s': the analytic signal is the documented transform of the IMFs along the sample axis" % m
        c_ph = "method '%s': the phase is the unwrapped phase of that signal with the caller's smoothing" % m
        c_am = "method '%s': the amplitude is %s, in the shape of the input" % (
            m, '|analytic signal|' if m == 'hilbert' else 'the upper envelope of every column')
        bad = {c_sig: None, c_ph: None, c_am: None}
        und = {}
        n = 0
        for e in exits:
            v = e.value
            if not (v[0] == 'tuple' and len(v[1]) == 3):
                continue
            n += 1
            ph, fr, am = v[1]
            pcs = [t for t in subterms(fr) if t[0] == 'call' and t[1] == 'emd.spectra.phase_from_complex_signal']
            if not pcs:
                und[c_ph] = 'frequency is %s' % show(fr)[:60]
                continue
            kw = dict(pcs[0][3])
            A = kw.get('complex_signal', NONE)
            if kw.get('ret_phase') != C('unwrapped'):
                bad[c_ph] = "phase_from_complex_signal(ret_phase=%s): the frequency must be computed from the unwrapped phase" % show(
                    kw.get('ret_phase', NONE))
            if kw.get('smoothing', NONE) != S('smooth_phase'):
                bad[c_ph] = 'the smoothing requested by the caller is replaced by %s' % show(kw.get('smoothing', S('<default>')))
            if kw.get('phase_jump', C('ascending')) != C('ascending'):
                bad[c_ph] = 'phase_jump=%s' % show(kw['phase_jump'])
            # --- analytic signal
            if m in ('hilbert', 'nht'):
                if not (A[0] == 'call' and A[1] == 'scipy.signal.hilbert' and A[2]):
                    if A[0] == 'call':
                        bad[c_sig] = 'the analytic signal is %s' % show(A)[:70]
                    else:
                        und[c_sig] = 'analytic signal %s' % show(A)[:70]
                    continue
                akw = dict(A[3])
                ax = akw.get('axis', A[2][2] if len(A[2]) > 2 else C(-1))
                if ax != C(0):
                    bad[c_sig] = 'scipy.signal.hilbert runs along axis %s (default: the last axis = across IMFs), not along the ' \
                                 'samples' % show(ax)
                src = A[2][0]
                if m == 'hilbert':
                    root, lifted = _imf_root(src)
                    if root is None:
                        bad[c_sig] = 'the Hilbert transform is applied to %s, not to the IMFs' % show(src)[:60]
                else:
                    if not (src[0] == 'call' and src[1] == 'emd.utils.amplitude_normalise'):
                        bad[c_sig] = "'nht' transforms %s, not the amplitude-normalised IMFs" % show(src)[:60]
                    else:
                        root, lifted = _imf_root(dict(src[3]).get('X', NONE))
                        if root is None:
                            bad[c_sig] = 'amplitude_normalise is applied to %s' % show(dict(src[3]).get('X', NONE))[:50]
            else:
                if not (A[0] == 'call' and A[1] == 'emd.spectra.quadrature_transform' and _imf_root(dict(A[3]).get('X', NONE))[0] is not None):
                    bad[c_sig] = "'quad' uses %s as analytic signal" % show(A)[:70]
            # --- amplitude
            if m == 'hilbert':
                if am[0] == 'call' and am[1] in ('numpy.abs', 'numpy.absolute') and am[2] and am[2][0] == A:
                    pass
                elif am[0] == 'call' and am[1] in ('numpy.real', 'numpy.imag', 'numpy.angle', 'numpy.abs', 'numpy.absolute', 'numpy.square'):
                    bad[c_am] = 'the amplitude is %s' % show(am)[:60].replace(show(A), 'analytic_signal')
                elif am[0] == 'attr' and am[2] in ('real', 'imag'):
                    bad[c_am] = 'the amplitude is the %s part of the analytic signal' % am[2]
                else:
                    und[c_am] = 'amplitude %s' % show(am)[:60]
                continue
            # nht / quad: envelope per column, lifted to 3-D and back
            from .common import lifted_column_loops
            status, info = lifted_column_loops(e, am)
            if status == 'infeasible':
                continue
            if status == 'unknown':
                und[c_am] = info
                continue
            if status == 'bad':
                bad[c_am] = info
                continue
            ent = info['entry']
            if not (ent[0] == 'alloc_like' and _imf_root(ent[1])[0] is not None) and not (
                    ent[0] == 'call' and ent[1] in ('numpy.zeros', 'numpy.empty') and ent[2]
                    and ent[2][0][0] == 'attr' and ent[2][0][2] == 'shape' and _imf_root(ent[2][0][1])[0] is not None):
                und[c_am] = 'the amplitude array starts as %s' % show(ent)[:60]
                continue
            for ls, l2, idx, val, b2 in info['stores']:
                if not (val[0] == 'call' and val[1] in ('emd.sift.interp_envelope', 'emd.utils.interp_envelope')):
                    bad[c_am] = 'the amplitude of a column is %s' % show(val)[:60]
                    continue
                vkw = dict(val[3])
                if vkw.get('mode', C('upper')) != C('upper'):
                    bad[c_am] = "interp_envelope(mode=%s): the amplitude is the upper envelope" % show(vkw['mode'])
                X = vkw.get('X', NONE)
                okx = X[0] == 'sub' and X[2] == idx
                root, lifted = _imf_root(X[1]) if okx else (None, False)
                if not okx or root is None:
                    bad[c_am] = 'the envelope stored for column (%s, %s) is computed from %s' % (
                        show(ls.var), show(l2.var), show(X)[:60])
                elif lifted != info['is2d']:
                    bad[c_am] = 'a %s-D input is indexed with three indices %s the auxiliary axis' % (
                        2 if info['is2d'] else 3, 'without' if info['is2d'] else 'after adding')
        for c in (c_sig, c_ph, c_am):
            if bad[c]:
                ctx.violation(rid, fi, c, bad[c])
            elif c in und:
                ctx.undecided(rid, fi, c, und[c])
            elif n == 0:
                ctx.undecided(rid, fi, c, 'no returning path')
            else:
                ctx.passed(rid, fi, c, '%d return path(s)' % n)


# ----------------------------------------------------------------------------------------------
# C09.R7: the unwrapped phase handed to the frequency estimate
def rule_unwrapped_phase(ctx, rid):
    """phase_from_complex_signal(signal, smoothing, ret_phase='unwrapped', phase_jump='ascending') - the call made by
    frequency_transform - returns unwrap(angle(signal), axis=0) + pi/2 in the shape of the signal; with smoothing
    requested every column is replaced by an odd-window median filter of itself, without it nothing is filtered."""
    P = ctx.P
    fi = P.func('emd.spectra.phase_from_complex_signal')
    alg = mk_algebra()
    FULL = ('slice', NONE, NONE, NONE)
    U = ('call', 'numpy.unwrap', (('call', 'numpy.angle', (S('complex_signal'),), ()),), (('axis', C(0)),))
    c_core = "ascending / unwrapped: the result is unwrap(angle(signal), axis=0) + pi/2 in the shape of the signal"
    c_sm = 'the median smoothing is applied exactly when requested, column by column, with an odd window'
    c_sel = "ret_phase selects the unwrapped phase or its wrapped form"
    exits = Evaluator(P).run(fi, context={'ret_phase': 'unwrapped', 'phase_jump': 'ascending'})
    ctx.paths += len(exits)
    bad_core = bad_sm = und_core = None
    n = 0
    for e in exits:
        if e.kind != 'return':
            bad_core = "ret_phase='unwrapped', phase_jump='ascending' raises %s" % show(e.value)[:50]
            continue
        n += 1
        v = e.value
        unw = [t for t in subterms(v) if t[0] == 'call' and t[1] == 'numpy.unwrap']
        sm = None
        is2d = None
        for cd, tr, ln in e.state.conds:
            r = None
            if cd[0] == 'cmp' and cd[2] == S('smoothing') and cd[3] == NONE and cd[1] in ('is', 'isnot'):
                sm = (cd[1] == 'isnot') == tr
            if cd[0] == 'cmp' and cd[1] in ('==', '!=') and cd[3] == C(2) and cd[2][0] == 'attr' and cd[2][2] == 'ndim':
                is2d = (cd[1] == '==') == tr
        # offset
        if not (v[0] == 'bin' and v[1] in ('+', '-')):
            bad_core = 'the result is %s' % show(v)[:70]
            continue
        core, off = v[2], v[3]
        try:
            okoff = v[1] == '+' and alg.poly(off) == alg.poly(('bin', '/', ('ref', 'numpy.pi'), C(2)))
        except Exception:
            okoff = False
        if not okoff:
            bad_core = "phase_jump='ascending' shifts the phase by %s%s, not by +pi/2 (a sinusoid's starting phase is then not " \
                       "recovered)" % (v[1], show(off)[:30])
            continue
        from .common import strip_unlift, strip_lift, lifted_column_loops
        plain, unl = strip_unlift(core)
        if unl is True:
            plain2, lif = strip_lift(plain)
        else:
            plain2, lif = strip_lift(core) if unl is False else (core, False)
        if plain2 == U and unl in (True, False):
            # no loop involved: unwrap(angle(signal)) possibly lifted and un-lifted again
            if lif != (unl is True):
                bad_core = 'the auxiliary axis is added without being removed (or the reverse)'
            elif sm is True:
                bad_sm = 'smoothing is requested but the phase returned is not filtered'
            continue
        if unw and unw[0] != U and unw[0][0] == 'call' and not any(t_[0] == 's' and '@F' in t_[1] for t_ in subterms(core)):
            ax = dict(unw[0][3]).get('axis', C(-1))
            if unw[0][2] != U[2]:
                bad_core = 'the phase unwrapped is %s, not np.angle(complex_signal)' % show(unw[0][2][0])[:50]
            elif ax != C(0):
                bad_core = 'np.unwrap runs along axis %s (default: the last axis = across IMFs), not along the samples' % show(ax)
            else:
                und_core = 'the phase is %s' % show(core)[:70]
            continue
        status, info = lifted_column_loops(e, core)
        if status == 'infeasible':
            n -= 1
            continue
        if status == 'unknown':
            und_core = info
            continue
        if status == 'bad':
            bad_core = info
            continue
        # the array filtered column by column
        if sm is False:
            bad_sm = 'the phase is filtered although no smoothing was requested'
            continue
        ent = info['entry']
        if ent != U:
            if ent[0] == 'call' and ent[1] == 'numpy.unwrap':
                ax = dict(ent[3]).get('axis', C(-1))
                bad_core = ('np.unwrap runs along axis %s (default: the last axis = across IMFs), not along the samples' % show(ax)
                            if ent[2] == U[2] and ax != C(0) else 'the array that is smoothed starts as %s' % show(ent)[:70])
            else:
                und_core = 'the array that is smoothed starts as %s' % show(ent)[:70]
            continue
        for ls, l2, idx, val, b2 in info['stores']:
            if not (val[0] == 'call' and val[1] == 'scipy.signal.medfilt' and val[2]):
                bad_sm = 'a column is replaced by %s' % show(val)[:60]
                continue
            a0 = val[2][0]
            if not (a0[0] == 'sub' and a0[2] == idx):
                bad_sm = 'column (%s, %s) is replaced by the filter of %s' % (show(ls.var), show(l2.var), show(a0)[:50])
            k = dict(val[3]).get('kernel_size', val[2][1] if len(val[2]) > 1 else C(3))
            if is_c(k) and isinstance(k[1], int) and (k[1] % 2 == 0 or k[1] < 1):
                bad_sm = 'scipy.signal.medfilt needs an odd window, %d raises ValueError' % k[1]
    if bad_core:
        ctx.violation(rid, fi, c_core, bad_core)
    elif und_core:
        ctx.undecided(rid, fi, c_core, und_core)
    elif n == 0:
        ctx.undecided(rid, fi, c_core, 'no returning path')
    else:
        ctx.passed(rid, fi, c_core, '%d paths' % n)
    if bad_sm:
        ctx.violation(rid, fi, c_sm, bad_sm)
    elif n:
        ctx.passed(rid, fi, c_sm, '%d paths' % n)
    # ret_phase table
    bad = None
    for rp in ('unwrapped', 'wrapped'):
        for e in Evaluator(P).run(fi, context={'ret_phase': rp, 'phase_jump': 'ascending', 'smoothing': None}):
            if e.kind != 'return':
                bad = "ret_phase='%s' raises" % rp
                continue
            wrapped = e.value[0] == 'call' and e.value[1] == 'emd.utils.wrap_phase'
            if e.value == NONE:
                bad = "ret_phase='%s' returns None" % rp
            elif wrapped != (rp == 'wrapped'):
                bad = "ret_phase='%s' returns the %s phase" % (rp, 'wrapped' if wrapped else 'unwrapped')
    if bad:
        ctx.violation(rid, fi, c_sel, bad)
    else:
        ctx.passed(rid, fi, c_sel)


def rule_normalise_shape(ctx, rid):
    """amplitude_normalise returns an array in the shape of its input: a copy of the input is lifted to 3-D exactly
    when it is 2-D, every column (i, j) of the lifted copy is visited, and the auxiliary axis is removed exactly when it
    was added; the caller's array is never the one that is normalised."""
    P = ctx.P
    fi = P.func('emd.utils.amplitude_normalise')
    FULL = ('slice', NONE, NONE, NONE)
    c = 'the normalised IMFs come back in the shape of the input (2-D lifted to 3-D and back), computed on a copy'
    bad = None
    n = 0
    for e in Evaluator(P).run(fi, context={'clip': False}):
        ctx.paths += 1
        if e.kind != 'return':
            continue
        n += 1
        from .common import strip_unlift, strip_lift
        v, unlift = strip_unlift(e.value)
        if unlift is None or isinstance(unlift, tuple):
            ctx.undecided(rid, fi, c, 'returns %s' % show(e.value)[:60])
            return
        if not (v[0] == 's' and '@F' in v[1]):
            ctx.undecided(rid, fi, c, 'returns %s' % show(e.value)[:60])
            return
        name = v[1].split('@')[0]
        outer = [ls for ls in e.state.loops if ls.kind == 'for' and name in ls.entry_env]
        if not outer:
            ctx.undecided(rid, fi, c, 'no loop over the columns')
            return
        ent, lifted = strip_lift(outer[0].entry_env[name])
        via_view = False
        if not lifted:
            # the "view" spelling: the array keeps its shape and is written through V = A[:, :, None]
            for k_, v_ in outer[0].entry_env.items():
                if k_ != name and isinstance(v_, tuple):
                    base_, l_ = strip_lift(v_)
                    if l_ and base_ == ent:
                        lifted, via_view = True, True
        if ent == S('X'):
            bad = "the caller's array itself is normalised in place (no copy)"
            break
        if not (ent[0] == 'meth' and ent[1] == 'copy' and ent[2] == S('X')) and not (
                ent[0] == 'call' and ent[1] in ('numpy.array', 'numpy.copy') and ent[2] and ent[2][0] == S('X')):
            ctx.undecided(rid, fi, c, 'the array normalised starts as %s' % show(ent)[:60])
            return
        # which dimensionality does this path assume for the (copied) input?
        is2d = None
        for cd, tr, ln in e.state.conds:
            if cd[0] == 'cmp' and cd[1] in ('==', '!=') and cd[3] == C(2) and cd[2][0] == 'attr' and cd[2][2] == 'ndim' \
                    and cd[2][1] in (ent, S('X')):
                val = (cd[1] == '==') == tr
                if is2d is not None and is2d != val:
                    is2d = 'infeasible'
                    break
                is2d = val
        if is2d == 'infeasible':
            n -= 1
            continue            # X.ndim and X.copy().ndim disagree: not a real path
        if is2d is None:
            ctx.undecided(rid, fi, c, 'no test of the number of dimensions on a path')
            return
        if lifted != is2d:
            bad = 'a %d-D input is %s' % (2 if is2d else 3, 'not lifted to 3-D before it is indexed with three indices' if is2d
                                         else 'given a fourth axis')
            break
        if unlift != (is2d and not via_view):
            bad = ('for 2-D input the result keeps the auxiliary third axis (shape [samples, imfs, 1])' if is2d and not via_view
                   else 'the last axis of the result is dropped although the array never had an auxiliary axis')
            break
        it = outer[0].iter_term
        okr = it[0] == 'call' and it[1] == 'builtins.range' and len(it[2]) == 1 and it[2][0][0] == 'sub' and it[2][0][2] == C(1) \
            and it[2][0][1][0] == 'attr' and it[2][0][1][2] == 'shape'
        if not okr:
            bad = 'the loop over first-level IMFs runs over %s' % show(it)[:60]
            break
    if bad:
        ctx.violation(rid, fi, c, bad)
    elif n == 0:
        ctx.undecided(rid, fi, c, 'no returning path')
    else:
        ctx.passed(rid, fi, c, '%d feasible paths' % n)


def rule_normalise_every_column(ctx, rid):
    """amplitude_normalise iterates each column until its envelope is flat: the iteration loop of a column must be
    entered whenever that column has an envelope.  Read from the loop summaries: whatever controls the `while` loop
    (a flag, a counter) has, at loop entry, a value decided inside the same column iteration - not a value carried
    over from the previous column (a flag left False by column 0 would leave every later column un-normalised)."""
    P = ctx.P
    fi = P.func('emd.utils.amplitude_normalise')
    c = 'the normalisation loop of a column starts from that column\'s own state (nothing carried over from the previous column)'
    ev = Evaluator(P)
    ev.run(fi, context={'clip': False})
    whiles = [(node, sms) for node, sms in ev.loops_seen.items() if isinstance(node, ast.While)]
    if not whiles:
        ctx.undecided(rid, fi, c, 'no iteration loop found')
        return
    bad = None
    n = 0
    for node, sms in whiles:
        names = {x.id for x in ast.walk(node.test) if isinstance(x, ast.Name)}
        for sm in sms:
            for nm in sorted(names):
                v = sm.entry_env.get(nm)
                if v is None:
                    continue
                n += 1
                carried = [t for t in subterms(v) if t[0] == 's' and '@F' in t[1] and t[1].split('@')[0] == nm]
                if carried:
                    bad = (node, '`%s`, which controls the per-column iteration `while %s`, enters the loop with the value '
                           'left by the previous column (%s): once one column has converged the following columns are '
                           'never normalised' % (nm, unparse(node.test)[:50], show(v)[:40]))
    if bad:
        ctx.violation(rid, fi, c, bad[1], node=bad[0])
    elif n == 0:
        ctx.undecided(rid, fi, c, 'loop control variables not found at loop entry')
    else:
        ctx.passed(rid, fi, c, '%d entry state(s)' % n)
