"""C09 - instantaneous phase, frequency and amplitude are consistent (partly)."""
import ast

from ..model import AnalysisError, unparse, walk_local
from ..paths import Evaluator, is_c, show, C, S, NONE, subterms
from ..degree import DegreeAnalysis
from ..poly import Poly
from .common import mk_algebra
from . import l1

PROPERTY = 'C09'
EXPLANATION = (
    "R1: on every normal path of frequency_transform (methods hilbert / nht / quad) the returned phase is "
    "wrap_phase(U, '2pi') of the unwrapped phase U, and wrap_phase('2pi') is U mod (ncycles * 2pi). R2: the returned "
    "frequency is freq_from_phase of the same unwrapped U (the wrap happens after), freq_from_phase is "
    "sample_rate/(2pi) * gradient_0 and phase_from_freq is phase_start + cumsum_0(2pi/sample_rate * f); the two "
    "coefficients multiply to 1. R3: homogeneity degrees (phase 0, frequency 0, amplitude 1) for the three methods "
    "(amplitude_normalise typed degree 0 under the path condition 'the envelope exists', and its normalisation core "
    "x / envelope(x) is checked). R4: every documented method defines the analytic signal and the amplitude before "
    "use; other literals raise. Not decided (the bulk of the behavioural statement): accuracy on sinusoids, the "
    "smoothing window's effect, '%' returning exactly 2pi for a tiny negative phase.")
RULE_TEXT = "one obligation per method x clause"
FLOORS = {'C09.R1': 4, 'C09.R2': 5, 'C09.R3': 4, 'C09.R4': 4}

FT = 'emd.spectra.frequency_transform'
METHODS = ('hilbert', 'nht', 'quad')
TWO_PI = ('bin', '*', C(2), ('ref', 'numpy.pi'))


def run(ctx):
    ctx.trust('np.gradient / np.cumsum along axis 0 are the discrete derivative / integral; np.angle is scale-free')
    rule_wrap_and_freq(ctx)
    ctx.rule(rule_conversions, 'C09.R2')
    ctx.rule(rule_degrees, 'C09.R3')
    ctx.rule(rule_methods, 'C09.R4')
    # the nht / quad amplitude is an envelope through the extrema: it exists whenever there are two or more extrema
    # (the None-chain of the extrema routine, shared with C01.R4)
    from . import siftcore
    ctx.rule(siftcore.rule_none_chain, 'C09.R5', ctx.P.func('emd.sift.get_next_imf'))
    l1.rule_lib_attrs(ctx, 'L1', [FT, 'emd.spectra.phase_from_freq'], 'frequency transform')


def rule_wrap_and_freq(ctx):
    P = ctx.P
    fi = P.func(FT)
    for m in METHODS:
        exits = [e for e in Evaluator(P).run(fi, context={'method': m}) if e.kind == 'return']
        ctx.paths += len(exits)
        c1 = "method '%s': returned phase is wrap_phase(unwrapped phase, '2pi')" % m
        c2 = "method '%s': frequency is computed from the same unwrapped phase, before the wrap" % m
        bad1 = bad2 = None
        for e in exits:
            v = e.value
            if not (v[0] == 'tuple' and len(v[1]) == 3):
                bad1 = 'return value is %s' % show(v)[:60]
                continue
            ph, fr, am = v[1]
            if not (ph[0] == 'call' and ph[1] == 'emd.utils.wrap_phase' and dict(ph[3]).get('mode') == C('2pi')
                    and dict(ph[3]).get('ncycles') == C(1)):
                bad1 = 'phase is %s' % show(ph)[:80]
                continue
            U = dict(ph[3]).get('IP')
            if not (U is not None and U[0] == 'call' and U[1] == 'emd.spectra.phase_from_complex_signal'
                    and dict(U[3]).get('ret_phase') == C('unwrapped')):
                bad1 = 'wrapped quantity is %s' % show(U)[:80]
            if not (fr[0] == 'call' and fr[1] == 'emd.spectra.freq_from_phase'):
                bad2 = 'frequency is %s' % show(fr)[:80]
                continue
            kw = dict(fr[3])
            if kw.get('iphase') != U:
                bad2 = 'frequency is derived from %s, not from the unwrapped phase that is returned' % show(kw.get('iphase'))[:60]
            if kw.get('sample_rate') != S('sample_rate'):
                bad2 = 'sample rate passed to freq_from_phase is %s' % show(kw.get('sample_rate'))[:40]
        for c, bad, rid in ((c1, bad1, 'C09.R1'), (c2, bad2, 'C09.R2')):
            if bad:
                ctx.violation(rid, fi, c, bad)
            elif not exits:
                ctx.undecided(rid, fi, c, 'no return path')
            else:
                ctx.passed(rid, fi, c, '%d return path(s)' % len(exits))
    wp = P.func('emd.utils.wrap_phase')
    alg = mk_algebra()
    exits = [e for e in Evaluator(P).run(wp, context={'mode': '2pi'}) if e.kind == 'return']
    c = "wrap_phase('2pi') is IP mod (ncycles * 2pi)"
    ok = False
    for e in exits:
        v = e.value
        if v[0] == 'bin' and v[1] == '%' and v[2] == S('IP') and \
                alg.poly(v[3]) == alg.poly(('bin', '*', S('ncycles'), TWO_PI)):
            ok = True
    if ok:
        ctx.passed('C09.R1', wp, c)
    else:
        ctx.violation('C09.R1', wp, c, 'wrap is %s' % '; '.join(show(e.value)[:80] for e in exits))


def rule_conversions(ctx, rid):
    P = ctx.P
    alg = mk_algebra()
    ff = P.func('emd.spectra.freq_from_phase')
    exits = [e for e in Evaluator(P).run(ff) if e.kind == 'return']
    g = ('call', 'numpy.gradient', (S('iphase'),), (('axis', C(0)),))
    want = alg.poly(('bin', '*', ('bin', '/', g, TWO_PI), S('sample_rate')))
    c = 'freq_from_phase == sample_rate / (2 pi) * gradient along time'
    kf = None
    if len(exits) == 1 and alg.poly(exits[0].value) == want:
        ctx.passed(rid, ff, c)
        kf = alg.poly(('bin', '/', S('sample_rate'), TWO_PI))
    else:
        ctx.violation(rid, ff, c, 'found %s' % '; '.join(str(alg.poly(e.value))[:120] for e in exits),
                      expected=str(want)[:120])
    pf = P.func('emd.spectra.phase_from_freq')
    exits = [e for e in Evaluator(P).run(pf) if e.kind == 'return']
    c = 'phase_from_freq == phase_start + cumulative sum along time of 2 pi / sample_rate * f'
    kp = None
    ok = False
    if len(exits) == 1:
        v = exits[0].value
        cs = [t for t in subterms(v) if t[0] == 'call' and t[1] == 'numpy.cumsum']
        if len(cs) == 1 and dict(cs[0][3]).get('axis') == C(0):
            inner = alg.poly(cs[0][2][0])
            wanti = alg.poly(('bin', '*', ('bin', '/', S('ifrequency'), S('sample_rate')), TWO_PI))
            outer = alg.poly(v) - alg.atom(cs[0])
            if inner == wanti and outer == alg.poly(S('phase_start')):
                ok = True
                kp = alg.poly(('bin', '/', TWO_PI, S('sample_rate')))
    if ok:
        ctx.passed(rid, pf, c)
    else:
        ctx.violation(rid, pf, c, 'found %s' % '; '.join(show(e.value)[:120] for e in exits))
    from ..effects import MutationAnalysis
    ma = MutationAnalysis(P)
    for q in ('emd.spectra.freq_from_phase', 'emd.spectra.phase_from_freq', 'emd.spectra.frequency_transform',
              'emd.utils.wrap_phase', 'emd.spectra.phase_from_complex_signal'):
        f2 = P.func(q)
        mp = ma.mutated_params(f2)
        cc = '%s leaves its input arrays unchanged (a second conversion of the same profile gives the same result)' % f2.name
        if mp:
            formal, muts = sorted(mp.items())[0]
            ctx.violation(rid, f2, cc, 'the caller\'s %s is overwritten: %s' % (formal, muts[0].what), node=muts[0].node)
        else:
            ctx.passed(rid, f2, cc)
    c = 'the two conversion coefficients multiply to one'
    if kf is not None and kp is not None and (kf * kp) == Poly.const(1):
        ctx.passed(rid, ff, c)
    elif kf is None or kp is None:
        ctx.undecided(rid, ff, c, 'one of the conversions was not recognised')
    else:
        ctx.violation(rid, ff, c, 'product is %s' % (kf * kp))


def rule_degrees(ctx, rid):
    P = ctx.P
    fi = P.func(FT)
    D = DegreeAnalysis(P, overrides={'emd.utils.amplitude_normalise': 0})
    ctx.assume('amplitude_normalise is typed degree 0 under the path condition "the envelope exists"; a column with '
               'fewer than two extrema is passed through un-normalised by design')
    for m in METHODS:
        n0 = len(D.issues)
        got = D.summary(FT, {'imf': 1}, {'method': m})
        c = "method '%s': phase and frequency are scale-free, amplitude scales with the IMF" % m
        issues = D.issues[n0:]
        if got == ('tup', (0, 0, 1)) and not issues:
            ctx.passed(rid, fi, c, 'degrees (0, 0, 1)')
        else:
            ctx.violation(rid, fi, c, 'homogeneity degrees are %s%s' % (
                got, '; ' + '; '.join('%s %s' % (i.kind, show(i.term)[:60]) for i in issues[:3]) if issues else ''),
                expected='(0, 0, 1)')
    ctx.paths += D.paths
    # the normalisation core: every in-place update of a column divides it by an envelope of that same column
    an = P.func('emd.utils.amplitude_normalise')
    exits = [e for e in Evaluator(P).run(an, context={'clip': False}) if e.kind == 'return']
    c = 'amplitude_normalise divides each column by the envelope of that same column'
    n = 0
    bad = None
    seen = set()

    def walk_loops(st):
        for ls in st.loops:
            if id(ls) in seen:
                continue
            seen.add(id(ls))
            yield ls
            for kind, b in ls.body_states:
                for x in walk_loops(b):
                    yield x
    for e in exits:
        for ls in walk_loops(e.state):
            for kind, b in ls.body_states:
                for eff in b.effects:
                    if eff[0] == 'setitem' and eff[5] == 'X':
                        val = eff[3]
                        idx = eff[2]
                        n += 1
                        if not (val[0] == 'bin' and val[1] == '/'):
                            bad = 'column update is %s' % show(val)[:80]
                            continue
                        num, den = val[2], val[3]
                        if not (num[0] == 'sub' and num[2] == idx):
                            bad = 'numerator is %s, not the column being updated' % show(num)[:60]
                        envs = [t for t in subterms(den) if t[0] == 'call' and t[1] == 'emd.sift.interp_envelope']
                        if den[0] == 's':
                            continue          # loop-carried envelope variable: its values are checked below
                        if not envs:
                            bad = 'denominator is %s' % show(den)[:60]
                # the envelope variable always holds an envelope of the same column
                envv = b.env.get('env')
                if envv is not None and envv[0] == 'call':
                    if envv[1] != 'emd.sift.interp_envelope' or dict(envv[3]).get('mode') != C('combined'):
                        bad = 'envelope variable holds %s' % show(envv)[:60]
    if bad:
        ctx.violation(rid, an, c, bad)
    elif n == 0:
        ctx.undecided(rid, an, c, 'no in-place column update found')
    else:
        ctx.passed(rid, an, c, '%d update states' % n)
    # every column has the whole iteration budget: the counter compared with max_iters is 0 whenever the
    # normalisation loop of a column is entered (also in the generic, later, column)
    import ast as _ast
    c = 'every column starts its normalisation loop with a fresh iteration counter'
    seen.clear()
    nloops = 0
    badc = None
    for e in exits:
        for ls in walk_loops(e.state):
            if ls.kind != 'while':
                continue
            counters = set()
            for cmp_ in _ast.walk(ls.node.test):
                if isinstance(cmp_, _ast.Compare):
                    names = [x.id for x in _ast.walk(cmp_) if isinstance(x, _ast.Name)]
                    if 'max_iters' in names:
                        counters |= {x for x in names if x != 'max_iters'}
            if not counters:
                continue
            nloops += 1
            for cn in counters:
                v0 = ls.entry_env.get(cn)
                if v0 != C(0):
                    badc = 'the counter %s is %s when the loop of a column is entered: the budget of max_iters passes ' \
                           'is shared between columns, later columns are left un-normalised' \
                           % (cn, show(v0)[:40] if v0 is not None else 'undefined')
    if badc:
        ctx.violation(rid, an, c, badc)
    elif nloops == 0:
        ctx.undecided(rid, an, c, 'no loop bounded by max_iters found')
    else:
        ctx.passed(rid, an, c, '%d loop entries' % nloops)


def rule_methods(ctx, rid):
    P = ctx.P
    fi = P.func(FT)
    for m in METHODS:
        exits = Evaluator(P).run(fi, context={'method': m})
        rets = [e for e in exits if e.kind == 'return']
        c = "method '%s' defines analytic signal and amplitude before use" % m
        bad = None
        for e in rets:
            undefined = [t for t in subterms(e.value) if t[0] == 's' and t[1].startswith('global:')]
            if undefined:
                bad = 'uses undefined %s' % undefined[0][1]
        if bad:
            ctx.violation(rid, fi, c, bad)
        elif not rets:
            ctx.violation(rid, fi, c, 'no return path for this method')
        else:
            ctx.passed(rid, fi, c)
    exits = Evaluator(P).run(fi, context={'method': 'bogus'})
    c = 'an undocumented method raises'
    if exits and all(e.kind == 'raise' for e in exits):
        ctx.passed(rid, fi, c)
    else:
        ctx.violation(rid, fi, c, 'unknown method does not raise')
