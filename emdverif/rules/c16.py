"""C16 - sample, cycle, subset and chain index maps are mutually consistent (D7 index-space typing)."""
import ast

from ..model import AnalysisError, unparse, walk_local
from ..paths import substitute, Evaluator, is_c, show, C, S, NONE, subterms
from .common import trace_tail

PROPERTY = 'C16'
EXPLANATION = (
    "Index-space typing of emd._cycles_support. Levels: samples, cycles, subset, chains; the three mapping vectors are "
    "typed cycle_vect: samples->cycles|-1, subset_vect: cycles->subset|-1, chain_vect: subset->chains. Every map_A_to_B "
    "is evaluated along all its paths and each returned term is typed with the rules  V[i:X]:Y,  where(V==b:Y)[0]: set X, "
    "calls to sibling maps by their declared signatures; the result must be the level the name promises (R1). "
    "R2 sentinel discipline: a value that may be the -1 'none' marker is never used as an index or passed on as one "
    "without a '> -1' guard on the path, and 'is None' tests on results that can never be None are dead guards. "
    "R3: np.squeeze of a per-element list whose length may be 1 is not followed by len()/iteration. R4: projections are "
    "NaN-initialised on the target level and written through the matching map with vals[i].")
RULE_TEXT = "one obligation per map / projection function and clause; distinct = distinct keys"
FLOORS = {'C16.R1': 14, 'C16.R2': 14, 'C16.R3': 1, 'C16.R4': 6}
PINNED_EXPECT = [('C16.R2', 'emd._cycles_support.map_sample_to_subset', 'sentinel'),
                 ('C16.R3', 'emd._cycles_support.map_chain_to_cycle', 'squeeze')]

MOD = 'emd._cycles_support'
LEVELS = {'sample': 'samples', 'samples': 'samples', 'cycle': 'cycles', 'cycles': 'cycles', 'subset': 'subset',
          'chain': 'chains', 'chains': 'chains'}
VECS = {'cycle_vect': ('samples', 'cycles', True), 'subset_vect': ('cycles', 'subset', True),
        'chain_vect': ('subset', 'chains', False)}
# result kinds promised by the names: downward maps return sets, upward maps a scalar or None
ORDER = ['samples', 'cycles', 'subset', 'chains']


def sig_of(name):
    """map_A_to_B[_augmented] -> (A level, B level, 'set'|'scalar')"""
    parts = name.split('_')
    if len(parts) < 4 or parts[0] != 'map' or parts[2] != 'to':
        return None
    a, b = LEVELS.get(parts[1]), LEVELS.get(parts[3])
    if a is None or b is None:
        return None
    kind = 'set' if ORDER.index(b) < ORDER.index(a) else 'scalar'
    return a, b, kind


class TypeErr(Exception):
    pass


class Sentinel(Exception):
    pass


def run(ctx):
    P = ctx.P
    m = P.module(MOD)
    maps = sorted(n for n in m.functions if n.startswith('map_') and sig_of(n))
    ctx.cover['maps'] = maps
    MAY_NONE.clear()
    for name in maps:
        MAY_NONE[name] = any(e.kind == 'return' and e.value == NONE for e in Evaluator(P).run(m.functions[name]))
    ctx.cover['maps_that_may_return_none'] = sorted(k for k, v in MAY_NONE.items() if v)
    for name in maps:
        check_map(ctx, m.functions[name])
    ctx.rule(rule_squeeze, 'C16.R3')
    ctx.rule(rule_projections, 'C16.R4')
    # "defined for every existing cycle": the label vector the maps work on numbers the cycles of every column
    # 0..K-1 (a counter carried over between columns leaves labels that own no samples)
    from . import c12, cyclevec
    ctx.rule(c12.rule_labelling, 'C16.R5', cyclevec.get(ctx, False, False), 'return_good=False')
    ctx.rule(c12.rule_canonical_inputs, 'C16.R5')
    from . import c19
    ctx.rule(c19.rule_ensure_sites, 'C16.R5', only={cyclevec.GCV})
    # the subset and chain vectors the maps work on: -1 / running counter, empty selection -> empty chain vector
    from . import c15
    ctx.rule(c15.rule_counters, 'C16.R6')
    rule_dead_contiguity_guards(ctx)


# ----------------------------------------------------------------------------------------------
def typeof(t, fi, st, src_level, notes):
    """Type of a term inside map function fi.  Types:
    ('scalar', level, maybe_sentinel) ('set', level) ('vec', frm, to, sentinel) ('none',) ('other',)"""
    k = t[0]
    if k == 'c':
        if t[1] is None:
            return ('none',)
        return ('other',)
    if k == 's':
        name = t[1]
        if name == 'ii':
            return ('scalar', src_level, False)
        if name in VECS:
            return ('vec',) + VECS[name]
        if name == 'phase':
            return ('vec', 'samples', 'phase', False)
        return ('other',)
    if k == 'sub':
        base = typeof(t[1], fi, st, src_level, notes)
        idx = t[2]
        if base[0] == 'vec':
            it = typeof(idx, fi, st, src_level, notes)
            if it[0] == 'scalar':
                if it[1] != base[1]:
                    raise TypeErr('%s is indexed by a %s index (it maps %s -> %s)' % (show(t[1]), it[1], base[1], base[2]))
                if len(it) > 3 and it[3] and not _guarded_none(idx, st):
                    raise Sentinel('%s may be None ("no such item") and is used as an index into %s'
                                   % (show(idx)[:40], show(t[1])))
                if it[2] and not _guarded(idx, st):
                    raise Sentinel('%s may be the -1 "none" marker and is used as an index into %s' % (show(idx)[:40], show(t[1])))
                return ('scalar', base[2], base[3])
            if it[0] == 'set':
                if it[1] != base[1]:
                    raise TypeErr('%s is indexed by %s indices (it maps %s -> %s)' % (show(t[1]), it[1], base[1], base[2]))
                return ('set', base[2])
            if it[0] == 'other' and idx[0] == 'slice':
                return base
            return ('other',)
        if base[0] == 'set':
            # element / slice of an index set stays on the same level
            if idx[0] in ('slice',):
                return base
            return ('scalar', base[1], False)
        if base[0] == 'where':
            if is_c(idx) and isinstance(idx[1], int) and idx[1] not in (0, -1):
                raise TypeErr('np.where of a 1-D label vector is a 1-tuple: %s does not exist (IndexError for every input)'
                              % show(t)[:60])
            return ('set', base[1])
        return ('other',)
    if k == 'call':
        name = t[1]
        if name in ('numpy.where', 'numpy.nonzero') and len(t[2]) == 1:
            c = t[2][0]
            if c[0] == 'cmp' and c[1] in ('==', '>', '<', '>=', '<='):
                a = typeof(c[2], fi, st, src_level, notes)
                b = typeof(c[3], fi, st, src_level, notes)
                if a[0] not in ('vec', 'set') and b[0] in ('vec', 'set'):
                    # the vector may stand on either side of the comparison
                    c = ('cmp', {'<': '>', '>': '<', '<=': '>=', '>=': '<=', '==': '=='}[c[1]], c[3], c[2])
                    a, b = b, a
                if a[0] == 'vec' and c[1] == '==':
                    if b[0] in ('scalar', 'set') and b[1] != a[2]:
                        raise TypeErr('%s holds %s indices but is compared with a %s index' % (show(c[2]), a[2], b[1]))
                    if b[0] == 'scalar' and b[2] and not _guarded(c[3], st):
                        raise Sentinel('%s may be -1 and is looked up in %s' % (show(c[3])[:40], show(c[2])))
                    return ('where', a[1])
                if a[0] in ('vec',):
                    return ('where', a[1])
                if a[0] == 'set':
                    return ('where', a[1])
            return ('other',)
        if name.startswith(MOD + '.map_'):
            sg = sig_of(name.split('.')[-1])
            kw = dict(t[3])
            if sg is None:
                return ('other',)
            for formal, v in kw.items():
                if formal in VECS:
                    if v != S(formal):
                        raise TypeErr('%s receives %s as its %s' % (name.split('.')[-1], show(v)[:30], formal))
            arg = kw.get('ii')
            at = typeof(arg, fi, st, src_level, notes) if arg is not None else ('other',)
            if at[0] in ('scalar', 'set') and at[1] != sg[0]:
                raise TypeErr('%s expects a %s index and receives a %s index' % (name.split('.')[-1], sg[0], at[1]))
            if at[0] == 'scalar' and at[2] and not _guarded(arg, st):
                raise Sentinel('%s may be the -1 "none" marker and is passed to %s as an index'
                               % (show(arg)[:40], name.split('.')[-1]))
            if at[0] == 'scalar' and len(at) > 3 and at[3] and not _guarded_none(arg, st):
                raise Sentinel('%s may be None ("no such item") and is passed to %s as an index'
                               % (show(arg)[:40], name.split('.')[-1]))
            if at[0] == 'none':
                raise TypeErr('None is passed to %s as an index' % name.split('.')[-1])
            if sg[2] == 'set':
                return ('set', sg[1])
            # upward scalar maps: may be -1 only for map_sample_to_cycle (raw vector read)
            callee = name.split('.')[-1]
            return ('scalar', sg[1], callee == 'map_sample_to_cycle', MAY_NONE.get(callee, False))
        if name in ('numpy.hstack', 'numpy.concatenate', 'numpy.squeeze', 'numpy.array', 'numpy.atleast_1d',
                    'numpy.unique', 'numpy.sort') and t[2]:
            a = t[2][0]
            if a[0] == 'comp':
                et = typeof(a[2], fi, _bind_comp(st), src_level, notes)
                if et[0] in ('set', 'scalar'):
                    return ('set', et[1])
                return ('other',)
            return typeof(a, fi, st, src_level, notes)
        if name == 'numpy.arange' and t[2]:
            ts = [typeof(x, fi, st, src_level, notes) for x in t[2]]
            lv = {x[1] for x in ts if x[0] == 'scalar'}
            if len(lv) == 1:
                if 'augmented' not in fi.name:
                    # a range between two indices also contains the items in between, which need not map back
                    # (unlabelled gaps between cycles, unselected cycles): only the augmented maps promise a span
                    raise TypeErr('the result is the filled range %s: items between its end points that do not '
                                  'belong to the source item (unlabelled gaps) are included' % show(t)[:70])
                return ('set', lv.pop())
            return ('other',)
        if name in ('numpy.diff', 'builtins.len', 'numpy.all', 'numpy.any'):
            return ('other',)
        return ('other',)
    if k == 'bin' and t[1] in ('+', '-'):
        a = typeof(t[2], fi, st, src_level, notes)
        b = typeof(t[3], fi, st, src_level, notes)
        if a[0] == 'scalar' and b[0] == 'other':
            return ('scalar', a[1], False)
        return ('other',)
    if k == 'bv':
        return st.get('bv:' + t[1], ('other',)) if isinstance(st, dict) else ('other',)
    if k == 'comp':
        return ('other',)
    return ('other',)


def _bind_comp(st):
    return st


MAY_NONE = {}       # map name -> some return path returns None (filled by run() from the evaluated paths)


def _guarded_none(term, st):
    """the path proves term is not None"""
    conds = st.conds if hasattr(st, 'conds') else []
    for c, truth, ln in conds:
        if c[0] == 'cmp' and c[2] == term and c[3] == NONE and ((c[1] == 'is' and not truth) or (c[1] == 'isnot' and truth)):
            return True
    return False


def _guarded(term, st):
    """the path proves term > -1"""
    conds = st.conds if hasattr(st, 'conds') else []
    for c, truth, ln in conds:
        if c[0] != 'cmp':
            continue
        if c[2] == term:
            if (c[1] == '>' and c[3] == C(-1) and truth) or (c[1] == '>=' and c[3] == C(0) and truth) \
                    or (c[1] == '<' and c[3] == C(0) and not truth) or (c[1] == '<=' and c[3] == C(-1) and not truth) \
                    or (c[1] == '==' and c[3] == C(-1) and not truth) or (c[1] == '!=' and c[3] == C(-1) and truth):
                return True
    return False


def check_map(ctx, fi):
    P = ctx.P
    name = fi.name
    a, b, kind = sig_of(name)
    ev = Evaluator(P, inline=lambda q, d: q == MOD + '.augment_slice')
    exits = ev.run(fi)
    ctx.paths += len(exits)
    c1 = 'returns %s on the %s level for a %s index' % ('an index set' if kind == 'set' else 'an index or None', b, a)
    c2 = 'sentinel -1 is never used as an index / passed on unguarded'
    err1 = err2 = None
    nret = 0
    dead = None
    for e in exits:
        if e.kind != 'return':
            continue
        nret += 1
        try:
            # comprehension variables: type from their generators
            t = e.value
            ty = _type_with_comps(t, fi, e.state, a)
            if ty[0] == 'none':
                if kind == 'set' and 'augmented' not in name:
                    err1 = 'returns None although the name promises an index set'
                continue
            if ty[0] == 'where':
                ty = ('set', ty[1])
            if ty[0] in ('set', 'scalar'):
                if ty[1] != b:
                    err1 = 'returns a %s index (%s), the name promises the %s level' % (ty[1], show(t)[:40], b)
                if kind == 'set' and ty[0] != 'set':
                    err1 = 'returns a single index where a set of %s indices is promised' % b
                if kind == 'scalar' and ty[0] == 'scalar' and ty[2] and name != 'map_sample_to_cycle' \
                        and not _guarded(t, e.state):
                    err2 = 'can return the raw -1 marker (%s) where "none" must be None' % show(t)[:40]
            else:
                err1 = 'cannot type the returned value %s' % show(t)[:60]
        except TypeErr as x:
            err1 = str(x)
        except Sentinel as x:
            err2 = str(x)
        # dead None-guards: `x is None` on a value that can never be None
        for cnd, truth, ln in e.state.conds:
            if cnd[0] == 'cmp' and cnd[1] == 'is' and cnd[3] == NONE and cnd[2][0] == 'call' \
                    and cnd[2][1].startswith(MOD + '.map_'):
                callee = cnd[2][1].split('.')[-1]
                if callee == 'map_sample_to_cycle':
                    dead = (callee, ln)
    # "defined for every existing item": a map may only raise under a condition that cannot hold (the historical
    # contiguity guards `np.all(...) is False` compare a numpy boolean by identity and are never true)
    c3 = 'the map does not raise for an existing item'
    live = None
    nraise = 0
    for e in exits:
        if e.kind != 'raise':
            continue
        nraise += 1
        dead = any(truth and cnd[0] == 'cmp' and cnd[1] == 'is' and cnd[3] in (C(False), C(True)) and cnd[2][0] == 'call'
                   and cnd[2][1] in ('numpy.all', 'numpy.any') for cnd, truth, ln in e.state.conds)
        if not dead:
            live = e
    if live is not None:
        ctx.violation('C16.R1', fi, c3, 'a path raises %s under %s: the map is undefined for items it should cover'
                      % (show(live.value)[:40], '; '.join(('' if t_ else 'not ') + show(c_)[:60]
                                                         for c_, t_, l_ in live.state.conds[-3:]) or 'no condition'),
                      node=live.node)
    elif nraise:
        ctx.passed('C16.R1', fi, c3, '%d raising path(s), all behind a condition that is never true' % nraise)
    if nret == 0:
        ctx.undecided('C16.R1', fi, c1, 'no return path')
        return
    if err1:
        ctx.violation('C16.R1', fi, c1, err1)
    else:
        ctx.passed('C16.R1', fi, c1, '%d return paths typed' % nret)
    if err2:
        ctx.violation('C16.R2', fi, c2, err2 + (' (the `is None` test on %s is a dead guard: it returns the raw vector '
                                                'entry, never None)' % dead[0] if dead else ''))
    else:
        ctx.passed('C16.R2', fi, c2)


def _type_with_comps(t, fi, st, level):
    """typeof with comprehension variables bound from their iterables"""
    class W:
        pass
    w = W()
    w.conds = st.conds
    binds = {}

    def ty(x):
        if x[0] == 'bv':
            return binds.get(x[1], ('other',))
        if x[0] == 'call' and x[2] and x[2][0][0] == 'comp' and x[1] in (
                'numpy.hstack', 'numpy.concatenate', 'numpy.squeeze', 'numpy.array', 'numpy.atleast_1d'):
            comp = x[2][0]
            for var, it, conds in comp[3]:
                itt = ty(it)
                if var[0] == 'bv':
                    if itt[0] in ('set', 'where'):
                        binds[var[1]] = ('scalar', itt[1], False)
                    else:
                        binds[var[1]] = ('other',)
            et = ty(comp[2])
            if et[0] == 'where':
                et = ('set', et[1])
            if et[0] in ('set', 'scalar'):
                return ('set', et[1])
            return ('other',)
        if x[0] == 'call' and x[2] and x[2][0][0] == 's' and '@F' in x[2][0][1] and x[1] in (
                'numpy.hstack', 'numpy.concatenate', 'numpy.array', 'numpy.atleast_1d'):
            # the loop form of the same thing:  parts = []; for j in <set>: parts.append(<map>(j)); hstack(parts)
            name, tag = x[2][0][1].split('@')
            for ls in getattr(st, 'loops', []):
                if ls.kind != 'for' or 'F%d' % ls.node.lineno != tag.replace('post', ''):
                    continue
                itt = ty(ls.iter_term)
                var = ls.var
                if not (var[0] == 's' and itt[0] in ('set', 'where')):
                    continue
                lv = None
                for kind, b in ls.body_states:
                    v = b.env.get(name)
                    if v is None or v[0] != 'mut' or v[1] not in ('append', 'extend') or len(v[3]) != 1:
                        return ('other',)
                    elt = substitute(v[3][0], {var: ('s', '__bv_%s_%s' % (itt[1], 'loopvar'))})
                    et = typeof(elt, fi, w, level, None)
                    if et[0] == 'where':
                        et = ('set', et[1])
                    if et[0] not in ('set', 'scalar') or (lv is not None and lv != et[1]):
                        return ('other',)
                    lv = et[1]
                if lv is not None:
                    return ('set', lv)
            return ('other',)
        return typeof_b(x)

    def typeof_b(x):
        # typeof with bv lookup
        return typeof(_subst_bv(x, binds), fi, w, level, None)
    return ty(t)


def _subst_bv(x, binds):
    """replace bound comprehension variables by typed placeholder symbols"""
    if not isinstance(x, tuple) or not x:
        return x
    if x[0] == 'bv' and x[1] in binds:
        b = binds[x[1]]
        if b[0] == 'scalar':
            return ('s', '__bv_%s_%s' % (b[1], x[1]))
    if isinstance(x[0], str):
        return tuple(_subst_bv(y, binds) if isinstance(y, tuple) else y for y in x)
    return tuple(_subst_bv(y, binds) for y in x)


_orig_typeof = typeof


def typeof(t, fi, st, src_level, notes):   # noqa: F811  (wrapper adding placeholder symbols)
    if t[0] == 's' and t[1].startswith('__bv_'):
        lvl = t[1].split('_')[3]
        return ('scalar', lvl, False)
    return _orig_typeof(t, fi, st, src_level, notes)


# ----------------------------------------------------------------------------------------------
def rule_squeeze(ctx, rid):
    """np.squeeze([... per element ...]) has rank 0 when there is one element; len()/iteration then fail."""
    P = ctx.P
    m = P.module(MOD)
    n = 0
    for name, fi in sorted(m.functions.items()):
        for node in walk_local(fi.node):
            if isinstance(node, ast.Call) and P.resolve(m, node.func, fi) == 'numpy.squeeze' and node.args \
                    and isinstance(node.args[0], (ast.ListComp, ast.List)):
                n += 1
                # is the result used with len() / iteration / indexing?
                tgt = None
                for st in walk_local(fi.node):
                    if isinstance(st, ast.Assign) and st.value is node and isinstance(st.targets[0], ast.Name):
                        tgt = st.targets[0].id
                used = []
                if tgt:
                    for u in walk_local(fi.node):
                        if isinstance(u, ast.Call) and isinstance(u.func, ast.Name) and u.func.id == 'len' \
                                and u.args and isinstance(u.args[0], ast.Name) and u.args[0].id == tgt:
                            used.append(u)
                c = 'np.squeeze of a per-element list is not followed by len()/iteration'
                if used:
                    ctx.violation(rid, fi, c, 'a chain/subset with a single element makes np.squeeze return a 0-d array; '
                                  '`len(%s)` then raises TypeError' % tgt, node=used[0],
                                  expected='np.hstack / np.atleast_1d', found=unparse(node)[:60])
                else:
                    ctx.passed(rid, fi, c, node=node)
    if n == 0:
        fi = m.functions.get('map_chain_to_cycle')
        if fi is not None:
            ctx.passed(rid, fi, 'np.squeeze of a per-element list is not followed by len()/iteration', 'no squeeze used')


# ----------------------------------------------------------------------------------------------
PROJ = {
    'project_cycles_to_samples': ('cycle_vect', 'map_cycle_to_samples', ('cycle_vect',)),
    'project_subset_to_cycles': ('subset_vect', 'map_subset_to_cycle', ('subset_vect',)),
    'project_chain_to_subset': ('chain_vect', 'map_chain_to_subset', ('chain_vect',)),
    'project_subset_to_samples': ('cycle_vect', 'map_cycle_to_samples', ('cycle_vect',)),
}
COMPOSED = {
    'project_chain_to_cycles': [('project_chain_to_subset', 'chain_vect'), ('project_subset_to_cycles', 'subset_vect')],
    'project_chain_to_samples': [('project_chain_to_cycles', None), ('project_cycles_to_samples', 'cycle_vect')],
}


BASE_STAGE = {'project_cycles_to_samples': 'cycle_vect', 'project_subset_to_cycles': 'subset_vect',
              'project_chain_to_subset': 'chain_vect'}
EXPECT_CHAIN = {'project_subset_to_samples': ['project_subset_to_cycles', 'project_cycles_to_samples'],
                'project_chain_to_cycles': ['project_chain_to_subset', 'project_subset_to_cycles'],
                'project_chain_to_samples': ['project_chain_to_subset', 'project_subset_to_cycles',
                                             'project_cycles_to_samples']}


def _stage_chain(P, t, depth=0):
    """A projection written as a composition of the others: the base stages applied to `vals`, innermost first, each
    with the label vector it uses - composed projections are expanded through their own (single) return term.
    -> (stages [(name, vector term)], innermost values term) or None"""
    from ..paths import substitute
    if not (t[0] == 'call' and t[1].startswith(MOD + '.project_')) or depth > 4:
        return [], t
    name = t[1].split('.')[-1]
    kw = dict(t[3])
    if name in BASE_STAGE:
        inner = _stage_chain(P, kw.get('vals', NONE), depth + 1)
        if inner is None:
            return None
        return inner[0] + [(name, kw.get(BASE_STAGE[name]))], inner[1]
    f = P.funcs.get(t[1])
    if f is None:
        return None
    rets = [e for e in Evaluator(P).run(f) if e.kind == 'return']
    if len(rets) != 1 or not (rets[0].value[0] == 'call' and rets[0].value[1].startswith(MOD + '.project_')):
        # a composed projection with its own loop (the pinned project_subset_to_samples): its documented chain
        if name in EXPECT_CHAIN:
            inner = _stage_chain(P, kw.get('vals', NONE), depth + 1)
            if inner is None:
                return None
            return inner[0] + [(s_, kw.get(BASE_STAGE[s_])) for s_ in EXPECT_CHAIN[name]], inner[1]
        return None
    body = substitute(rets[0].value, {S(k_): v_ for k_, v_ in kw.items()})
    return _stage_chain(P, body, depth + 1)


def _chain_ok(P, fi, name):
    """True / False / None: the (single) return term of fi is the documented composition of base projections"""
    rets = [e for e in Evaluator(P).run(fi) if e.kind == 'return']
    if len(rets) != 1:
        return None
    ch = _stage_chain(P, rets[0].value)
    if ch is None or not ch[0]:
        return None
    stages, inner = ch
    if inner != S('vals'):
        return False
    if [s_ for s_, v_ in stages] != EXPECT_CHAIN[name]:
        return False
    return all(v_ == S(BASE_STAGE[s_]) for s_, v_ in stages)


def rule_projections(ctx, rid):
    P = ctx.P
    m = P.module(MOD)
    for name, (like, mapname, vecs) in PROJ.items():
        fi = P.func(MOD + '.' + name)
        ev = Evaluator(P)
        exits = ev.run(fi)
        ctx.paths += len(exits)
        c1 = 'writes vals[i] through %s on the target level' % mapname
        c2 = 'starts from an all-NaN vector shaped like %s' % like
        bad = None
        n = 0
        init = None
        for e in exits:
            if e.kind != 'return':
                continue
            # the projected vector is the one returned (whatever its name)
            outname = 'out'
            rv = e.value
            if rv[0] == 's' and '@F' in rv[1]:
                outname = rv[1].split('@')[0]
            for ls in e.state.loops:
                if ls.kind != 'for':
                    continue
                if outname in ls.entry_env:
                    init = ls.entry_env[outname]
                for kind, b in ls.body_states:
                    for eff in b.effects:
                        if eff[0] != 'setitem' or eff[5] != outname:
                            continue
                        n += 1
                        idx, val = eff[2], eff[3]
                        ok_idx = idx[0] == 'call' and idx[1] == MOD + '.' + mapname and dict(idx[3]).get('ii') == ls.var \
                            and all(dict(idx[3]).get(v) == S(v) for v in vecs)
                        if not ok_idx:
                            bad = 'index set is %s' % show(idx)[:70]
                        src = val[1] if val[0] == 'sub' else None
                        if not (val[0] == 'sub' and val[2] == ls.var):
                            bad = 'value written is %s' % show(val)[:50]
                        it = ls.iter_term
                        if not (it[0] == 'call' and it[1] == 'builtins.range' and len(it[2]) == 1
                                and it[2][0] == ('call', 'builtins.len', (src,), ())):
                            bad = 'loop runs over %s, not over the values being projected' % show(it)[:50]
                        if name == 'project_subset_to_samples':
                            want = ('call', MOD + '.project_subset_to_cycles', (),
                                    (('subset_vect', S('subset_vect')), ('vals', S('vals'))))
                            if src != want:
                                bad = 'per-cycle values come from %s' % show(src)[:60]
                        elif src != S('vals'):
                            bad = 'values come from %s' % show(src)[:40]
        composed = _chain_ok(P, fi, name) if (n == 0 and not bad and name in EXPECT_CHAIN) else None
        if composed is True:
            # written as the composition of the two single-level projections: the loop, the lookup and the NaN start
            # are those of the stages (checked on them)
            ctx.passed(rid, fi, c1, 'composition ' + ' then '.join(EXPECT_CHAIN[name]))
            ctx.passed(rid, fi, c2, 'through the last stage')
            continue
        if bad:
            ctx.violation(rid, fi, c1, bad)
        elif n == 0:
            # the loop is there but nothing is written into the result: every item stays missing
            loops_found = any(ls.kind == 'for' for e in exits for ls in e.state.loops)
            rets = [e for e in exits if e.kind == 'return']
            plain = rets and all(e.value[0] in ('bin', 'meth', 'call') for e in rets)
            if loops_found or plain:
                ctx.violation(rid, fi, c1, 'no value is written into the projected vector: every target item stays '
                              'missing' if loops_found else 'the projection loop is gone: %s' % show(rets[0].value)[:60])
            else:
                ctx.undecided(rid, fi, c1, 'no store found')
        else:
            ctx.passed(rid, fi, c1, '%d store states' % n)
        txt = show(init) if init is not None else ''
        from .common import nan_vector
        nv = nan_vector(init, S(like)) if init is not None else None
        if nv is True:
            ctx.passed(rid, fi, c2, txt[:70])
        elif nv is False or init is None:
            ctx.violation(rid, fi, c2, 'initial value is %s' % (txt[:70] or 'not found'))
        else:
            ctx.undecided(rid, fi, c2, 'initial value is %s' % txt[:70])
    for name, chain in COMPOSED.items():
        fi = P.func(MOD + '.' + name)
        exits = [e for e in Evaluator(P).run(fi) if e.kind == 'return']
        c = 'is the composition %s' % ' then '.join(x for x, _ in chain)
        ok = len(exits) == 1
        if ok and _chain_ok(P, fi, name) is True:
            ctx.passed(rid, fi, c)
            continue
        if ok:
            t = exits[0].value
            # outermost call is the last stage
            for stage, vec in reversed(chain):
                if not (t[0] == 'call' and t[1] == MOD + '.' + stage):
                    ok = False
                    break
                kw = dict(t[3])
                if vec is not None and kw.get(vec) != S(vec):
                    ok = False
                    break
                for v in VECS:
                    if v in kw and kw[v] != S(v):
                        ok = False
                t = kw.get('vals')
                if t is None:
                    ok = False
                    break
            if ok and t != S('vals'):
                ok = False
        if ok:
            ctx.passed(rid, fi, c)
        else:
            ctx.violation(rid, fi, c, 'returned term: %s' % (show(exits[0].value)[:100] if exits else 'none'))


def rule_dead_contiguity_guards(ctx):
    P = ctx.P
    m = P.module(MOD)
    for name, fi in sorted(m.functions.items()):
        for node in walk_local(fi.node):
            if isinstance(node, ast.Compare) and len(node.ops) == 1 and isinstance(node.ops[0], ast.Is) \
                    and isinstance(node.comparators[0], ast.Constant) and node.comparators[0].value is False \
                    and isinstance(node.left, ast.Call) and unparse(node.left.func) in ('np.all', 'np.any'):
                ctx.note('C16.R1', fi, 'contiguity guard `%s`' % unparse(node)[:50],
                         'np.all(...) returns np.bool_, which is never the object False: the guard is dead code',
                         node=node)
