"""Pool dispatch sites and worker effect summaries (shared by C07 and C08)."""
import ast

from ..model import walk_local, unparse

ORDERED = {'starmap', 'map'}
UNORDERED = {'imap_unordered', 'apply_async', 'map_async', 'starmap_async', 'imap', 'apply'}
SAMPLER_EXCLUDE = {'numpy.random.seed', 'numpy.random.RandomState', 'numpy.random.default_rng',
                   'numpy.random.get_state', 'numpy.random.set_state', 'numpy.random.Generator',
                   'numpy.random.SeedSequence'}


def dispatch_sites(P, fi):
    """[(call node, method name, worker Callee)] for pool dispatches in fi."""
    out = []
    for c in P.calls_in(fi):
        if isinstance(c.func, ast.Attribute) and c.func.attr in (ORDERED | UNORDERED) and c.args:
            ca = P.resolve_callee(fi.module, fi, c.args[0])
            if ca.kind == 'repo' and ca.func is not None:
                out.append((c, c.func.attr, ca))
    out.sort(key=lambda x: (x[0].lineno, x[0].col_offset))
    return out


def direct_draws(P, fi):
    """Sampler calls from the process-global numpy RNG made directly in fi."""
    out = []
    for c in P.calls_in(fi):
        d = P.resolve(fi.module, c.func, fi)
        if d and d.startswith('numpy.random.') and d not in SAMPLER_EXCLUDE:
            out.append((c, d))
    return out


def may_draw(P, q, _memo=None, _stack=None):
    """Path-insensitive: does function q (or anything it can call) draw from the global RNG?
    Returns a call path ending in the sampler, or None."""
    _memo = {} if _memo is None else _memo
    _stack = set() if _stack is None else _stack
    if q in _memo:
        return _memo[q]
    if q in _stack:
        return None
    _stack.add(q)
    fi = P.funcs[q]
    res = None
    dd = direct_draws(P, fi)
    if dd:
        res = [q, '%s:%d %s' % (fi.module.relpath, dd[0][0].lineno, dd[0][1])]
    else:
        for nx in sorted(P.callgraph().get(q, ())):
            r = may_draw(P, nx, _memo, _stack)
            if r is not None:
                res = [q] + r
                break
    _stack.discard(q)
    _memo[q] = res
    return res


def module_state_writes(P, fi):
    """global statements / stores to module attributes in fi."""
    out = []
    for n in walk_local(fi.node):
        if isinstance(n, (ast.Global, ast.Nonlocal)):
            out.append((n, 'global ' + ', '.join(n.names)))
    return out
