"""Rules on the sift core shared by C01, C03 and C04."""
import ast

from ..model import AnalysisError, unparse, walk_local
from ..paths import Evaluator, is_c, show, C, S, NONE, subterms, contains
from ..poly import Algebra, Poly
from .common import (calls_to, guards_of, loop_containing_call, mk_algebra, trace_tail, EXTRACTORS,
                     count_set, const_value)

STOP_METHODS = ('sd', 'rilling', 'fixed')
_cache = {}


def extraction_exits(ctx, fi, context):
    key = (id(ctx.P), fi.qualname, tuple(sorted(context.items())))
    if key not in _cache:
        ev = Evaluator(ctx.P)
        exits = ev.run(fi, context=context)
        _cache[key] = (exits, ev.npaths + len(exits))
    exits, n = _cache[key]
    ctx.paths += len(exits)
    ctx.contexts.append({'function': fi.qualname, 'context': {k: repr(v) for k, v in context.items()},
                         'exits': len(exits)})
    return exits


def _split_result(e):
    """(component term, flag term) of an extraction exit, or None."""
    v = e.value
    if v[0] == 'tuple' and len(v[1]) == 2:
        return v[1][0], v[1][1]
    return None


# ----------------------------------------------------------------------------------------------
# C01.R2 = C04.R5 : cleared flag  =>  output == input

def rule_cleared_flag(ctx, rid, fi):
    """On every path of the single-IMF extraction with no energy threshold whose
    returned flag is False, the returned component is algebraically the input."""
    x0 = fi.params[0]
    for sm in STOP_METHODS:
        context = {'stop_method': sm, 'energy_thresh': None}
        exits = extraction_exits(ctx, fi, context)
        alg = mk_algebra()
        xin = alg.poly(S(x0))
        bad = []
        nfalse = 0
        nret = 0
        for e in exits:
            if e.kind != 'return':
                continue
            nret += 1
            sp = _split_result(e)
            if sp is None:
                ctx.undecided(rid, fi, 'stop_method=%s: result shape' % sm,
                              'return value is not a (component, flag) pair: %s' % show(e.value)[:120],
                              node=e.node)
                continue
            comp, flag = sp
            fv = None
            if is_c(flag) and isinstance(flag[1], bool):
                fv = flag[1]
            if fv is None:
                ctx.undecided(rid, fi, 'stop_method=%s: flag value' % sm,
                              'flag is not a decided boolean on this path: %s' % show(flag)[:100], node=e.node,
                              path=trace_tail(e.state))
                continue
            if fv is False:
                nfalse += 1
                p = alg.poly(comp)
                if p != xin:
                    bad.append((e, p))
        if nret == 0:
            ctx.undecided(rid, fi, 'stop_method=%s: no normal exit' % sm, 'extraction has no return path')
            continue
        construct = 'stop_method=%s: flag cleared => component is the unmodified input' % sm
        if bad:
            e, p = bad[0]
            ctx.violation(rid, fi, construct,
                          'a path returns flag=False with a component that is not the input '
                          '(final-residual flag raised on a modified iterate)',
                          node=e.node, expected='component == 1*%s' % x0, found='component == %s' % str(p)[:200],
                          path=trace_tail(e.state, 18))
        elif nfalse == 0:
            ctx.violation(rid, fi, construct,
                          'no path clears the flag: an input without extrema is never reported as final residual',
                          expected='at least one exit (input, False)', found='0 of %d exits' % nret)
        else:
            ctx.passed(rid, fi, construct, '%d flag-False exits of %d returns, all == input' % (nfalse, nret))


# ----------------------------------------------------------------------------------------------
# C01.R1 = C03.R1 : residual invariant of the layer loop

def _return_accumulator(fi):
    """Name of the variable returned by the variant (first element of a tuple)."""
    names = []
    for n in walk_local(fi.node):
        if isinstance(n, ast.Return) and n.value is not None:
            v = n.value
            if isinstance(v, ast.Tuple) and v.elts:
                v = v.elts[0]
            if isinstance(v, ast.Name):
                names.append(v.id)
    names = set(names)
    return names.pop() if len(names) == 1 else None


def rule_residual_invariant(ctx, rid, fi, extractor_pred, context=None, arg_of=None):
    """Inductive invariant of the layer loop: the signal handed to the extraction
    is  X - sum(columns extracted so far)."""
    P = ctx.P
    loops = loop_containing_call(P, fi, extractor_pred)
    if len(loops) != 1:
        raise AnalysisError('%s: expected exactly one layer loop around the extraction call, found %d'
                            % (fi.qualname, len(loops)))
    loop, callnode, callee = loops[0]
    acc = _return_accumulator(fi)
    if acc is None:
        raise AnalysisError('%s: cannot identify the returned component accumulator' % fi.qualname)
    x0 = fi.params[0]
    records = []

    def hook(ca, bound, star, st, e):
        if e is callnode:
            records.append((bound, dict(st.env), list(st.trace)))
        return None
    ev = Evaluator(P, callee_hook=hook)
    exits = ev.run(fi, context=context or {})
    ctx.paths += len(exits)
    ctx.contexts.append({'function': fi.qualname, 'context': context or {}, 'exits': len(exits)})
    if not records:
        raise AnalysisError('%s: extraction call never reached' % fi.qualname)
    # which formal of the extractor receives the signal
    sig_formal = callee.func.params[0]
    resid_var = None
    if callnode.args and isinstance(callnode.args[0], ast.Name):
        resid_var = callnode.args[0].id
    else:
        for k in callnode.keywords:
            if k.arg == sig_formal and isinstance(k.value, ast.Name):
                resid_var = k.value.id
    tag = 'L%d' % loop.lineno
    head_resid = S('%s@%s' % (resid_var, tag)) if resid_var else None
    head_acc = S('%s@%s' % (acc, tag))

    def sumcols(t):
        return ('meth', 'sum', t, (), (('axis', C(1)),))

    def rewrite(t):
        # inductive hypothesis at the head of iterations >= 2
        if head_resid is not None and t == head_resid:
            return ('bin', '-', S(x0), sumcols(head_acc))
        return None
    alg = mk_algebra(rewrite=rewrite)
    X = alg.poly(S(x0))

    def acc_sum(env):
        t = env.get(acc)
        if t is None or t == ('list', ()) or t == ('tuple', ()):
            return Poly()
        return alg.poly(sumcols(t))
    # (a) establishment / direct form at each execution of the call
    n_direct = 0
    for bound, env, trace in records:
        a0 = bound.get(sig_formal)
        if a0 is None:
            ctx.violation(rid, fi, 'extraction call: signal argument', 'the extraction call does not pass a signal',
                          node=callnode)
            return
        if head_resid is not None and a0 == head_resid:
            continue            # covered by the inductive step
        n_direct += 1
        expected = X - acc_sum(env)
        got = alg.poly(a0)
        if got != expected:
            ctx.violation(rid, fi, 'extraction input == X - sum(components so far)',
                          'the signal handed to the extraction is not the input minus the components so far',
                          node=callnode, expected=str(expected)[:200], found=str(got)[:200], path=trace[-10:])
            return
    # (b) preservation at every back edge
    summ = None
    for e in exits:
        for ls in e.state.loops:
            if ls.node is loop:
                summ = ls
    if summ is None:
        # loop never left normally (e.g. returns inside): use any recorded loop summary
        raise AnalysisError('%s: layer loop has no normal exit' % fi.qualname)
    n_back = 0
    if resid_var is not None:
        for kind, b in summ.body_states:
            n_back += 1
            rv = b.env.get(resid_var)
            if rv is None:
                continue
            got = alg.poly(rv)
            expected = X - acc_sum(b.env)
            if got != expected:
                ctx.violation(rid, fi, 'extraction input == X - sum(components so far)',
                              'the running residual is not re-established as input minus the sum of the '
                              'components at the end of a layer',
                              node=loop, expected=str(expected)[:240], found=str(got)[:240],
                              path=trace_tail(b, 12))
                return
    ctx.passed(rid, fi, 'extraction input == X - sum(components so far)',
               'established on entry (%d direct call states), preserved on %d back-edge states'
               % (n_direct, n_back), node=loop)


# ----------------------------------------------------------------------------------------------
# C01.R3 licensed exits of the layer loop

def _flag_var(loop):
    t = loop.test
    if isinstance(t, ast.Name):
        return t.id
    return None


def _is_false(node):
    return isinstance(node, ast.Constant) and node.value is False


def rule_licensed_exits(ctx, rid, fi, extractor_pred, cap='max_imfs', thresh='sift_thresh',
                        extra_licensed=()):
    """Every way of leaving the layer loop is one of: the cap test, the sift
    threshold on the component just extracted, the flag returned by the extraction."""
    P = ctx.P
    loops = loop_containing_call(P, fi, extractor_pred)
    if len(loops) != 1:
        raise AnalysisError('%s: expected one layer loop, found %d' % (fi.qualname, len(loops)))
    loop, callnode, callee = loops[0]
    flag = _flag_var(loop)
    if flag is None:
        ctx.undecided(rid, fi, 'loop condition', 'layer loop is not controlled by a flag variable: %s'
                      % unparse(loop.test), node=loop)
        return
    # variable holding the component extracted in this iteration
    comp_var = None
    flag_from_callee = False
    for n in ast.walk(loop):
        if isinstance(n, ast.Assign) and n.value is callnode:
            t = n.targets[0]
            if isinstance(t, ast.Tuple) and len(t.elts) == 2 and all(isinstance(x, ast.Name) for x in t.elts):
                comp_var = t.elts[0].id
                if t.elts[1].id == flag:
                    flag_from_callee = True
    if comp_var is None:
        ctx.undecided(rid, fi, 'extraction result binding', 'cannot find `component, flag = extraction(...)`',
                      node=callnode)
        return
    found = {'cap': 0, 'threshold': 0, 'flag': 1 if flag_from_callee else 0}
    for n in ast.walk(loop):
        exit_stmt = None
        if isinstance(n, ast.Assign) and any(isinstance(t, ast.Name) and t.id == flag for t in n.targets):
            if n.value is callnode:
                continue
            if isinstance(n.value, ast.Constant) and n.value.value is True:
                continue
            exit_stmt = n
        elif isinstance(n, (ast.Break, ast.Return)) and _innermost_loop(fi, n) is loop:
            exit_stmt = n
        elif isinstance(n, ast.Assign) and n.value is not callnode and any(
                isinstance(t, ast.Tuple) and any(isinstance(x, ast.Name) and x.id == flag for x in t.elts)
                for t in n.targets):
            exit_stmt = n
        if exit_stmt is None:
            continue
        guards = guards_of(fi, exit_stmt, upto=loop)
        kind = _classify_exit(guards, cap, thresh, comp_var, fi)
        if kind in extra_licensed:
            continue
        if kind is None:
            ctx.violation(rid, fi, 'unlicensed loop exit: ' + _norm_guard(guards),
                          'the layer loop can stop for a reason other than cap / sift threshold / extraction flag',
                          node=exit_stmt, expected='guard in {cap reached, |component| sum < threshold}',
                          found=' and '.join(('' if pol else 'not ') + unparse(t) for t, pol in guards) or 'unconditional')
        else:
            found[kind] += 1
    for kind, what in (('cap', 'IMF cap'), ('threshold', 'sift threshold'), ('flag', 'extraction flag')):
        if found[kind] >= 1:
            ctx.passed(rid, fi, 'licensed exit: ' + what, '%d site(s)' % found[kind], node=loop)
        else:
            ctx.violation(rid, fi, 'licensed exit: ' + what,
                          'the layer loop no longer stops on the %s' % what, node=loop,
                          expected='an exit guarded by the %s' % what, found='none')


def _innermost_loop(fi, node):
    from .common import enclosing_chain
    inner = None
    for n, field in enclosing_chain(fi, node):
        if isinstance(n, (ast.While, ast.For)) and field == 'body':
            inner = n
    return inner


def _norm_guard(guards):
    return ' and '.join(('' if pol else 'not ') + unparse(t) for t, pol in guards)[:80] or 'unconditional'


def _conjuncts(guards):
    out = []
    for t, pol in guards:
        if pol and isinstance(t, ast.BoolOp) and isinstance(t.op, ast.And):
            out.extend((v, True) for v in t.values)
        else:
            out.append((t, pol))
    return out


def _mentions(node, name):
    return any(isinstance(n, ast.Name) and n.id == name for n in ast.walk(node))


def _classify_exit(guards, cap, thresh, comp_var, fi):
    cj = _conjuncts(guards)
    if not cj:
        return None
    # cap: {cap is not None, <counter expr> == / >= <cap expr>}
    cap_guard = False
    cap_cmp = False
    other = []
    for t, pol in cj:
        if pol and isinstance(t, ast.Compare) and len(t.ops) == 1 and isinstance(t.ops[0], ast.IsNot) \
                and isinstance(t.left, ast.Name) and t.left.id == cap and const_value(t.comparators[0], 0) is None:
            cap_guard = True
        elif pol and isinstance(t, ast.Compare) and len(t.ops) == 1 \
                and isinstance(t.ops[0], (ast.Eq, ast.GtE, ast.Gt)) \
                and (_mentions(t.comparators[0], cap) != _mentions(t.left, cap)):
            cap_cmp = True
        else:
            other.append((t, pol))
    if cap_cmp and not other:
        # `cap is not None` may be established earlier (e.g. cap replaced by a number before the loop)
        return 'cap'
    # threshold: reduce(|comp|) < thresh
    if len(cj) == 1:
        t, pol = cj[0]
        if pol and isinstance(t, ast.Compare) and len(t.ops) == 1:
            l, r, op = t.left, t.comparators[0], t.ops[0]
            if isinstance(op, (ast.Gt, ast.GtE)):
                l, r = r, l
                op = ast.Lt()
            if isinstance(op, (ast.Lt, ast.LtE)) and isinstance(r, ast.Name) and r.id == thresh \
                    and _is_abs_reduce(l, comp_var):
                return 'threshold'
    return None


def _is_abs_reduce(node, var):
    """np.abs(var).sum() | np.sum(np.abs(var)) | np.abs(var).mean() ..."""
    def is_abs(n):
        return isinstance(n, ast.Call) and ((isinstance(n.func, ast.Attribute) and n.func.attr in ('abs', 'absolute', 'fabs'))
                                            or (isinstance(n.func, ast.Name) and n.func.id == 'abs')) \
            and len(n.args) == 1 and isinstance(n.args[0], ast.Name) and n.args[0].id == var
    if isinstance(node, ast.Call) and isinstance(node.func, ast.Attribute) and node.func.attr in ('sum', 'mean') \
            and not node.args:
        if is_abs(node.func.value):
            return True
    if isinstance(node, ast.Call) and isinstance(node.func, ast.Attribute) and node.func.attr in ('sum', 'mean') \
            and len(node.args) == 1 and is_abs(node.args[0]):
        return True
    return False


# ----------------------------------------------------------------------------------------------
# C01.R4 None-chain: "no envelope" <= "no padded extrema" <= "fewer than two extrema"

def rule_none_chain(ctx, rid, gni):
    P = ctx.P
    x0 = gni.params[0]
    # (i) extraction: non-energy flag=False only under `<envelope of the iterate> is None`
    for sm in STOP_METHODS:
        exits = extraction_exits(ctx, gni, {'stop_method': sm, 'energy_thresh': None})
        alg = mk_algebra()
        ok = 0
        for e in exits:
            if e.kind != 'return':
                continue
            sp = _split_result(e)
            if sp is None or not (is_c(sp[1]) and sp[1][1] is False):
                continue
            comp = alg.poly(sp[0])
            reason = None
            for c, truth, ln in e.state.conds:
                if truth and c[0] == 'cmp' and c[1] == 'is' and is_c(c[3]) and c[3][1] is None \
                        and c[2][0] == 'call' and c[2][1] == 'emd.sift.interp_envelope':
                    kw = dict(c[2][3])
                    sig = kw.get('X')
                    mode = kw.get('mode')
                    if sig is not None and is_c(mode) and mode[1] in ('upper', 'lower'):
                        reason = (alg.poly(sig), mode[1])
            if reason is None:
                ctx.violation(rid, gni, 'stop_method=%s: flag cleared only when an envelope is missing' % sm,
                              'a path clears the continue flag without an envelope being None',
                              node=e.node, path=trace_tail(e.state, 14))
                break
            ok += 1
        else:
            ctx.passed(rid, gni, 'stop_method=%s: flag cleared only when an envelope is missing' % sm,
                       '%d flag-False exits, each under `interp_envelope(...) is None`' % ok)
    # (ii) interp_envelope returns None only under `locs is None`
    ie = P.func('emd.sift.interp_envelope')
    ev = Evaluator(P)
    exits = ev.run(ie)
    ctx.paths += len(exits)
    n_none = 0
    bad = None
    for e in exits:
        if e.kind == 'return' and is_c(e.value) and e.value[1] is None:
            n_none += 1
            why = False
            for c, truth, ln in e.state.conds:
                if truth and c[0] == 'cmp' and c[1] == 'is' and is_c(c[3]) and c[3][1] is None:
                    t = c[2]
                    if t[0] == 'sub' and t[1][0] == 'call' and t[1][1] == 'emd.sift.get_padded_extrema' \
                            and is_c(t[2]) and t[2][1] == 0:
                        why = True
            if not why:
                bad = e
    if bad is not None:
        ctx.violation(rid, ie, 'envelope is None only when the padded extrema are None',
                      'interp_envelope returns None on a path where get_padded_extrema produced locations',
                      node=bad.node, path=trace_tail(bad.state))
    elif n_none == 0:
        ctx.violation(rid, ie, 'envelope is None only when the padded extrema are None',
                      'interp_envelope never returns None: "too few extrema" can no longer be signalled',
                      expected='return None under `locs is None`', found='no None return')
    else:
        ctx.passed(rid, ie, 'envelope is None only when the padded extrema are None', '%d None exits' % n_none)
    # (iii) get_padded_extrema returns (None, None) exactly for count <= 1
    gpe = P.func('emd.sift.get_padded_extrema')
    ev = Evaluator(P)
    exits = ev.run(gpe, context={'mode': 'peaks'})
    ctx.paths += len(exits)
    none_sets = []
    nonnone_sets = []
    undec = None
    for e in exits:
        if e.kind != 'return':
            continue
        is_none = e.value == ('tuple', (NONE, NONE))
        cs = _count_constraints(e.state.conds)
        if cs is None:
            undec = e
            continue
        (none_sets if is_none else nonnone_sets).append(cs)
    if undec is not None and not none_sets:
        ctx.undecided(rid, gpe, 'no extrema returned <=> fewer than two found',
                      'cannot read the count constraint of a path', node=undec.node, path=trace_tail(undec.state))
    else:
        union = frozenset().union(*none_sets) if none_sets else frozenset()
        spec = count_set('<', 2)
        others = frozenset().union(*nonnone_sets) if nonnone_sets else frozenset()
        if union == spec and not (others & spec):
            ctx.passed(rid, gpe, 'no extrema returned <=> fewer than two found',
                       'None-return count set == {0,1}; %d None paths' % len(none_sets))
        else:
            ctx.violation(rid, gpe, 'no extrema returned <=> fewer than two found',
                          'the "(None, None)" result is not returned exactly when fewer than two extrema exist',
                          expected='counts {0, 1}', found='None for counts %s; values for counts min %s'
                          % (_fmt_set(union), min(others) if others else '-'))


def _fmt_set(s):
    s = sorted(s)
    if len(s) > 8:
        return '{%s, ..., %s}' % (', '.join(map(str, s[:4])), s[-1])
    return '{%s}' % ', '.join(map(str, s))


def _is_count_of_locs(t):
    """len(locs) | locs.size | locs.shape[0] where locs = _find_extrema(...)[0]"""
    def is_locs(x):
        return x[0] == 'sub' and is_c(x[2]) and x[2][1] == 0 and x[1][0] == 'call' \
            and x[1][1] == 'emd.sift._find_extrema'
    if t[0] == 'call' and t[1] == 'builtins.len' and len(t[2]) == 1 and is_locs(t[2][0]):
        return True
    if t[0] == 'attr' and t[2] == 'size' and is_locs(t[1]):
        return True
    if t[0] == 'sub' and t[1][0] == 'attr' and t[1][2] == 'shape' and is_locs(t[1][1]) and is_c(t[2]) \
            and t[2][1] == 0:
        return True
    return False


def _count_constraints(conds):
    """Set of extrema counts allowed by the count-comparisons on a path (only
    comparisons of the count with an integer literal are read)."""
    allowed = count_set('>=', 0)
    for c, truth, ln in conds:
        if c[0] != 'cmp':
            continue
        op, a, b = c[1], c[2], c[3]
        if _is_count_of_locs(b) and is_c(a):
            a, b = b, a
            op = {'<': '>', '>': '<', '<=': '>=', '>=': '<=', '==': '==', '!=': '!='}.get(op)
        if not _is_count_of_locs(a):
            continue
        if not (is_c(b) and isinstance(b[1], int)) or op not in ('==', '!=', '<', '<=', '>', '>='):
            continue      # comparison with pad_width etc.: not a count constraint vs literal
        s = count_set(op, b[1])
        if not truth:
            s = count_set('>=', 0) - s
        allowed = allowed & s
    return allowed
