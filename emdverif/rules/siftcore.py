"""Rules on the sift core shared by C01, C03 and C04."""
import ast

from ..model import AnalysisError, unparse, walk_local
from ..paths import Evaluator, is_c, show, C, S, NONE, subterms, contains
from ..poly import Algebra, Poly
from .common import (cmp_views, calls_to, guards_of, loop_containing_call, mk_algebra, trace_tail, EXTRACTORS,
                     count_set, const_value)

STOP_METHODS = ('sd', 'rilling', 'fixed')
_cache = {}


def extraction_exits(ctx, fi, context):
    _cache = ctx.P.__dict__.setdefault('_extraction_cache', {})     # per program: ids of dead programs are reused
    key = (fi.qualname, tuple(sorted(context.items())))
    if key not in _cache:
        ev = Evaluator(ctx.P)
        exits = ev.run(fi, context=context)
        _cache[key] = (exits, ev.npaths + len(exits))
    exits, n = _cache[key]
    ctx.paths += len(exits)
    ctx.contexts.append({'function': fi.qualname, 'context': {k: repr(v) for k, v in context.items()},
                         'exits': len(exits)})
    return exits


def _split_result(e):
    """(component term, flag term) of an extraction exit, or None."""
    v = e.value
    if v[0] == 'tuple' and len(v[1]) == 2:
        return v[1][0], v[1][1]
    return None


# ----------------------------------------------------------------------------------------------
# C01.R2 = C04.R5 : cleared flag  =>  output == input

def rule_cleared_flag(ctx, rid, fi):
    """On every path of the single-IMF extraction with no energy threshold whose
    returned flag is False, the returned component is algebraically the input."""
    x0 = fi.params[0]
    for sm in STOP_METHODS:
        context = {'stop_method': sm, 'energy_thresh': None}
        exits = extraction_exits(ctx, fi, context)
        alg = mk_algebra()
        xin = alg.poly(S(x0))
        bad = []
        nfalse = 0
        nret = 0
        for e in exits:
            if e.kind != 'return':
                continue
            nret += 1
            sp = _split_result(e)
            if sp is None:
                ctx.undecided(rid, fi, 'stop_method=%s: result shape' % sm,
                              'return value is not a (component, flag) pair: %s' % show(e.value)[:120],
                              node=e.node)
                continue
            comp, flag = sp
            fv = None
            if is_c(flag) and isinstance(flag[1], bool):
                fv = flag[1]
            if fv is None:
                ctx.undecided(rid, fi, 'stop_method=%s: flag value' % sm,
                              'flag is not a decided boolean on this path: %s' % show(flag)[:100], node=e.node,
                              path=trace_tail(e.state))
                continue
            if fv is False:
                nfalse += 1
                p = alg.poly(comp)
                if p != xin:
                    bad.append((e, p))
        if nret == 0:
            ctx.undecided(rid, fi, 'stop_method=%s: no normal exit' % sm, 'extraction has no return path')
            continue
        construct = 'stop_method=%s: flag cleared => component is the unmodified input' % sm
        if bad:
            e, p = bad[0]
            ctx.violation(rid, fi, construct,
                          'a path returns flag=False with a component that is not the input '
                          '(final-residual flag raised on a modified iterate)',
                          node=e.node, expected='component == 1*%s' % x0, found='component == %s' % str(p)[:200],
                          path=trace_tail(e.state, 18))
        elif nfalse == 0:
            ctx.violation(rid, fi, construct,
                          'no path clears the flag: an input without extrema is never reported as final residual',
                          expected='at least one exit (input, False)', found='0 of %d exits' % nret)
        else:
            ctx.passed(rid, fi, construct, '%d flag-False exits of %d returns, all == input' % (nfalse, nret))


# ----------------------------------------------------------------------------------------------
# C01.R1 = C03.R1 : residual invariant of the layer loop

def _return_accumulator(fi):
    """Name of the variable returned by the variant (first element of a tuple)."""
    names = []
    # names bound exactly once to a tuple / conditional expression / other name (`ret = (imf, freqs); return ret`)
    once = {}
    for n in walk_local(fi.node):
        if isinstance(n, ast.Assign) and len(n.targets) == 1 and isinstance(n.targets[0], ast.Name):
            once.setdefault(n.targets[0].id, []).append(n.value)
        elif isinstance(n, (ast.AugAssign, ast.For)):
            for m in ast.walk(n.target):
                if isinstance(m, ast.Name):
                    once.setdefault(m.id, []).extend([None, None])

    def follow(v, depth=0):
        if isinstance(v, ast.IfExp):
            return follow(v.body, depth) + follow(v.orelse, depth)
        if isinstance(v, ast.Tuple) and v.elts:
            return follow(v.elts[0], depth)
        if isinstance(v, ast.Name):
            vals = once.get(v.id, [])
            if len(vals) == 1 and isinstance(vals[0], (ast.Tuple, ast.Name)) and depth < 3:
                return follow(vals[0], depth + 1)
            return [v.id]
        return []
    for n in walk_local(fi.node):
        if isinstance(n, ast.Return) and n.value is not None:
            names.extend(follow(n.value))
    names = set(names)
    return names.pop() if len(names) == 1 else None


def rule_residual_invariant(ctx, rid, fi, extractor_pred, context=None, arg_of=None):
    """Inductive invariant of the layer loop: the signal handed to the extraction
    is  X - sum(columns extracted so far)."""
    P = ctx.P
    loops = loop_containing_call(P, fi, extractor_pred)
    if len(loops) != 1:
        raise AnalysisError('%s: expected exactly one layer loop around the extraction call, found %d'
                            % (fi.qualname, len(loops)))
    loop, callnode, callee = loops[0]
    acc = _return_accumulator(fi)
    if acc is None:
        raise AnalysisError('%s: cannot identify the returned component accumulator' % fi.qualname)
    x0 = fi.params[0]
    records = []

    def hook(ca, bound, star, st, e):
        if e is callnode:
            records.append((bound, dict(st.env), list(st.trace)))
        return None
    ev = Evaluator(P, callee_hook=hook)
    exits = ev.run(fi, context=context or {})
    ctx.paths += len(exits)
    ctx.contexts.append({'function': fi.qualname, 'context': context or {}, 'exits': len(exits)})
    if not records:
        raise AnalysisError('%s: extraction call never reached' % fi.qualname)
    # which formal of the extractor receives the signal
    sig_formal = callee.func.params[0]
    resid_var = None
    if callnode.args and isinstance(callnode.args[0], ast.Name):
        resid_var = callnode.args[0].id
    else:
        for k in callnode.keywords:
            if k.arg == sig_formal and isinstance(k.value, ast.Name):
                resid_var = k.value.id
    tag = 'L%d' % loop.lineno
    head_resid = S('%s@%s' % (resid_var, tag)) if resid_var else None
    head_acc = S('%s@%s' % (acc, tag))

    def sumcols(t):
        return ('meth', 'sum', t, (), (('axis', C(1)),))

    def rewrite(t):
        # inductive hypothesis at the head of iterations >= 2
        if head_resid is not None and t == head_resid:
            return ('bin', '-', S(x0), sumcols(head_acc))
        return None
    alg = mk_algebra(rewrite=rewrite)
    X = alg.poly(S(x0))

    def acc_sum(env):
        t = env.get(acc)
        if t is None or t == ('list', ()) or t == ('tuple', ()) or t == NONE:
            return Poly()
        return alg.poly(sumcols(t))
    # (a) establishment / direct form at each execution of the call
    n_direct = 0
    for bound, env, trace in records:
        a0 = bound.get(sig_formal)
        if a0 is None:
            ctx.violation(rid, fi, 'extraction call: signal argument', 'the extraction call does not pass a signal',
                          node=callnode)
            return
        if head_resid is not None and a0 == head_resid:
            continue            # covered by the inductive step
        n_direct += 1
        expected = X - acc_sum(env)
        got = alg.poly(a0)
        if got != expected:
            ctx.violation(rid, fi, 'extraction input == X - sum(components so far)',
                          'the signal handed to the extraction is not the input minus the components so far',
                          node=callnode, expected=str(expected)[:200], found=str(got)[:200], path=trace[-10:])
            return
    # (b) preservation at every back edge
    summ = None
    for e in exits:
        for ls in e.state.loops:
            if ls.node is loop:
                summ = ls
    if summ is None and ev.loops_seen.get(loop):
        summ = ev.loops_seen[loop][-1]        # the loop is only left by return / raise inside its body
    if summ is None:
        raise AnalysisError('%s: layer loop was never evaluated' % fi.qualname)
    n_back = 0
    if resid_var is not None:
        for kind, b in summ.body_states:
            if kind not in ('back', 'back2'):
                continue
            n_back += 1
            rv = b.env.get(resid_var)
            if rv is None:
                continue
            got = alg.poly(rv)
            expected = X - acc_sum(b.env)
            if got != expected:
                ctx.violation(rid, fi, 'extraction input == X - sum(components so far)',
                              'the running residual is not re-established as input minus the sum of the '
                              'components at the end of a layer',
                              node=loop, expected=str(expected)[:240], found=str(got)[:240],
                              path=trace_tail(b, 12))
                return
    ctx.passed(rid, fi, 'extraction input == X - sum(components so far)',
               'established on entry (%d direct call states), preserved on %d back-edge states'
               % (n_direct, n_back), node=loop)


# ----------------------------------------------------------------------------------------------
# C01.R3 licensed exits of the layer loop

def _flag_var(loop):
    t = loop.test
    if isinstance(t, ast.Name):
        return t.id
    return None


def _is_false(node):
    return isinstance(node, ast.Constant) and node.value is False


def _has_call(t, dotted):
    # a direct call, or the function handed to a pool map / partial
    return any((x[0] == 'call' and x[1] in dotted) or (x[0] in ('ref', 'func') and x[1] in dotted) for x in subterms(t))


def find_loop(ev, dotted, kind='while'):
    """The innermost evaluated loop in whose iterations a call to one of `dotted` is made: decided on the
    evaluated iteration ends (new terms in the environment or in the conditions), so the call may sit in a helper."""
    cands = []
    for node, summs in ev.loops_seen.items():
        hit = False
        for sm in summs:
            old = set(sm.entry_env.values())
            for passno, how, e in sm.ends:
                for c, truth, ln in e.conds[sm.n_entry_conds:]:
                    if _has_call(c, dotted):
                        hit = True
                for v in e.env.values():
                    if isinstance(v, tuple) and v not in old and _has_call(v, dotted):
                        hit = True
        if hit:
            cands.append(node)
    inner = [n for n in cands if not any(m is not n and any(x is m for x in ast.walk(n)) for m in cands)]
    return inner


def _eff(op, truth):
    neg = {'==': '!=', '!=': '==', '<': '>=', '>=': '<', '>': '<=', '<=': '>', 'is': 'isnot', 'isnot': 'is'}
    return op if truth else neg.get(op)


def _flip(op):
    return {'<': '>', '>': '<', '<=': '>=', '>=': '<=', '==': '==', '!=': '!='}.get(op)


def _is_abs_reduce_term(t, is_comp, reducers=('sum', 'mean')):
    """sum/mean over |component|."""
    def is_abs(x):
        return x[0] == 'call' and x[1] in ('numpy.abs', 'numpy.absolute', 'numpy.fabs', 'builtins.abs') \
            and len(x[2]) == 1 and is_comp(x[2][0])
    if t[0] == 'meth' and t[1] in reducers and not t[3] and is_abs(t[2]):
        return True
    if t[0] == 'call' and t[1].split('.')[-1] in reducers and t[1] in ('numpy.sum', 'numpy.mean', 'builtins.sum') and len(t[2]) == 1 \
            and is_abs(t[2][0]):
        return True
    if 'sum' in reducers and t[0] == 'call' and t[1] == 'numpy.linalg.norm' and len(t[2]) >= 1 and is_comp(t[2][0]) \
            and (t[2][1:] == (C(1),) or dict(t[3]).get('ord') == C(1)):
        return True
    return False


def _layer_evidence(e, n0, cap, thresh, extractors, reducers=('sum', 'mean')):
    """Which of the three licensed stop reasons fired / provably did not fire in this iteration.
    -> {'cap': True|False|None, 'threshold': ..., 'flag': ...}   (None = no evidence on this path)"""
    ev = {'cap': None, 'threshold': None, 'flag': None}
    capv = {S(cap)}
    if isinstance(e.env.get(cap), tuple) and not is_c(e.env[cap]):
        capv.add(e.env[cap])
    thv = {S(thresh)}
    if isinstance(e.env.get(thresh), tuple) and not is_c(e.env[thresh]):
        thv.add(e.env[thresh])

    def mentions(t, vals):
        return any(x in vals for x in subterms(t))

    def is_comp(t):
        return t[0] == 'sub' and t[2] == C(0) and t[1][0] == 'call' and t[1][1] in extractors

    def is_flag(t):
        return t[0] == 'sub' and t[2] == C(1) and t[1][0] == 'call' and t[1][1] in extractors

    def upd(k, v):
        # "fired" on any licensed condition wins over "not fired" on another of the same kind
        ev[k] = v if ev[k] is None else (ev[k] or v)
    for i, (c, truth, ln) in enumerate(e.conds):
        initer = i >= n0
        if c[0] == 'cmp' and c[1] in ('is', 'isnot') and c[3] == NONE and c[2] in capv:
            if _eff(c[1], truth) == 'is':
                upd('cap', False)            # no cap requested
            continue
        if not initer:
            continue
        if c[0] == 'not' and len(c) == 2:
            c, truth = c[1], not truth
        if is_flag(c):
            upd('flag', not truth)
            continue
        if c[0] == 'cmp' and c[1] in ('==', '!=') and is_flag(c[2]) and is_c(c[3]) and isinstance(c[3][1], bool):
            upd('flag', (_eff(c[1], truth) == '==') == (c[3][1] is False))
            continue
        if c[0] != 'cmp' or c[1] not in ('==', '!=', '<', '<=', '>', '>='):
            continue
        op, a, b = c[1], c[2], c[3]
        if mentions(a, capv) != mentions(b, capv):
            if mentions(a, capv):
                op, a, b = _flip(op), b, a
            upd('cap', _eff(op, truth) in ('==', '>=', '>'))
            continue
        if (a in thv) != (b in thv):
            if a in thv:
                op, a, b = _flip(op), b, a
            if _is_abs_reduce_term(a, is_comp, reducers):
                upd('threshold', _eff(op, truth) in ('<', '<='))
    return ev


def rule_licensed_exits(ctx, rid, fi, extractor_pred=None, cap='max_imfs', thresh='sift_thresh',
                        extractors=('emd.sift.get_next_imf',), context=None, must_leave=('cap', 'threshold', 'flag'),
                        reducers=('sum', 'mean')):
    """Every way of leaving the layer loop is one of: the cap test, the sift threshold on the component just
    extracted, the flag returned by the extraction - and each of the three does stop the loop.  Decided on the
    evaluated ends of one loop iteration (first and later iterations): an iteration that leaves the loop must
    have a licensed condition that fired; an iteration that continues must show all three not firing."""
    ev = Evaluator(ctx.P)
    exits = ev.run(fi, context=context or {})
    ctx.paths += len(exits)
    loops = find_loop(ev, set(extractors))
    if len(loops) != 1:
        raise AnalysisError('%s: expected one layer loop around the extraction, found %d' % (fi.qualname, len(loops)))
    loop = loops[0]
    names = {'cap': 'IMF cap', 'threshold': 'sift threshold', 'flag': 'extraction flag'}
    bad_leave = None
    bad_cont = {}
    n_leave = {'cap': 0, 'threshold': 0, 'flag': 0}
    n_cont = 0
    for sm in ev.loops_seen[loop]:
        for passno, how, e in sm.ends:
            if how == 'raise':
                continue
            evd = _layer_evidence(e, sm.n_entry_conds, cap, thresh, set(extractors), reducers)
            if how == 'continue':
                n_cont += 1
                for k in names:
                    if evd[k] is not False and k not in bad_cont:
                        bad_cont[k] = (e, 'fired but the loop continues' if evd[k] else
                                       'never tested on a path that continues the loop')
            else:
                fired = [k for k in names if evd[k]]
                for k in fired:
                    n_leave[k] += 1
                if not fired and bad_leave is None:
                    bad_leave = (how, e, sm)
    if bad_leave is not None:
        how, e, sm = bad_leave
        ic = [('' if t else 'not ') + show(c)[:70] for c, t, ln in e.conds[sm.n_entry_conds:]]
        ctx.violation(rid, fi, 'unlicensed loop exit',
                      'the layer loop can stop for a reason other than cap / sift threshold / extraction flag',
                      node=loop, expected='a fired condition in {cap reached, |component| sum < threshold, '
                      'extraction flag False}', found='; '.join(ic[-6:]) or 'unconditional', path=trace_tail(e, 12))
    for k, what in names.items():
        if k not in must_leave:
            # only the "leaves for a licensed reason" direction is claimed for this condition
            ctx.passed(rid, fi, 'licensed exit: ' + what, '%d leaving iteration ends fired on it (that it must stop the '
                       'loop is not part of this property)' % n_leave[k], node=loop)
            continue
        if k in bad_cont:
            e, why = bad_cont[k]
            ctx.violation(rid, fi, 'licensed exit: ' + what,
                          'the layer loop no longer stops on the %s (%s)' % (what, why), node=loop,
                          expected='every continuing iteration shows the %s not firing' % what, found=why,
                          path=trace_tail(e, 12))
        elif n_leave[k] == 0:
            ctx.violation(rid, fi, 'licensed exit: ' + what,
                          'the layer loop no longer stops on the %s' % what, node=loop,
                          expected='an exit guarded by the %s' % what, found='none')
        else:
            ctx.passed(rid, fi, 'licensed exit: ' + what,
                       '%d leaving iteration ends fired on it; %d continuing ends show it not firing'
                       % (n_leave[k], n_cont), node=loop)


# ----------------------------------------------------------------------------------------------
# C01.R4 None-chain: "no envelope" <= "no padded extrema" <= "fewer than two extrema"

def rule_none_chain(ctx, rid, gni):
    P = ctx.P
    x0 = gni.params[0]
    # (i) extraction: non-energy flag=False only under `<envelope of the iterate> is None`
    for sm in STOP_METHODS:
        exits = extraction_exits(ctx, gni, {'stop_method': sm, 'energy_thresh': None})
        alg = mk_algebra()
        ok = 0
        for e in exits:
            if e.kind != 'return':
                continue
            sp = _split_result(e)
            if sp is None or not (is_c(sp[1]) and sp[1][1] is False):
                continue
            comp = alg.poly(sp[0])
            reason = None
            for c, truth, ln in e.state.conds:
                if truth and c[0] == 'cmp' and c[1] == 'is' and is_c(c[3]) and c[3][1] is None \
                        and c[2][0] == 'call' and c[2][1] == 'emd.sift.interp_envelope':
                    kw = dict(c[2][3])
                    sig = kw.get('X')
                    mode = kw.get('mode')
                    if sig is not None and is_c(mode) and mode[1] in ('upper', 'lower'):
                        reason = (alg.poly(sig), mode[1])
            if reason is None:
                ctx.violation(rid, gni, 'stop_method=%s: flag cleared only when an envelope is missing' % sm,
                              'a path clears the continue flag without an envelope being None',
                              node=e.node, path=trace_tail(e.state, 14))
                break
            ok += 1
        else:
            ctx.passed(rid, gni, 'stop_method=%s: flag cleared only when an envelope is missing' % sm,
                       '%d flag-False exits, each under `interp_envelope(...) is None`' % ok)
    # (ii) interp_envelope returns None only under `locs is None`
    ie = P.func('emd.sift.interp_envelope')
    ev = Evaluator(P)
    exits = ev.run(ie)
    ctx.paths += len(exits)
    n_none = 0
    bad = None
    for e in exits:
        if e.kind == 'return' and is_c(e.value) and e.value[1] is None:
            n_none += 1
            why = False
            for c, truth, ln in e.state.conds:
                if truth and c[0] == 'cmp' and c[1] == 'is' and is_c(c[3]) and c[3][1] is None:
                    t = c[2]
                    if t[0] == 'sub' and t[1][0] == 'call' and t[1][1] == 'emd.sift.get_padded_extrema' \
                            and is_c(t[2]) and t[2][1] == 0:
                        why = True
            if not why:
                bad = e
    if bad is not None:
        ctx.violation(rid, ie, 'envelope is None only when the padded extrema are None',
                      'interp_envelope returns None on a path where get_padded_extrema produced locations',
                      node=bad.node, path=trace_tail(bad.state))
    elif n_none == 0:
        ctx.violation(rid, ie, 'envelope is None only when the padded extrema are None',
                      'interp_envelope never returns None: "too few extrema" can no longer be signalled',
                      expected='return None under `locs is None`', found='no None return')
    else:
        ctx.passed(rid, ie, 'envelope is None only when the padded extrema are None', '%d None exits' % n_none)
    # (iii) get_padded_extrema returns (None, None) exactly for count <= 1
    gpe = P.func('emd.sift.get_padded_extrema')
    ev = Evaluator(P)
    exits = ev.run(gpe, context={'mode': 'peaks'})
    ctx.paths += len(exits)
    none_sets = []
    nonnone_sets = []
    undec = None
    for e in exits:
        if e.kind != 'return':
            continue
        is_none = e.value == ('tuple', (NONE, NONE))
        cs = _count_constraints(e.state.conds)
        if cs is None:
            undec = e
            continue
        (none_sets if is_none else nonnone_sets).append(cs)
    if undec is not None and not none_sets:
        ctx.undecided(rid, gpe, 'no extrema returned <=> fewer than two found',
                      'cannot read the count constraint of a path', node=undec.node, path=trace_tail(undec.state))
    else:
        union = frozenset().union(*none_sets) if none_sets else frozenset()
        spec = count_set('<', 2)
        others = frozenset().union(*nonnone_sets) if nonnone_sets else frozenset()
        if union == spec and not (others & spec):
            ctx.passed(rid, gpe, 'no extrema returned <=> fewer than two found',
                       'None-return count set == {0,1}; %d None paths' % len(none_sets))
        else:
            ctx.violation(rid, gpe, 'no extrema returned <=> fewer than two found',
                          'the "(None, None)" result is not returned exactly when fewer than two extrema exist',
                          expected='counts {0, 1}', found='None for counts %s; values for counts min %s'
                          % (_fmt_set(union), min(others) if others else '-'))


def _fmt_set(s):
    s = sorted(s)
    if len(s) > 8:
        return '{%s, ..., %s}' % (', '.join(map(str, s[:4])), s[-1])
    return '{%s}' % ', '.join(map(str, s))


def _is_count_of_locs(t):
    """len(locs) | locs.size | locs.shape[0] where locs = _find_extrema(...)[0]"""
    def is_locs(x):
        return x[0] == 'sub' and is_c(x[2]) and x[2][1] == 0 and x[1][0] == 'call' \
            and x[1][1] == 'emd.sift._find_extrema'
    if t[0] == 'call' and t[1] == 'builtins.len' and len(t[2]) == 1 and is_locs(t[2][0]):
        return True
    if t[0] == 'attr' and t[2] == 'size' and is_locs(t[1]):
        return True
    if t[0] == 'sub' and t[1][0] == 'attr' and t[1][2] == 'shape' and is_locs(t[1][1]) and is_c(t[2]) \
            and t[2][1] == 0:
        return True
    return False


def _count_constraints(conds):
    """Set of extrema counts allowed by the count-comparisons on a path (only
    comparisons of the count with an integer literal are read)."""
    allowed = count_set('>=', 0)
    for c, truth, ln in conds:
        if c[0] != 'cmp':
            continue
        op, a, b = c[1], c[2], c[3]
        if _is_count_of_locs(b) and is_c(a):
            a, b = b, a
            op = {'<': '>', '>': '<', '<=': '>=', '>=': '<=', '==': '==', '!=': '!='}.get(op)
        if not _is_count_of_locs(a):
            continue
        if not (is_c(b) and isinstance(b[1], int)) or op not in ('==', '!=', '<', '<=', '>', '>='):
            continue      # comparison with pad_width etc.: not a count constraint vs literal
        s = count_set(op, b[1])
        if not truth:
            s = count_set('>=', 0) - s
        allowed = allowed & s
    return allowed


# ==============================================================================================
# C04 rules

ENV = 'emd.sift.interp_envelope'


def _envelope_atoms(alg, p):
    """Atoms of polynomial p that are envelope calls: {atom: (mode, X poly, other kwargs canon)}"""
    out = {}
    for a in p.atoms():
        t = alg.atom_terms.get(a)
        if t is not None and t[0] == 'call' and t[1] == ENV:
            kw = dict(t[3])
            mode = kw.get('mode')
            sig = kw.get('X')
            rest = tuple(sorted((k, alg.canon(v)) for k, v in kw.items() if k not in ('mode', 'X')))
            out[a] = (mode[1] if mode is not None and is_c(mode) else None,
                      alg.poly(sig) if sig is not None else None, rest)
    return out


def _check_mean_removed(alg, comp_poly, iter_poly, scale):
    """comp == iter - scale/2 * U(iter) - scale/2 * L(iter) with identical options. Returns None or reason."""
    from fractions import Fraction
    envs = _envelope_atoms(alg, comp_poly)
    modes = sorted(m for m, _, _ in envs.values() if m)
    if modes != ['lower', 'upper']:
        return 'expected exactly one upper and one lower envelope term, found modes %s' % modes
    rests = {r for _, _, r in envs.values()}
    if len(rests) != 1:
        return 'upper and lower envelopes are computed with different options'
    for a, (m, sig, r) in envs.items():
        if sig != iter_poly:
            return 'the %s envelope is not computed from the current iterate (stale or different signal)' % m
    expected = iter_poly
    for a in envs:
        expected = expected - (Poly.atom(a) * scale).scale(Fraction(1, 2))
    if comp_poly != expected:
        return 'expected %s, found %s' % (str(expected)[:160], str(comp_poly)[:160])
    return None


def _iterate_var(P, gni):
    """(name of the variable holding the current iterate, sifting loop node): the variable whose value at the head of
    iterations >= 2 is the signal argument of the envelope calls of that iteration.  Read from the evaluated
    iterations, so the envelope calls may sit in a helper."""
    cache = P.__dict__.setdefault('_iterate_var_cache', {})
    if gni.qualname in cache:
        return cache[gni.qualname]
    ev = Evaluator(P)
    ev.run(gni, context={'stop_method': 'sd', 'energy_thresh': None})
    loops = find_loop(ev, {ENV})
    if len(loops) != 1:
        raise AnalysisError('%s: expected one sifting loop around the envelope calls, found %d'
                            % (gni.qualname, len(loops)))
    loop = loops[0]
    tag = '@L%d' % loop.lineno
    names = set()
    for sm in ev.loops_seen[loop]:
        for passno, how, e in sm.ends:
            if passno != '>=2':
                continue
            terms = [c for c, tr, ln in e.conds[sm.n_entry_conds:]] + [v for v in e.env.values() if isinstance(v, tuple)]
            for t in terms:
                for x in subterms(t):
                    if x[0] == 'call' and x[1] == ENV:
                        sig = dict(x[3]).get(P.func(ENV).params[0])
                        if sig is not None and sig[0] == 's' and sig[1].endswith(tag):
                            names.add(sig[1][:-len(tag)])
    if len(names) != 1:
        raise AnalysisError('%s: cannot identify the iterate variable of the sifting loop (candidates: %s)'
                            % (gni.qualname, sorted(names)))
    cache[gni.qualname] = (names.pop(), loop)
    return cache[gni.qualname]


def _no_envelope_path(e):
    """The path left the sifting loop because an envelope of the iterate was None."""
    for c, truth, ln in e.state.conds:
        if truth and c[0] == 'cmp' and c[1] == 'is' and is_c(c[3]) and c[3][1] is None \
                and c[2][0] == 'call' and c[2][1] == ENV:
            return True
    return False


def rule_iterate_algebra(ctx, rid, gni, step_formal='env_step_size'):
    P = ctx.P
    itvar, loop = _iterate_var(P, gni)
    x0 = gni.params[0]
    tag = 'L%d' % loop.lineno
    head_atom = S('%s@%s' % (itvar, tag))
    for sm in STOP_METHODS:
        exits = extraction_exits(ctx, gni, {'stop_method': sm, 'energy_thresh': None})
        alg = mk_algebra()
        X = alg.poly(S(x0))
        H = alg.poly(head_atom)
        step = alg.poly(S(step_formal))
        # (a) returned on stop: flag True exits
        n_stop = 0
        n_noenv = 0
        err = None
        for e in exits:
            if e.kind != 'return':
                continue
            sp = _split_result(e)
            if sp is None or not (is_c(sp[1]) and sp[1][1] is True):
                continue
            comp = alg.poly(sp[0])
            it = H if any(a == head_atom[1] or ('X=' + head_atom[1]) in a for a in comp.atoms()) else X
            if _no_envelope_path(e):
                # "the first iterate left with too few extrema": returned as it is
                n_noenv += 1
                if comp != it:
                    err = (e, 'iterate without envelopes is not returned unchanged: %s' % str(comp)[:120])
                    break
                continue
            why = _check_mean_removed(alg, comp, it, Poly.const(1))
            n_stop += 1
            if why:
                err = (e, why)
                break
        c1 = 'stop_method=%s: returned IMF == iterate - (U+L)/2' % sm
        if err:
            ctx.violation(rid, gni, c1, 'the component returned when the stop rule fires is not the iterate with '
                          'its full envelope mean removed: ' + err[1], node=err[0].node, path=trace_tail(err[0].state))
        elif n_stop == 0:
            ctx.violation(rid, gni, c1, 'no path returns an IMF with the continue flag set')
        else:
            ctx.passed(rid, gni, c1, '%d stop exits, %d late no-envelope exits returning the iterate unchanged'
                       % (n_stop, n_noenv))
        # (b) non-stop update at the back edges that continue
        summ = None
        for e in exits:
            for ls in e.state.loops:
                if ls.node is loop:
                    summ = ls
        if summ is None:
            ctx.undecided(rid, gni, 'stop_method=%s: next iterate' % sm, 'no loop summary')
            continue
        n_upd = 0
        err = None
        for passno, how, b in summ.ends:
            if how != 'continue':
                continue            # iteration ends that leave the loop are covered by (a)
            nv = alg.poly(b.env[itvar])
            it = X if passno == '1' else H
            why = _check_mean_removed(alg, nv, it, step)
            n_upd += 1
            if why:
                err = (b, why)
                break
        c2 = 'stop_method=%s: next iterate == iterate - step*(U+L)/2' % sm
        if err:
            ctx.violation(rid, gni, c2, 'the sifting update is not the previous iterate minus the step-scaled '
                          'envelope mean: ' + err[1], node=loop, path=trace_tail(err[0]))
        elif n_upd == 0:
            ctx.violation(rid, gni, c2, 'no continuing path through the sifting loop')
        else:
            ctx.passed(rid, gni, c2, '%d continuing back-edge states' % n_upd)


STOP_FUNCS = {'sd': 'emd.sift.sd_stop', 'rilling': 'emd.sift.rilling_stop', 'fixed': 'emd.sift.fixed_stop'}


def rule_stop_dispatch(ctx, rid, gni):
    """stop_method literal -> stop function with the right actuals on the right formals."""
    P = ctx.P
    itvar, loop = _iterate_var(P, gni)
    x0 = gni.params[0]
    head_atom = S('%s@L%d' % (itvar, loop.lineno))
    for sm in STOP_METHODS:
        exits = extraction_exits(ctx, gni, {'stop_method': sm, 'energy_thresh': None})
        alg = mk_algebra()
        X = alg.poly(S(x0))
        H = alg.poly(head_atom)
        seen = 0
        err = None
        for e in exits:
            if e.kind != 'return':
                continue
            sp = _split_result(e)
            if sp is None or not (is_c(sp[1]) and sp[1][1] is True):
                continue
            if _no_envelope_path(e):
                continue
            # the deciding `if stop` condition of this path: last cond that is True and mentions a stop function
            stopc = None
            for c, truth, ln in e.state.conds:
                calls = [x for x in subterms(c) if x[0] == 'call' and x[1] in STOP_FUNCS.values()]
                if truth and calls:
                    stopc = (c, calls[0])
                if truth and c[0] == 's' and c[1].startswith('global:'):
                    stopc = (c, None)
            if stopc is None:
                err = (e, 'the IMF is returned without consulting a stop function')
                break
            c, call = stopc
            if call is None:
                err = (e, 'stop decision reads an undefined value for this stop_method')
                break
            seen += 1
            if call[1] != STOP_FUNCS[sm]:
                err = (e, "stop_method '%s' dispatches to %s" % (sm, call[1]))
                break
            kw = dict(call[3])
            pass1 = not any(head_atom[1] in alg.canon(v) for v in kw.values())
            it = X if pass1 else H
            if sm == 'sd':
                a, b, sd = kw.get('proto_imf'), kw.get('prev_imf'), kw.get('sd')
                if a is None or b is None or sd is None:
                    err = (e, 'sd_stop formals renamed or unbound')
                    break
                if alg.poly(a) != it:
                    err = (e, 'sd_stop reference signal (denominator) is not the current iterate: %s'
                           % str(alg.poly(a))[:80])
                    break
                why = _check_mean_removed(alg, alg.poly(b), it, Poly.const(1))
                if why:
                    err = (e, 'sd_stop candidate is not iterate minus envelope mean: ' + why)
                    break
                if sd != S('sd_thresh'):
                    err = (e, 'sd_stop threshold is not sd_thresh: %s' % show(sd))
                    break
            elif sm == 'rilling':
                up, lo = kw.get('upper_env'), kw.get('lower_env')
                ok = True
                for arg, mode in ((up, 'upper'), (lo, 'lower')):
                    if arg is None or arg[0] != 'call' or arg[1] != ENV or dict(arg[3]).get('mode') != C(mode) \
                            or alg.poly(dict(arg[3]).get('X')) != it:
                        err = (e, 'rilling_stop %s_env is not the %s envelope of the current iterate' % (mode, mode))
                        ok = False
                        break
                if not ok:
                    break
                for formal, idx in (('sd1', 0), ('sd2', 1), ('tol', 2)):
                    if kw.get(formal) != ('sub', S('rilling_thresh'), C(idx)):
                        err = (e, 'rilling_stop %s is not rilling_thresh[%d]: %s' % (formal, idx, show(kw.get(formal))))
                        ok = False
                        break
                if not ok:
                    break
            elif sm == 'fixed':
                n, m = kw.get('niters'), kw.get('max_iters')
                if m != S('max_iters'):
                    err = (e, 'fixed_stop limit is not max_iters: %s' % show(m))
                    break
                lo = Evaluator(P).bounds(n, e.state)[0] if n is not None else None
                if n is None or lo is None or lo < 1:
                    err = (e, 'fixed_stop count is not the 1-based iteration counter: %s' % show(n))
                    break
        c = "stop_method '%s' -> %s with documented actuals" % (sm, STOP_FUNCS[sm].split('.')[-1])
        if err:
            ctx.violation(rid, gni, c, err[1], node=err[0].node, path=trace_tail(err[0].state))
        elif seen == 0:
            ctx.violation(rid, gni, c, 'no IMF-returning path consults the stop function')
        else:
            ctx.passed(rid, gni, c, '%d stop decisions' % seen)


def rule_stop_predicates(ctx, rid):
    """Normal forms of the three stop predicates vs. the documented ones."""
    from ..boolnorm import nnf, show_nnf
    P = ctx.P
    alg = mk_algebra()

    def ret0(qual):
        fi = P.func(qual)
        exits = Evaluator(P).run(fi)
        vals = set()
        rets = []
        for e in exits:
            if e.kind == 'return':
                v = e.value
                if v[0] == 'tuple' and v[1]:
                    v = v[1][0]
                vals.add(v)
                rets.append((v, e))
        # guard-clause form: every path returns a literal True / False - the predicate is the disjunction, over the
        # paths that return True, of the conjunction of their path conditions
        if len(vals) > 1 and all(is_c(v) and isinstance(v[1], bool) for v in vals):
            disj = []
            for v, e in rets:
                if v[1] is True:
                    lits = tuple(c if truth else ('un', 'not', c) for c, truth, _ln in e.state.conds)
                    disj.append(lits[0] if len(lits) == 1 else ('and', lits))
            if disj and all(d != ('and', ()) for d in disj):
                vals = {disj[0] if len(disj) == 1 else ('or', tuple(disj))}
        return fi, vals

    def sq(x):
        return ('bin', '**', x, C(2))

    def npsum(x):
        return ('call', 'numpy.sum', (x,), ())
    # sd
    fi, vals = ret0('emd.sift.sd_stop')
    a, b, sd = S(fi.params[0]), S(fi.params[1]), S('sd')
    spec = ('cmp', '<', ('bin', '/', npsum(sq(('bin', '-', a, b))), npsum(sq(a))), sd)
    _cmp_pred(ctx, rid, fi, alg, vals, spec, 'sd_stop: stop <=> sum((a-b)^2)/sum(a^2) < sd')
    # rilling
    fi, vals = ret0('emd.sift.rilling_stop')
    u, l = S(fi.params[0]), S(fi.params[1])

    def npabs(x):
        return ('call', 'numpy.abs', (x,), ())
    E = ('bin', '/', npabs(('bin', '/', ('bin', '+', u, l), C(2))), ('bin', '/', npabs(('bin', '-', u, l)), C(2)))
    c1 = ('cmp', '>', ('call', 'numpy.mean', (('cmp', '>', E, S('sd1')),), ()), S('tol'))
    c2 = ('call', 'numpy.any', (('cmp', '>', E, S('sd2')),), ())
    spec = ('un', 'not', ('or', (c1, c2)))
    _cmp_pred(ctx, rid, fi, alg, vals, spec,
              'rilling_stop: stop <=> not(mean(E>sd1) > tol or any(E>sd2)), E=|(U+L)/2|/(|U-L|/2)')
    # fixed
    fi, vals = ret0('emd.sift.fixed_stop')
    spec = ('cmp', '==', S(fi.params[0]), S(fi.params[1]))
    _cmp_pred(ctx, rid, fi, alg, vals, spec, 'fixed_stop: stop <=> niters == max_iters')


def _cmp_pred(ctx, rid, fi, alg, vals, spec, construct):
    from ..boolnorm import nnf, show_nnf
    if len(vals) != 1:
        ctx.undecided(rid, fi, construct, 'stop value differs between paths (%d forms)' % len(vals))
        return
    got = nnf(next(iter(vals)), alg)
    want = nnf(spec, alg)
    if got == want:
        ctx.passed(rid, fi, construct, show_nnf(got)[:200])
    else:
        ctx.violation(rid, fi, construct, 'stop predicate differs from the documented criterion',
                      expected=show_nnf(want)[:300], found=show_nnf(got)[:300])


def rule_bounded_loop(ctx, rid, gni, limit='max_iters', exc='emd.support.EMDSiftCovergeError'):
    P = ctx.P
    itvar, loop = _iterate_var(P, gni)
    ev0 = Evaluator(P)
    for sm in STOP_METHODS:
        exits = extraction_exits(ctx, gni, {'stop_method': sm, 'energy_thresh': None})
        alg = mk_algebra()
        summ = None
        for e in exits:
            for ls in e.state.loops:
                if ls.node is loop:
                    summ = ls
        if summ is None:
            ctx.undecided(rid, gni, 'stop_method=%s: bounded loop' % sm, 'no loop summary')
            continue
        # counter: a variable with +1 per iteration on every back edge
        counters = None
        for kind, b in summ.body_states:
            cs = set()
            for name, head in summ.head_env.items():
                if name not in b.env or kind != 'back2':
                    continue
                d = alg.poly(b.env[name]) - alg.poly(head)
                if d == Poly.const(1):
                    cs.add(name)
            if kind == 'back2':
                counters = cs if counters is None else (counters & cs)
        c_inc = 'stop_method=%s: iteration counter incremented exactly once per iteration' % sm
        if not counters:
            ctx.violation(rid, gni, c_inc, 'no variable increases by exactly one on every path through the loop body',
                          node=loop)
            continue
        ctx.passed(rid, gni, c_inc, 'counter(s): %s' % ', '.join(sorted(counters)), node=loop)
        if sm == 'fixed':
            # termination by equality on the same counter (integer limit >= 1 assumed)
            ctx.assume("stop_method='fixed': max_iters is an integer >= 1 (documented 'int > 0')")
            continue
        c_guard = 'stop_method=%s: limit guard passed before every increment, raising the convergence error' % sm
        raises = [e for e in exits if e.kind == 'raise' and e.value[0] == 'call' and e.value[1] == exc]
        ok_raise = False

        def counter_term(t):
            # the counter itself, or the counter shifted by a constant (`completed = niters - 1`): the guard
            # `counter + k > limit` bounds the loop just as well
            for n_ in counters:
                h = summ.head_env.get(n_)
                if h is None:
                    continue
                if t == h or (alg.poly(t) - alg.poly(h)).is_const():
                    return True
            return False
        for e in raises:
            for c, truth, ln in e.state.conds:
                for op_, l_, r_ in cmp_views(c):
                    if truth and op_ in ('>', '>=') and r_ == S(limit) and counter_term(l_):
                        ok_raise = True
        if not ok_raise:
            ctx.violation(rid, gni, c_guard, 'no path raises the convergence error when the counter exceeds max_iters',
                          node=loop, expected='raise %s under counter > %s' % (exc.split('.')[-1], limit),
                          found='%d raise exits' % len(raises))
            continue
        bad = None
        for kind, b in summ.body_states:
            if kind != 'back2':
                continue
            passed = False
            for c0, truth, ln in b.conds:
              for op_, l_, r_ in cmp_views(c0):
                c = ('cmp', op_, l_, r_)
                is_counter = counter_term(c[2])
                if is_counter and c[1] in ('>', '>=') and c[3] == S(limit) and truth is False:
                    passed = True
                if is_counter and c[1] == '==' and truth is True and _floor_fraction_of(c[3], S(limit)):
                    passed = True      # lemma: k*m//d <= m for 0 <= k <= d, m >= 0
                if is_counter and c[1] == '==' and truth is True and not any(
                        t[0] == 's' and '@' in t[1] for t in subterms(c[3])):
                    # the counter increases strictly, so it equals a loop-invariant value in at most one iteration:
                    # the limit test is skipped at most once and the extraction stays bounded (limit + 1 iterations)
                    passed = True
            if not passed:
                bad = b
                break
        if bad is not None:
            ctx.violation(rid, gni, c_guard, 'a path through the loop body reaches the increment without the '
                          'limit test', node=loop, path=trace_tail(bad))
        else:
            ctx.passed(rid, gni, c_guard, '%d raise exits; guard on every iteration>=2 body path' % len(raises))


def _floor_fraction_of(t, limit):
    """t == k*limit//d with integers 0 <= k <= d, d > 0."""
    if t[0] == 'bin' and t[1] == '//' and is_c(t[3]) and isinstance(t[3][1], int) and t[3][1] > 0:
        d = t[3][1]
        n = t[2]
        if n == limit:
            return True
        if n[0] == 'bin' and n[1] == '*':
            for k, m in ((n[2], n[3]), (n[3], n[2])):
                if is_c(k) and isinstance(k[1], int) and 0 <= k[1] <= d and m == limit:
                    return True
    return False


def _sift_evidence(e, n0):
    """-> {'stop': True|False|None, 'none': True|False|None} for one end of a sifting iteration:
    did the stop rule fire / was an envelope of the iterate missing (None = not tested on this path)."""
    evd = {'stop': None, 'none': None}
    stops = set(STOP_FUNCS.values())

    def is_stop(t):
        if t[0] == 'sub' and t[2] == C(0) and t[1][0] == 'call' and t[1][1] in stops:
            return True
        return t[0] == 'call' and t[1] in stops

    def upd(k, v):
        evd[k] = v if evd[k] is None else (evd[k] or v)
    for c, truth, ln in e.conds[n0:]:
        if c[0] == 'not' and len(c) == 2:
            c, truth = c[1], not truth
        if is_stop(c):
            upd('stop', truth)
        elif c[0] == 'cmp' and c[1] in ('is', 'isnot') and c[3] == NONE and c[2][0] == 'call' and c[2][1] == ENV:
            upd('none', _eff(c[1], truth) == 'is')
    return evd


def rule_extraction_loop_exits(ctx, rid, gni):
    """The sifting loop is left only because the stop rule fired or an envelope is missing, and it is left whenever
    one of the two happens: decided on the evaluated ends of one sifting iteration per stop rule."""
    n_leave = {'stop': 0, 'none': 0}
    n_cont = 0
    loopnode = None
    for sm_name in STOP_METHODS:
        ev = Evaluator(ctx.P)
        exits = ev.run(gni, context={'stop_method': sm_name, 'energy_thresh': None})
        ctx.paths += len(exits)
        loops = find_loop(ev, {ENV})
        if len(loops) != 1:
            raise AnalysisError('%s: expected one sifting loop around the envelope calls, found %d'
                                % (gni.qualname, len(loops)))
        loopnode = loops[0]
        for sm in ev.loops_seen[loopnode]:
            for passno, how, e in sm.ends:
                if how == 'raise':
                    continue
                evd = _sift_evidence(e, sm.n_entry_conds)
                if how == 'continue':
                    n_cont += 1
                    if evd['stop'] or evd['none']:
                        ctx.violation(rid, gni, 'sifting loop exits are {stop fired, envelope missing}',
                                      'the sifting loop continues although %s (stop_method=%s)'
                                      % ('the stop rule fired' if evd['stop'] else 'an envelope is missing', sm_name),
                                      node=loopnode, path=trace_tail(e, 12))
                        return
                    if evd['stop'] is None:
                        ctx.violation(rid, gni, 'sifting loop exits are {stop fired, envelope missing}',
                                      'an iteration continues the sifting loop without consulting the stop rule '
                                      '(stop_method=%s)' % sm_name, node=loopnode, path=trace_tail(e, 12))
                        return
                    continue
                fired = [k for k in ('stop', 'none') if evd[k]]
                for k in fired:
                    n_leave[k] += 1
                if not fired:
                    ic = [('' if t else 'not ') + show(c)[:70] for c, t, ln in e.conds[sm.n_entry_conds:]]
                    ctx.violation(rid, gni, 'unlicensed exit of the sifting loop',
                                  'the sifting loop can be left for a reason other than "stop rule fired" or "envelope '
                                  'missing" (an unconverged iterate would be returned silently; stop_method=%s)' % sm_name,
                                  node=loopnode, found='; '.join(ic[-6:]) or 'unconditional', path=trace_tail(e, 12))
                    return
    if n_leave['stop'] >= 3 and n_leave['none'] >= 3:
        ctx.passed(rid, gni, 'sifting loop exits are {stop fired, envelope missing}',
                   '%d leaving ends on the stop rule, %d on a missing envelope, %d continuing ends with neither '
                   '(3 stop rules, first and later iterations)' % (n_leave['stop'], n_leave['none'], n_cont),
                   node=loopnode)
    else:
        ctx.violation(rid, gni, 'sifting loop exits are {stop fired, envelope missing}',
                      'expected an exit on the stop rule and one on missing envelopes for each stop rule, found %s'
                      % n_leave, node=loopnode)


def rule_energy_stop(ctx, rid, gni):
    P = ctx.P
    x0 = gni.params[0]
    alg = mk_algebra()
    X = alg.poly(S(x0))
    ev = Evaluator(P)
    exits = ev.run(gni, context={'stop_method': 'sd'})
    ctx.paths += len(exits)
    n_energy = 0
    bad = None
    for e in exits:
        if e.kind != 'return':
            continue
        sp = _split_result(e)
        if sp is None:
            continue
        comp, flag = sp
        en = None
        for c, truth, ln in e.state.conds:
            if c[0] == 'cmp' and c[1] in ('is', 'isnot') and c[2] == S('energy_thresh'):
                en = (c[1] == 'isnot') == truth
        if not en:
            continue
        # paths with a threshold: the energy comparison must be present and decide the flag
        dec = None
        for c, truth, ln in e.state.conds:
            if c[0] == 'cmp' and c[1] in ('>', '>=') and c[3] == S('energy_thresh') and c[2][0] == 'call' \
                    and c[2][1] == 'emd.sift._energy_difference':
                dec = (c, truth)
        if dec is None:
            bad = (e, 'energy threshold given but never compared')
            break
        c, truth = dec
        kw = dict(c[2][3])
        if alg.poly(kw.get('imf', NONE)) != X or alg.poly(kw.get('residue', NONE)) != X - alg.poly(comp):
            bad = (e, 'energy difference is not computed between the input and input-minus-component')
            break
        if truth:
            n_energy += 1
            if not (is_c(flag) and flag[1] is False):
                bad = (e, 'energy ratio above threshold does not clear the continue flag')
                break
    c = 'energy threshold: flag cleared iff 20log10(sum X^2) - 20log10(sum (X-imf)^2) > energy_thresh'
    if bad:
        ctx.violation(rid, gni, c, bad[1], node=bad[0].node, path=trace_tail(bad[0].state))
    elif n_energy == 0:
        ctx.violation(rid, gni, c, 'no path stops the sift on the energy ratio')
    else:
        # the metric itself
        ed = P.func('emd.sift._energy_difference')
        vals = {e.value for e in Evaluator(P).run(ed) if e.kind == 'return'}
        a, b = S(ed.params[0]), S(ed.params[1])

        def db(x):
            return ('bin', '*', C(20), ('call', 'numpy.log10', (('call', 'numpy.sum', (('bin', '**', x, C(2)),), ()),), ()))
        want = alg.poly(('bin', '-', db(a), db(b)))
        if len(vals) == 1 and alg.poly(next(iter(vals))) == want:
            ctx.passed(rid, gni, c, '%d energy-stop exits; metric == %s' % (n_energy, str(want)[:80]))
        else:
            ctx.violation(rid, ed, c, 'energy metric differs from 20log10(sum imf^2) - 20log10(sum residue^2)',
                          expected=str(want)[:200], found='; '.join(str(alg.poly(v))[:200] for v in vals))


# ----------------------------------------------------------------------------------------------
# no clobbering: a stored component never shares its buffer with a residual that is updated in place

VIEW_CALLS = {'numpy.asarray', 'numpy.asanyarray', 'numpy.squeeze', 'numpy.reshape', 'numpy.ravel', 'numpy.atleast_1d',
              'numpy.atleast_2d', 'numpy.transpose', 'numpy.ascontiguousarray', 'emd.support.ensure_1d_with_singleton',
              'emd.support.ensure_vector', 'emd.support.ensure_2d'}
VIEW_METHS = {'reshape', 'ravel', 'squeeze', 'view', 'transpose'}


def may_alias(t, atom):
    """t is (possibly) the same buffer as the array `atom`: reached through views only (no copy, no arithmetic)."""
    if t == atom:
        return True
    if t[0] == 'sub':
        return may_alias(t[1], atom)          # basic or advanced indexing: conservatively a view
    if t[0] == 'attr' and t[2] in ('T', 'real'):
        return may_alias(t[1], atom)
    if t[0] == 'meth' and t[1] in VIEW_METHS:
        return may_alias(t[2], atom)
    if t[0] == 'call' and t[1] in VIEW_CALLS:
        args = list(t[2]) + [v for k, v in t[3] if k in ('to_check', 'a', 'x')]
        for a in args:
            if a[0] in ('list', 'tuple'):
                if any(may_alias(x, atom) for x in a[1]):
                    return True
            elif may_alias(a, atom):
                return True
    return False


def rule_no_clobber(ctx, rid, fi, extractor_q, contexts):
    """The component handed back by the single-IMF extraction must not be a view of the signal it was given when the
    caller updates that signal in place: otherwise the stored component is overwritten by the residual update
    (two edits that each look harmless: dropping a defensive copy in the extraction, `residual -= component`)."""
    P = ctx.P
    ex = P.func(extractor_q)
    x0 = S(ex.params[0])
    alias_paths = []
    for context in contexts:
        for e in extraction_exits(ctx, ex, context):
            if e.kind != 'return':
                continue
            sp = _split_result(e)
            comp = sp[0] if sp else e.value
            if may_alias(comp, x0):
                alias_paths.append(e)
    # in-place updates in the caller of a variable that is also handed to the extraction as its signal
    sig_names = set()
    for c in P.calls_in(fi):
        ca = P.resolve_callee(fi.module, fi, c.func)
        if ca.kind == 'repo' and ca.dotted == extractor_q:
            b = P.bind(c.args, c.keywords, ca)
            node = b.args.get(ex.params[0])
            if isinstance(node, ast.Name):
                sig_names.add(node.id)
    inplace = []
    for n in walk_local(fi.node):
        if isinstance(n, ast.AugAssign) and isinstance(n.target, ast.Name) and n.target.id in sig_names:
            inplace.append((n, '`%s`' % unparse(n)[:50]))
        elif isinstance(n, ast.Subscript) and isinstance(n.ctx, ast.Store) and isinstance(n.value, ast.Name) \
                and n.value.id in sig_names:
            inplace.append((n, 'store into `%s`' % unparse(n)[:40]))
        elif isinstance(n, ast.Call) and isinstance(n.func, ast.Attribute) and isinstance(n.func.value, ast.Name) \
                and n.func.value.id in sig_names and n.func.attr in ('fill', 'sort', 'put', 'itemset', 'resize'):
            inplace.append((n, '`%s`' % unparse(n)[:50]))
        elif isinstance(n, ast.keyword) and n.arg == 'out' and isinstance(n.value, ast.Name) and n.value.id in sig_names:
            inplace.append((n.value, '`out=%s`' % n.value.id))
    c = 'an extracted component never shares its buffer with a residual that is updated in place'
    if alias_paths and inplace:
        e = alias_paths[0]
        ctx.violation(rid, fi, c, '%s can return (a view of) the very array it was given (%s), and %s updates that array '
                      'in place (%s): the component stored for this layer is overwritten by the residual'
                      % (ex.name, show(_split_result(e)[0] if _split_result(e) else e.value)[:50], fi.name,
                         inplace[0][1]), node=inplace[0][0], path=trace_tail(e.state, 6))
    else:
        ctx.passed(rid, fi, c, '%d extraction path(s) returning a view of the input, %d in-place update(s) of the '
                   'extraction input in %s' % (len(alias_paths), len(inplace), fi.name))


def rule_through_layer_loop(ctx, rid, fi, extractors, context=None, allow_sift_call=False):
    """Every way the variant returns has run its layer loop: a fast path that hands back something else (the input
    for a 'negligible' signal, a classic sift for 'zero noise') is not the peeling of one extraction per layer."""
    ev = Evaluator(ctx.P)
    exits = ev.run(fi, context=context or {})
    ctx.paths += len(exits)
    loops = find_loop(ev, set(extractors))
    c = 'every return path has gone through the layer loop'
    if len(loops) != 1:
        ctx.undecided(rid, fi, c, 'expected one layer loop, found %d' % len(loops))
        return
    loop = loops[0]
    bad = None
    n = 0
    for e in exits:
        if e.kind != 'return':
            continue
        n += 1
        if any(ls.node is loop for ls in e.state.loops):
            continue
        v = e.value
        if allow_sift_call and v[0] == 'call' and v[1] == 'emd.sift.sift':
            kw = dict(v[3])
            missing = [f for f in ('sift_thresh', 'max_imfs', 'imf_opts', 'envelope_opts', 'extrema_opts')
                       if kw.get(f) != S(f)]
            if not missing:
                continue
            bad = (e, 'a path returns the classic sift without %s' % ', '.join(missing))
            continue
        bad = (e, 'a path returns %s without running the layer loop (conditions: %s)'
               % (show(v)[:50], '; '.join('%s=%s' % (show(cn)[:50], t) for cn, t, _ in e.state.conds[-2:]) or 'none'))
    if bad:
        ctx.violation(rid, fi, c, bad[1], node=bad[0].node, path=trace_tail(bad[0].state, 6))
    elif n == 0:
        ctx.undecided(rid, fi, c, 'no return path')
    else:
        ctx.passed(rid, fi, c, '%d return path(s)' % n)
